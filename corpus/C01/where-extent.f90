program p
  implicit none
  integer, dimension(0:3) :: c
  integer, dimension(2:4) :: d
  integer :: i
  do i = 0, 3
    c(i) = i + 5
  end do
  d = 3
  where (c(:) > 1) c(:) = 0
  where (d(:) > 1) d(:) = 9
  print *, c
  print *, d
end program p
