program logic_roundtrip
  implicit none
  logical :: a, b, c
  logical :: r1, r2, r3, r4, r5
  integer :: i, j, k
  do i = 0, 1
    do j = 0, 1
      do k = 0, 1
        a = i == 1
        b = j == 1
        c = k == 1
        r1 = a .or. (b .eqv. c)
        r2 = (a .neqv. b) .or. c
        r3 = (a .eqv. b) .or. (b .neqv. c)
        r4 = (a .or. b) .eqv. c
        r5 = .not. (a .and. (b .or. (c .eqv. a)))
        print *, i, j, k, r1, r2, r3, r4, r5
      end do
    end do
  end do
end program logic_roundtrip
