program p
  implicit none
  integer, dimension(-2:3) :: a
  integer, dimension(6) :: b, c
  integer, dimension(12) :: e
  integer :: i
  do i = 1, 6
    a(i - 3) = i - 3
    b(i) = 2 * i
    c(i) = 0
  end do
  do i = 1, 12
    e(i) = 100 + i
  end do
  where (a(:) > 0)
    b(:) = a(:) + e(4:9)
    c(:) = b(:) * 2
  elsewhere (a(:) < 0)
    c(:) = abs(a(:)) + sum(e)
  elsewhere
    b(:) = -1
    c(:) = b(:) + 1
  end where
  do i = 3, 1, -1
    where (b(:) > c(:)) c(:) = c(:) + i
  end do
  do i = 5, 1
    c(1) = 99
  end do
  print *, a
  print *, b
  print *, c
end program p
