program p
  implicit none
  integer :: i, j, t, k
  t = 0
  do i = 1, 5
    if (i == 2) goto 30
    t = t + i
30  continue
    t = t + 100
  end do
  chk: if (t > 3) then
    t = t + 1
  else if (t < 0) then chk
    t = 7
  else chk
    t = 8
  end if chk
  rows: do i = 1, 4
    do j = 1, 4
      if (j > i) cycle rows
      t = t + j
    end do
  end do rows
  nm: do i = 1, 3
    t = t + 1000
    if (i == 2) exit
    if (i == 1) cycle
    t = t + 5
  end do nm
  do 10 i = 1, 3
    t = t + 7
10 continue
  k = 0
  lp: do while (k < 5)
    k = k + 1
    if (k == 3) cycle lp
    t = t + k
  end do lp
  do while (k > 0)
    k = k - 2
    if (k == 1) exit
  end do
  do
    k = k + 1
    if (k > 4) exit
  end do
  print *, t, k
end program p
