program p
  implicit none
  logical :: a, b
  integer :: i, j, branch, other
  integer, dimension(4) :: m, n
  do i = 0, 1
    do j = 0, 1
      a = i == 1
      b = j == 1
      select case (a)
      case (.true., .false.)
        branch = 1
      case default
        branch = 2
      end select
      select case (a .or. (b .eqv. a))
      case default
        other = 3
      case (.false.)
        other = 4
      end select
      print *, i, j, branch, other
    end do
  end do
  m = (/ 1, 2, 3, 4 /)
  n = 0
  where ((m(:) > 3) .or. ((m(:) < 2) .eqv. (m(:) == 3))) n(:) = 1
  print *, n
end program p
