program cycle_outer
  implicit none
  integer :: i, j, total, skipped
  integer :: tri(6)

  total = 0
  skipped = 0
  tri(:) = 0
  rows: do i = 1, 6
    do j = 6, 1, -1
      if (j > i) cycle
      if (mod(i * j, 4) == 0) then
        skipped = skipped + 1
        cycle rows
      end if
      tri(i) = tri(i) + j
      total = total + i * j
    end do
    ! Only reached if the row was not abandoned by 'cycle rows'
    tri(i) = -tri(i)
    do j = i, 2
      if (j == 2) cycle rows
      total = total + 100
    end do
    total = total + 1000
  end do rows
  print *, total, skipped
  print *, tri
end program cycle_outer
