program p
  implicit none
  integer :: n, i, r(7)
  logical :: fl
  r = 0
  do n = -1, 5
    select case (n)
    case (1)
      i = 1
    case default
      i = 5
    case (2:3, 5)
      i = 2
    case (:0)
      i = 3
    end select
    r(n + 2) = i
  end do
  fl = .false.
  select case (fl)
  case (.true.)
    i = 10
  case default
    i = 20
  end select
  print *, r, i
end program p
