module work_mod
  implicit none
contains
  function count_rows(n, limit) result(nrows)
    integer, intent(in) :: n, limit
    integer :: nrows
    integer :: i, k, acc
    nrows = 0
    scan: do i = n, 1, -1
      acc = 0
      k = 0
      do while (k < i)
        k = k + 1
        acc = acc + k
        if (acc > limit) cycle scan
      end do
      nrows = nrows + 1
    end do scan
  end function count_rows
end module work_mod
program cycle_in_module
  use work_mod
  implicit none
  print *, count_rows(8, 10), count_rows(3, 100), count_rows(5, 0)
end program cycle_in_module
