module work_mod
  implicit none
  real, allocatable, dimension(:) :: field
  real, allocatable, dimension(:,:) :: work
  logical, allocatable :: lm(:)
contains
  subroutine tidy_up(n, total)
    integer, intent(in) :: n
    real, intent(out) :: total
    integer :: ierr
    character(len=80) :: msg
    allocate(field(n), work(n, n), stat=ierr)
    allocate(lm(n), errmsg=msg, stat=ierr)
    field(:) = 1.0
    work(:, :) = 2.0
    lm(:) = .true.
    total = sum(field, dim=1, mask=lm) + sum(work)
    deallocate(field, work, stat=ierr, errmsg=msg)
    deallocate(lm, errmsg=msg, stat=ierr)
  end subroutine tidy_up
end module work_mod
