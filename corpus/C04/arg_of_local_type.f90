subroutine sub(a)
  implicit none
  type :: t
    integer :: i
  end type t
  type(t) :: a
  a%i = 1
end subroutine sub
