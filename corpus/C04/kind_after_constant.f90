!@rename wp
module demo_mod
  implicit none
contains
  subroutine smooth(field)
    integer, parameter :: wp = kind(1.0d0)
    integer, parameter :: i8 = 8
    integer, parameter :: n = 3
    real(wp), dimension(3), parameter :: weights = (/0.25, 0.5, 0.25/)
    integer(i8), parameter :: m = n
    real(wp), intent(inout) :: field(3)
    field(:) = field(:) * weights(:)
    field(1) = field(1) + real(m, wp)
  end subroutine smooth
end module demo_mod
