module m
  implicit none
  integer :: i_val
  integer, parameter :: i_native = kind(i_val)
  character(len=*), parameter :: s = "hello"
  integer, parameter :: n = len(s)
contains
  subroutine sub(a)
    real :: a
    a = real(n + i_native)
  end subroutine sub
end module m
