module work_mod
  implicit none
contains
  subroutine bump(x)
    use data_mod, only: tmp
    integer, intent(inout) :: x
    x = x + tmp
  end subroutine bump
  subroutine driver(a)
    integer, intent(inout) :: a
    integer :: tmp
    tmp = 5
    call bump(a)
    a = a + tmp
    WRITE(*,*) "local tmp =", Tmp, " a =", a
  end subroutine driver
end module work_mod
