module m
  implicit none
  integer, parameter :: wp = kind(1.0d0)
  interface
    subroutine ext(x)
      import :: wp
      real(wp) :: x
    end subroutine ext
  end interface
contains
  subroutine sub(a)
    real(wp) :: a
    call ext(a)
  end subroutine sub
end module m
