#!/venv/bin/python
"""setup_cmd: regenerate Gen/ files from /repo, then build every property module and driver."""
import glob
import importlib
import os
import sys

sys.path.insert(0, os.path.dirname(os.path.abspath(__file__)))
import common  # noqa: E402
import mklake  # noqa: E402


def main():
    mklake.main()
    import json
    manifest = json.load(open(os.path.join(common.ROOT, "MANIFEST.json")))
    props = sorted(c["property_id"] for c in manifest["checks"])
    with common.lake_lock():
        for p in props:
            try:
                mod = importlib.import_module("props." + p.lower())
            except ModuleNotFoundError:
                continue
            if hasattr(mod, "gen"):
                for rel, text in mod.gen().items():
                    common.write_if_changed(os.path.join(common.LEAN, rel), text)
        targets = ["PsyVerif"] + ["PsyVerif.Props." + p for p in props]
        targets += ["drv_" + p.lower() for p in props + ["MiniF"]
                    if os.path.exists(os.path.join(common.LEAN, "Drivers", p + ".lean"))]
        rc, out = common._run(["lake", "build"] + targets, cwd=common.LEAN, timeout=7000)
    print(out[-3000:])
    return rc


if __name__ == "__main__":
    sys.exit(main())
