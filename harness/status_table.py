#!/venv/bin/python
"""Coordinator tool: regenerate the status table of DESIGN.md §12 between its markers."""
import json, glob, os, re
ROOT = os.path.dirname(os.path.dirname(os.path.abspath(__file__)))
os.chdir(ROOT)
kf = json.load(open('known_findings.json'))['findings']
reg = json.load(open('harness/registry.json'))['checks']
rows = ["| Property | theorems in Props | fix: commits in /repo | open known findings | self-test mutations | independently seeded change |",
        "|---|---|---|---|---|---|"]
for pid in sorted(reg):
    ev = json.load(open(f'evidence/{pid}.json')) if os.path.exists(f'evidence/{pid}.json') else {}
    ob = ev.get('coverage', {}).get('obligations', '?')
    fx = [e for e in kf if e['property'] == pid and e['status'] == 'fixed']
    fd = [e for e in kf if e['property'] == pid and e['status'] == 'finding']
    sd = []
    for seed in sorted(glob.glob(f'seeded/{pid}*/meta.json')):
        m = json.load(open(seed))
        s = ('detected with failing input' if m.get('failing_input_found') else
             'detected (no-failing-input-found)' if m.get('detected') else 'missed')
        if 'recheck_after_strengthening' in m:
            s += '; check strengthened → detected with failing input'
        sd.append(s)
    selfs = len(glob.glob(f'seeded/self-{pid}-*'))
    rows.append(f"| {pid} | {ob} | {', '.join(e['commit'] for e in fx) or '—'} | {len(fd)} | {selfs} | {' / '.join(sd) or '—'} |")
table = "\n".join(rows)
s = open('DESIGN.md').read()
s = re.sub(r"<!-- STATUS-TABLE-BEGIN -->.*<!-- STATUS-TABLE-END -->",
           "<!-- STATUS-TABLE-BEGIN -->\n" + table + "\n<!-- STATUS-TABLE-END -->", s, flags=re.S)
open('DESIGN.md', 'w').write(s)
print(table)
