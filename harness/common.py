"""Shared machinery of the /verif checks: Lean build + audit, model driver,
evidence, replay files, known findings, violation protocol (DESIGN.md §4)."""
import fcntl
import hashlib
import json
import os
import random
import re
import subprocess
import sys
import time

ROOT = os.path.dirname(os.path.dirname(os.path.abspath(__file__)))
LEAN = os.path.join(ROOT, "lean")
REPO = os.environ.get("VERIF_REPO", "/repo")
ALLOWED_AXIOMS = {"propext", "Classical.choice", "Quot.sound"}
FORBIDDEN = re.compile(
    r"\bsorry\b|\badmit\b|^\s*axiom\s|native_decide|bv_decide|implemented_by|"
    r"\bunsafe\s|maxHeartbeats\s+0\b", re.M)

os.environ.setdefault("PSYCLONE_CONFIG", os.path.join(REPO, "config", "psyclone.cfg"))
os.environ.setdefault("SVALAT_PSYCLONE_VERIF", "1")
if os.path.join(REPO, "src") not in sys.path:
    sys.path.insert(0, os.path.join(REPO, "src"))


class Infra(Exception):
    """Infrastructure failure: exit 2, never a VIOLATION."""


def strip_lean_comments(text):
    # nested block comments, then line comments
    out, depth, i = [], 0, 0
    while i < len(text):
        if text.startswith("/-", i):
            depth += 1
            i += 2
        elif text.startswith("-/", i) and depth:
            depth -= 1
            i += 2
        elif depth:
            i += 1
        else:
            out.append(text[i])
            i += 1
    return re.sub(r"--.*", "", "".join(out))


def theorem_names(path):
    """Fully qualified names of the theorems declared in a Lean file."""
    names, stack = [], []
    for line in strip_lean_comments(open(path).read()).splitlines():
        m = re.match(r"\s*namespace\s+(\S+)", line)
        if m:
            stack.append(m.group(1))
            continue
        m = re.match(r"\s*end\s+(\S+)", line)
        if m and stack and stack[-1] == m.group(1):
            stack.pop()
            continue
        m = re.match(r"\s*(?:@\[[^\]]*\]\s*)?(?:private\s+|protected\s+)?theorem\s+(\S+)", line)
        if m:
            names.append(".".join(stack + [m.group(1)]))
    return names


class BuildResult:
    def __init__(self):
        self.ok = False
        self.log = ""
        self.theorems = []      # property theorems (Props file)
        self.axioms = {}        # theorem -> list of axioms
        self.bad = []           # (theorem, reason)
        self.failed_decls = []  # names mentioned in lean errors
        self.leanchecker = None


def _run(cmd, cwd=None, timeout=3600, env=None, input=None):
    try:
        p = subprocess.run(cmd, cwd=cwd, timeout=timeout, env=env, input=input,
                           stdout=subprocess.PIPE, stderr=subprocess.STDOUT, text=True)
    except subprocess.TimeoutExpired as e:
        raise Infra(f"timeout running {cmd}: {e}")
    except FileNotFoundError as e:
        raise Infra(f"missing tool: {e}")
    return p.returncode, p.stdout


class lake_lock:
    def __enter__(self):
        self.f = open(os.path.join(LEAN, ".build.lock"), "w")
        fcntl.flock(self.f, fcntl.LOCK_EX)
        return self

    def __exit__(self, *a):
        fcntl.flock(self.f, fcntl.LOCK_UN)
        self.f.close()


def write_if_changed(path, text):
    old = open(path).read() if os.path.exists(path) else None
    if old != text:
        os.makedirs(os.path.dirname(path), exist_ok=True)
        tmp = path + ".tmp%d" % os.getpid()
        with open(tmp, "w") as f:
            f.write(text)
        os.replace(tmp, path)
        return True
    return False


def lean_build(prop, extra_modules=(), thorough=False, gen=None):
    """(Re)generate Gen files under the lock, build Props/<prop> (and the driver),
    audit sources and axioms. `gen` is a callable returning {relpath: text}."""
    res = BuildResult()
    props_file = os.path.join(LEAN, "PsyVerif", "Props", prop + ".lean")
    with lake_lock():
        if gen is not None:
            for rel, text in gen().items():
                write_if_changed(os.path.join(LEAN, rel), text)
        targets = ["PsyVerif.Props." + prop] + list(extra_modules)
        if os.path.exists(os.path.join(LEAN, "Drivers", prop + ".lean")):
            import mklake
            mklake.main()
            targets.append("drv_" + prop.lower())
        rc, log = _run(["lake", "build"] + targets, cwd=LEAN, timeout=3000)
    res.log = log
    res.theorems = theorem_names(props_file)
    if rc != 0:
        res.ok = False
        for m in re.finditer(r"error: (\S+\.lean):(\d+):(\d+)", log):
            res.failed_decls.append(_decl_at(os.path.join(LEAN, m.group(1)), int(m.group(2))))
        if not res.failed_decls and "error" not in log:
            raise Infra("lake build failed without a Lean error:\n" + log[-2000:])
        return res
    # source audit over every project file the property file (transitively) imports
    for path in _project_imports(props_file):
        src = strip_lean_comments(open(path).read())
        m = FORBIDDEN.search(src)
        if m:
            res.bad.append((os.path.relpath(path, LEAN), "forbidden construct: " + m.group(0).strip()))
    # axiom audit
    adir = os.path.join(LEAN, ".audit")
    os.makedirs(adir, exist_ok=True)
    afile = os.path.join(adir, prop + ".lean")
    with open(afile, "w") as f:
        f.write(f"import PsyVerif.Props.{prop}\n")
        for t in res.theorems:
            f.write(f"#print axioms {t}\n")
    rc, out = _run(["lake", "env", "lean", afile], cwd=LEAN, timeout=1200)
    if rc != 0:
        raise Infra("axiom audit failed:\n" + out[-2000:])
    for m in re.finditer(r"'([^']+)' depends on axioms: \[([^\]]*)\]", out, re.S):
        res.axioms[m.group(1)] = [a.strip() for a in m.group(2).replace("\n", " ").split(",") if a.strip()]
    for m in re.finditer(r"'([^']+)' does not depend on any axioms", out):
        res.axioms[m.group(1)] = []
    for t in res.theorems:
        if t not in res.axioms:
            res.bad.append((t, "no #print axioms output"))
        else:
            extra = set(res.axioms[t]) - ALLOWED_AXIOMS
            if extra:
                res.bad.append((t, "axioms " + ",".join(sorted(extra))))
    if thorough:
        rc, out = _run(["lake", "env", "leanchecker", "PsyVerif.Props." + prop], cwd=LEAN, timeout=3000)
        res.leanchecker = (rc == 0)
        if rc != 0:
            res.bad.append(("leanchecker", out[-500:]))
    res.ok = not res.bad
    return res


def _project_imports(path, seen=None):
    seen = seen if seen is not None else {}
    if path in seen or not os.path.exists(path):
        return seen
    seen[path] = True
    for m in re.finditer(r"^import\s+(PsyVerif\.\S+)", open(path).read(), re.M):
        _project_imports(os.path.join(LEAN, m.group(1).replace(".", "/") + ".lean"), seen)
    return seen


def _decl_at(path, line):
    try:
        lines = open(path).read().splitlines()
    except OSError:
        return f"{path}:{line}"
    for i in range(min(line, len(lines)) - 1, -1, -1):
        m = re.match(r"\s*(?:@\[[^\]]*\]\s*)?(?:private\s+)?(theorem|def|example|lemma|instance|abbrev)\s*(\S*)", lines[i])
        if m:
            return f"{os.path.basename(path)}:{m.group(2) or 'example@%d' % (i + 1)}"
    return f"{os.path.basename(path)}:{line}"


def driver(prop, lines, timeout=1800):
    """Run the Lean model driver of a property on protocol lines; returns the output lines."""
    if not lines:
        return []
    exe = os.path.join(LEAN, ".lake", "build", "bin", "drv_" + prop.lower())
    data = "\n".join(lines) + "\n"
    if os.path.exists(exe):
        rc, out = _run([exe], input=data, timeout=timeout)
    else:
        rc, out = _run(["lake", "env", "lean", "--run", f"Drivers/{prop}.lean"], cwd=LEAN, input=data, timeout=timeout)
    if rc != 0:
        raise Infra("driver failed: " + out[-1000:])
    res = out.split("\n")
    if res and res[-1] == "":
        res.pop()
    if len(res) != len(lines):
        raise Infra(f"driver returned {len(res)} lines for {len(lines)} inputs; tail: {res[-3:]}")
    return res


def canon(obj):
    return json.dumps(obj, sort_keys=True, default=str)


def h(obj):
    return hashlib.sha1(canon(obj).encode()).hexdigest()[:12]


class Check:
    """One run of one property's check."""

    def __init__(self, prop, tier, seed):
        self.prop, self.tier, self.seed = prop, tier, seed
        self.rng = random.Random(seed * 1000003 + int(prop[1:]))
        self.t0 = time.time()
        self.cov = {"evaluations": 0, "distinct_nontrivial": 0, "rule": "", "samples": [],
                    "traces_validated_against_impl": 0, "obligations": 0, "discharged": 0,
                    "checker_cmd": "", "trusted_base": []}
        self.assumptions = []
        self._seen = set()
        self.violations = []     # (replay path, suffix)
        self.broken = []         # descriptions of broken proof obligations / correspondences
        self.known_lines = []
        self.build = None

    # ---- counting -------------------------------------------------------
    def case(self, case, nontrivial=True, agreed=True):
        self.cov["evaluations"] += 1
        if agreed:
            self.cov["traces_validated_against_impl"] += 1
        if nontrivial:
            k = h(case)
            if k not in self._seen:
                self._seen.add(k)
                self.cov["distinct_nontrivial"] += 1
        if len(self.cov["samples"]) < 5 and nontrivial and self.rng.random() < 0.3:
            self.cov["samples"].append(case)

    # ---- lean -----------------------------------------------------------
    def lean(self, gen=None, extra_modules=()):
        b = lean_build(self.prop, extra_modules, thorough=(self.tier == "thorough"), gen=gen)
        self.build = b
        self.cov["obligations"] = len(b.theorems)
        bad_names = {t for t, _ in b.bad}
        self.cov["discharged"] = 0 if not b.ok and b.failed_decls else len([t for t in b.theorems if t not in bad_names])
        self.cov["checker_cmd"] = (f"cd lean && lake build PsyVerif.Props.{self.prop} && lake env lean .audit/{self.prop}.lean"
                                   + (f" && lake env leanchecker PsyVerif.Props.{self.prop}" if self.tier == "thorough" else ""))
        self.cov["theorems"] = b.theorems
        self.cov["axioms_used"] = sorted({a for v in b.axioms.values() for a in v})
        if not b.ok:
            why = "; ".join(b.failed_decls[:6]) or "; ".join(f"{t}: {r}" for t, r in b.bad[:6])
            self.broken.append({"kind": "proof", "what": why, "log_tail": b.log[-3000:]})
        return b.ok

    # ---- reporting ------------------------------------------------------
    def replay_file(self, payload):
        os.makedirs(os.path.join(ROOT, "replays"), exist_ok=True)
        rel = os.path.join("replays", f"{self.prop}-{h(payload)}.json")
        payload = dict(payload, property=self.prop, seed=self.seed,
                       replay_cmd=f"./check {self.prop} --replay {rel}")
        with open(os.path.join(ROOT, rel), "w") as f:
            json.dump(payload, f, indent=1, default=str)
        return rel

    def violation(self, payload, found_input=True):
        rel = self.replay_file(payload)
        self.violations.append((rel, "" if found_input else " no-failing-input-found"))

    def correspondence_broken(self, what, case, model_out, impl_out):
        self.broken.append({"kind": "correspondence", "what": what, "case": case,
                            "model": model_out, "impl": impl_out})

    def known(self, what):
        self.known_lines.append(what)

    def finish(self):
        """Write evidence, print lines, return exit status."""
        # broken obligations/correspondences for which no failing input was reported
        if self.broken and not self.violations:
            self.violation({"broken": self.broken[:5],
                            "note": "proof obligation or correspondence no longer checks; "
                                    "search found no input on which the property itself fails"},
                           found_input=False)
        self.cov["trusted_base"] = self.cov["trusted_base"] or [
            "Lean 4.33.0 kernel", "axioms propext/Classical.choice/Quot.sound only (audited)",
            "harness correspondence check and exporters (harness/)"]
        # the evidence schema wants a boolean here; a harness that describes its enumeration in words keeps the words
        if "exhaustive" in self.cov and not isinstance(self.cov["exhaustive"], bool):
            self.cov["exhaustive_scope"] = str(self.cov["exhaustive"])
            self.cov["exhaustive"] = False
        if self.cov["discharged"] > self.cov["obligations"]:
            self.cov["discharged"] = self.cov["obligations"]
        ev = {"property_id": self.prop, "tier": self.tier, "seed": self.seed, "level": "proof",
              "coverage": self.cov, "assumptions": self.assumptions,
              "wall_s": round(time.time() - self.t0, 2), "violations": len(self.violations),
              "known_findings_reproduced": self.known_lines, "broken": [b["what"] for b in self.broken]}
        if not self.cov["samples"]:
            self.cov["samples"] = [{"theorems": self.cov.get("theorems", [])[:5]}]
        # runs against another tree (seeded changes, fixed worktrees) must not overwrite the
        # evidence of the registered checks, which always comes from /repo itself
        evdir = os.path.join(ROOT, "evidence") if REPO == "/repo" else os.path.join(ROOT, "evidence-other-tree")
        os.makedirs(evdir, exist_ok=True)
        with open(os.path.join(evdir, self.prop + ".json"), "w") as f:
            json.dump(ev, f, indent=1, default=str)
        for w in self.known_lines:
            print(f"KNOWN-FINDING: property={self.prop} {w}")
        for rel, suffix in self.violations:
            print(f"VIOLATION property={self.prop} replay={rel}{suffix}")
        ok = not self.violations
        print(f"{self.prop} {self.tier}: obligations={self.cov['obligations']} discharged={self.cov['discharged']} "
              f"cases={self.cov['evaluations']} distinct_nontrivial={self.cov['distinct_nontrivial']} "
              f"wall={ev['wall_s']}s -> {'OK' if ok else 'VIOLATION'}")
        return 0 if ok else 1


def known_findings(prop):
    """status=finding entries of a property: known_findings.json, plus (while a property is
    being developed) the fragment known_findings.d/<prop>.json."""
    out, seen = [], set()
    path = os.path.join(ROOT, "known_findings.json")
    entries = json.load(open(path))["findings"] if os.path.exists(path) else []
    frag = os.path.join(ROOT, "known_findings.d", prop + ".json")
    if os.path.exists(frag):
        entries = entries + json.load(open(frag))
    for e in entries:
        if e["property"] == prop and e.get("status") == "finding" and e["id"] not in seen:
            seen.add(e["id"])
            out.append(e)
    return out


# ---- S-expression helpers for the line protocol ---------------------------
def sx(x):
    if isinstance(x, (list, tuple)):
        return "(" + " ".join(sx(y) for y in x) + ")"
    if isinstance(x, bool):
        return "1" if x else "0"
    return str(x)


def parse_sx(s):
    toks = s.replace("(", " ( ").replace(")", " ) ").split()
    pos = 0

    def rd():
        nonlocal pos
        t = toks[pos]
        pos += 1
        if t == "(":
            out = []
            while toks[pos] != ")":
                out.append(rd())
            pos += 1
            return out
        try:
            return int(t)
        except ValueError:
            return t
    return rd()
