"""Regenerate lean/lakefile.toml with one lean_exe per Drivers/*.lean."""
import glob, os, sys
sys.path.insert(0, os.path.dirname(os.path.abspath(__file__)))
from common import LEAN, write_if_changed

def main():
    drivers = sorted(os.path.basename(p)[:-5] for p in glob.glob(os.path.join(LEAN, "Drivers", "*.lean")))
    t = 'name = "PsyVerif"\nversion = "0.1.0"\ndefaultTargets = ["PsyVerif"]\n\n[[lean_lib]]\nname = "PsyVerif"\n'
    for d in drivers:
        t += f'\n[[lean_exe]]\nname = "drv_{d.lower()}"\nroot = "Drivers.{d}"\n'
    write_if_changed(os.path.join(LEAN, "lakefile.toml"), t)

if __name__ == "__main__":
    main()
