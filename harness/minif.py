"""Shared tools for the semantic properties: PSyIR -> MiniF exporter, Lean MiniF
interpreter access (driver `MiniF`), gfortran oracle, and a seeded program generator.

MiniF (lean/PsyVerif/Model/MiniF.lean): integer-valued stores, scalars and rank<=2 arrays,
assignment / if / do-loop.  LOGICALs are 0/1, REALs must stay integer-valued."""
import os
import shutil
import subprocess
import tempfile

import common
from common import sx


class Unsupported(Exception):
    """PSyIR outside the MiniF subset."""


class Names:
    """name <-> id table kept for replay files"""

    def __init__(self):
        self.ids = {}

    def id(self, name):
        name = name.lower()
        if name not in self.ids:
            self.ids[name] = len(self.ids)
        return self.ids[name]

    def table(self):
        return dict(self.ids)


_BIN = {"ADD": "add", "SUB": "sub", "MUL": "mul", "DIV": "div", "POW": "pow", "EQ": "eq", "NE": "ne",
        "GT": "gt", "LT": "lt", "GE": "ge", "LE": "le", "AND": "and", "OR": "or", "EQV": "eqv", "NEQV": "neqv"}
_UN = {"MINUS": "neg", "PLUS": "plus", "NOT": "not"}
_INTR2 = {"MIN": "min", "MAX": "max", "MOD": "mod", "SIGN": "sign"}
_IDENT = {"INT", "REAL", "DBLE", "NINT", "FLOAT"}


def export_expr(node, names):
    from psyclone.psyir import nodes as N
    if isinstance(node, N.Literal):
        v = node.value
        if v.lower() in (".true.", "true"):
            return ["lit", 1]
        if v.lower() in (".false.", "false"):
            return ["lit", 0]
        try:
            f = float(v.lower().replace("d", "e").split("_")[0])
        except ValueError:
            raise Unsupported("literal " + v)
        if f != int(f):
            raise Unsupported("non-integral literal " + v)
        return ["lit", int(f)]
    if isinstance(node, N.IntrinsicCall):
        name = node.intrinsic.name.upper()
        args = [export_expr(a, names) for a in node.arguments]
        if name in _INTR2 and len(args) >= 2 and (name in ("MIN", "MAX") or len(args) == 2):
            out = args[0]
            for a in args[1:]:
                out = ["bin", _INTR2[name], out, a]
            return out
        if name == "ABS" and len(args) == 1:
            return ["un", "abs", args[0]]
        if name in _IDENT and len(args) == 1:
            return args[0]
        raise Unsupported("intrinsic " + name)
    if isinstance(node, N.BinaryOperation):
        op = node.operator.name
        if op not in _BIN:
            raise Unsupported("operator " + op)
        return ["bin", _BIN[op], export_expr(node.children[0], names), export_expr(node.children[1], names)]
    if isinstance(node, N.UnaryOperation):
        op = node.operator.name
        if op not in _UN:
            raise Unsupported("operator " + op)
        return ["un", _UN[op], export_expr(node.children[0], names)]
    if isinstance(node, N.ArrayReference):
        idx = node.indices
        if any(isinstance(i, N.Range) for i in idx) or not 1 <= len(idx) <= 2:
            raise Unsupported("array access " + node.name)
        return [f"idx{len(idx)}", names.id(node.name)] + [export_expr(i, names) for i in idx]
    if type(node) is N.Reference:
        return ["var", names.id(node.name)]
    raise Unsupported(type(node).__name__)


def export_stmt(node, names):
    """PSyIR statement / Schedule / list of statements -> MiniF S-expression (nested lists)."""
    from psyclone.psyir import nodes as N
    if isinstance(node, (list, tuple)):
        parts = [export_stmt(c, names) for c in node]
        parts = [p for p in parts if p is not None]
        return ["seqs"] + parts
    if isinstance(node, N.Schedule):
        return export_stmt(list(node.children), names)
    if isinstance(node, N.Assignment):
        lhs, rhs = node.lhs, export_expr(node.rhs, names)
        if isinstance(lhs, N.ArrayReference):
            idx = lhs.indices
            if any(isinstance(i, N.Range) for i in idx) or not 1 <= len(idx) <= 2:
                raise Unsupported("array assignment")
            return [f"store{len(idx)}", names.id(lhs.name)] + [export_expr(i, names) for i in idx] + [rhs]
        if type(lhs) is N.Reference:
            return ["assign", names.id(lhs.name), rhs]
        raise Unsupported("lhs " + type(lhs).__name__)
    if isinstance(node, N.IfBlock):
        els = export_stmt(node.else_body, names) if node.else_body is not None else ["skip"]
        return ["ite", export_expr(node.condition, names), export_stmt(node.if_body, names), els]
    if isinstance(node, N.Loop):
        return ["loop", names.id(node.variable.name), export_expr(node.start_expr, names),
                export_expr(node.stop_expr, names), export_expr(node.step_expr, names),
                export_stmt(node.loop_body, names)]
    if isinstance(node, N.Directive):
        # serially transparent wrappers
        body = getattr(node, "dir_body", None)
        return export_stmt(body, names) if body is not None else None
    if isinstance(node, N.CodeBlock):
        txt = str(node.get_ast_nodes[0]).strip().lower() if node.get_ast_nodes else ""
        if txt.startswith("print") or txt.startswith("write"):
            return None
        raise Unsupported("code block: " + txt[:40])
    raise Unsupported(type(node).__name__)


def model_exec(jobs):
    """jobs: list of (stmt_sexp, bindings [((x,i..),v)], queries [(x,i..)]) -> list of value lists"""
    lines = [sx(["exec", st, [[list(l), v] for l, v in init], [list(q) for q in qs]]) for st, init, qs in jobs]
    out = common.driver("MiniF", lines)
    res = []
    for o in out:
        if not o.startswith("("):
            raise common.Infra("MiniF driver: " + o)
        res.append([int(t) for t in o.strip("()").split()])
    return res


# ---------------------------------------------------------------------------
# gfortran oracle
def gfortran_run(src, flags=(), env=None, timeout=60, run=True):
    """Compile (and run) a Fortran program text.  Returns (status, output) with status in
    {'ok', 'compile-error', 'run-error', 'timeout'}."""
    if shutil.which("gfortran") is None:
        raise common.Infra("gfortran not available")
    d = tempfile.mkdtemp(prefix="psyverif-")
    try:
        with open(os.path.join(d, "p.f90"), "w") as f:
            f.write(src)
        cmd = ["gfortran", "-fimplicit-none", "-O0", "-ftrapv"] + list(flags) + ["p.f90", "-o", "p.x"]
        if not run:
            cmd = ["gfortran", "-fimplicit-none", "-fsyntax-only"] + list(flags) + ["p.f90"]
        p = subprocess.run(cmd, cwd=d, stdout=subprocess.PIPE, stderr=subprocess.STDOUT, text=True, timeout=120)
        if p.returncode != 0:
            return "compile-error", p.stdout
        if not run:
            return "ok", ""
        e = dict(os.environ)
        e.update(env or {})
        try:
            q = subprocess.run(["./p.x"], cwd=d, stdout=subprocess.PIPE, stderr=subprocess.STDOUT, text=True,
                               timeout=timeout, env=e)
        except subprocess.TimeoutExpired:
            return "timeout", ""
        return ("ok" if q.returncode == 0 else "run-error"), q.stdout
    finally:
        shutil.rmtree(d, ignore_errors=True)


# ---------------------------------------------------------------------------
# program generator
A_LO, A_HI = -14, 26       # rank-1 arrays:  dimension(-14:26)
M_LO, M_HI = -3, 14        # rank-2 arrays:  dimension(-3:14,-3:14)


class Prog:
    """A generated test program: declarations, init block, body, output block."""

    def __init__(self, scalars, arrays1, arrays2, loopvars, init, body):
        self.scalars, self.arrays1, self.arrays2, self.loopvars = scalars, arrays1, arrays2, loopvars
        self.init, self.body = init, body

    def decls(self):
        out = []
        if self.scalars + self.loopvars:
            out.append("  integer :: " + ", ".join(self.scalars + self.loopvars))
        for a in self.arrays1:
            out.append(f"  integer, dimension({A_LO}:{A_HI}) :: {a}")
        for m in self.arrays2:
            out.append(f"  integer, dimension({M_LO}:{M_HI},{M_LO}:{M_HI}) :: {m}")
        return out

    def source(self, body=None, name="p", extra_decls=()):
        lines = [f"program {name}"] + self.decls() + list(extra_decls) + self.init + (self.body if body is None else body)
        for s in self.scalars:
            lines.append(f"  print *, {s}")
        for a in self.arrays1 + self.arrays2:
            lines.append(f"  print *, {a}")
        lines.append(f"end program {name}")
        return "\n".join(lines) + "\n"

    def queries(self, names):
        q = [(names.id(s),) for s in self.scalars]
        for a in self.arrays1:
            q += [(names.id(a), i) for i in range(A_LO, A_HI + 1)]
        for m in self.arrays2:   # Fortran prints column-major: first index fastest
            q += [(names.id(m), i, j) for j in range(M_LO, M_HI + 1) for i in range(M_LO, M_HI + 1)]
        return q


def gen_init(rng, scalars, arrays1, arrays2):
    init = []
    for s in scalars:
        init.append(f"  {s} = {rng.randint(-3, 9)}")
    for a in arrays1:
        k, c, m = rng.randint(1, 7), rng.randint(0, 9), rng.choice([5, 7, 11, 13])
        init += [f"  do ii = {A_LO}, {A_HI}", f"    {a}(ii) = mod(ii * {k} + {c}, {m}) - {rng.randint(0, 3)}", "  enddo"]
    for mname in arrays2:
        k, c, m = rng.randint(1, 5), rng.randint(1, 5), rng.choice([7, 11, 13])
        init += [f"  do jj = {M_LO}, {M_HI}", f"    do ii = {M_LO}, {M_HI}",
                 f"      {mname}(ii, jj) = mod(ii * {k} + jj * {c}, {m})", "    enddo", "  enddo"]
    return init


class BodyGen:
    """Random statement generator over a fixed variable set.  Subscripts stay inside the
    declared (generous) bounds for loop variables in [-4, 12]."""

    def __init__(self, rng, scalars, arrays1, arrays2, loopvars, allow_div=True):
        self.rng, self.scalars, self.arrays1, self.arrays2, self.loopvars = rng, scalars, arrays1, arrays2, loopvars
        self.allow_div = allow_div

    def subscript2(self, live):
        """rank-2 subscripts: `v + c` only (stays inside M_LO..M_HI)"""
        r = self.rng
        if live and r.random() < 0.85:
            v, c = r.choice(live), r.randint(-2, 3)
            return v if c == 0 else f"{v}{'+' if c > 0 else '-'}{abs(c)}"
        return str(r.randint(0, 6))

    def subscript(self, live):
        r = self.rng
        if live and r.random() < 0.85:
            v = r.choice(live)
            k = r.choice([1, 1, 1, 2, -1])
            c = r.randint(-2, 3)
            t = v if k == 1 else f"{k}*{v}" if k > 0 else f"-{v}"
            if self.allow_div and r.random() < 0.08:
                t = f"{v}/2"
            if self.allow_div and r.random() < 0.05:
                t = f"mod({v}, 3)"
            return t if c == 0 else f"{t}{'+' if c > 0 else '-'}{abs(c)}"
        return str(r.randint(0, 6))

    def ref(self, live, depth=0):
        r = self.rng
        x = r.random()
        if x < 0.3 or not (self.arrays1 or self.arrays2):
            return r.choice(self.scalars + live) if (self.scalars + live) else str(r.randint(0, 5))
        if x < 0.85 and self.arrays1:
            return f"{r.choice(self.arrays1)}({self.subscript(live)})"
        if self.arrays2:
            return f"{r.choice(self.arrays2)}({self.subscript2(live)}, {self.subscript2(live)})"
        return f"{r.choice(self.arrays1)}({self.subscript(live)})"

    def expr(self, live, depth=0):
        r = self.rng
        if depth >= 2 or r.random() < 0.35:
            return self.ref(live) if r.random() < 0.75 else str(r.randint(0, 9))
        op = r.choice(["+", "-", "+", "-", "+", "-", "*", "min", "max"])
        a, b = self.expr(live, depth + 1), self.expr(live, depth + 1)
        if op in ("min", "max"):
            return f"{op}({a}, {b})"
        return f"({a} {op} {b})"

    def cond(self, live):
        r = self.rng
        return f"{self.ref(live)} {r.choice(['>', '<', '>=', '<=', '==', '/='])} {r.randint(0, 6)}"

    def lhs(self, live, allow_scalar=True):
        r = self.rng
        x = r.random()
        if allow_scalar and self.scalars and x < 0.25:
            return r.choice(self.scalars)
        if self.arrays2 and x > 0.8:
            return f"{r.choice(self.arrays2)}({self.subscript2(live)}, {self.subscript2(live)})"
        return f"{r.choice(self.arrays1)}({self.subscript(live)})"

    def assign(self, live, ind="  "):
        return [f"{ind}{self.lhs(live)} = {self.expr(live)}"]

    def loop_header(self, v, live):
        r = self.rng
        kind = r.random()
        if kind < 0.6:
            lo, hi, st = r.randint(0, 3), r.randint(4, 10), 1
        elif kind < 0.75:
            lo, hi, st = r.randint(0, 3), r.randint(4, 10), r.choice([2, 3])
        elif kind < 0.88:
            lo, hi, st = r.randint(6, 10), r.randint(0, 3), r.choice([-1, -2])
        elif kind < 0.94:
            lo, hi, st = r.randint(5, 8), r.randint(0, 4), 1        # zero-trip
        else:
            lo, hi, st = r.randint(2, 5), 0, 1
            hi = lo                                                 # single trip
        return f"do {v} = {lo}, {hi}" + ("" if st == 1 else f", {st}")

    def block(self, live, n, ind="  ", depth=0):
        r = self.rng
        out = []
        for _ in range(n):
            x = r.random()
            free = [v for v in self.loopvars if v not in live]
            if x < 0.25 and free and depth < 2:
                v = free[0]
                out.append(ind + self.loop_header(v, live))
                out += self.block(live + [v], r.randint(1, 3), ind + "  ", depth + 1)
                out.append(ind + "enddo")
            elif x < 0.4 and depth < 3:
                out.append(f"{ind}if ({self.cond(live)}) then")
                out += self.block(live, r.randint(1, 2), ind + "  ", depth + 1)
                if r.random() < 0.4:
                    out.append(ind + "else")
                    out += self.block(live, 1, ind + "  ", depth + 1)
                out.append(ind + "endif")
            else:
                out += self.assign(live, ind)
        return out


def gen_program(rng, nstmts=4):
    scalars = ["s0", "s1", "t"][: rng.randint(1, 3)]
    arrays1 = ["a", "b", "c"][: rng.randint(2, 3)]
    arrays2 = ["m"] if rng.random() < 0.4 else []
    loopvars = ["i", "j", "k"]
    init = gen_init(rng, scalars, arrays1, arrays2)
    bg = BodyGen(rng, scalars, arrays1, arrays2, loopvars)
    body = bg.block([], nstmts)
    p = Prog(scalars, arrays1, arrays2, loopvars + ["ii", "jj"], init, body)
    return p


def parse_program(src):
    """Fortran text -> (FileContainer, Routine) using the real reader."""
    from psyclone.psyir.frontend.fortran import FortranReader
    from psyclone.psyir.nodes import Routine
    psyir = FortranReader().psyir_from_source(src)
    return psyir, psyir.walk(Routine)[0]


def write_program(psyir):
    from psyclone.psyir.backend.fortran import FortranWriter
    return FortranWriter()(psyir)


def parse_output(out):
    return [int(t) for t in out.split()]


def overflowed(vals, bound=2 ** 31 - 1):
    """True if a model result leaves the 32-bit INTEGER range (gfortran would wrap or trap:
    such a case is outside the exactly-representable domain and must be skipped)."""
    return any(abs(v) > bound for v in vals)
