#!/venv/bin/python
"""Coordinator tool: collect an independently seeded change from /tmp/seed-<id> into seeded/<id>/,
run the check against it (VERIF_REPO) and record the outcome in meta.json; then remove the worktree."""
import json, os, shutil, subprocess, sys
pid, needs = sys.argv[1], sys.argv[2]
suffix = sys.argv[3] if len(sys.argv) > 3 else ""
src = f"/tmp/seed-{pid}{suffix}"
dst = f"/verif/seeded/{pid}{suffix}"
os.makedirs(dst, exist_ok=True)
shutil.copy(f"{src}/patch.diff", dst)
for f in os.listdir(src):
    if f.startswith("demo_"):
        shutil.copy(os.path.join(src, f), dst)
env = dict(os.environ, PYTHONPATH=f"{src}/src", PSYCLONE_CONFIG=f"{src}/config/psyclone.cfg")
demo = sorted((f for f in os.listdir(dst) if f.startswith("demo_")), key=lambda f: (not f.endswith(".py"), f))
demo_rc = subprocess.run(["/venv/bin/python", os.path.join(src, demo[0])], env=env, cwd=src, stdout=subprocess.PIPE, stderr=subprocess.STDOUT, text=True).returncode if demo else None
r = subprocess.run(["./check", pid], cwd="/verif", env=dict(os.environ, VERIF_REPO=src), stdout=subprocess.PIPE, stderr=subprocess.STDOUT, text=True)
lines = [l for l in r.stdout.splitlines() if l.startswith("VIOLATION") or l.startswith(pid + " ")]
meta = {"property": pid, "source": "fresh sub-agent given only the property text and a scratch worktree",
        "needs": needs, "demo": demo, "demo_exit_with_change": demo_rc,
        "ran": f"VERIF_REPO={src} ./check {pid}  (worktree of /repo HEAD with patch.diff applied)",
        "check_exit": r.returncode, "check_output": lines[:6],
        "detected": r.returncode == 1 and any("VIOLATION" in l for l in lines),
        "failing_input_found": any(l.startswith("VIOLATION") and "no-failing-input-found" not in l for l in lines)}
json.dump(meta, open(os.path.join(dst, "meta.json"), "w"), indent=1)
print(json.dumps(meta, indent=1))
subprocess.run(["git", "-C", "/repo", "worktree", "remove", "--force", src])
