#!/venv/bin/python
"""Coordinator tool: for every seeded/<id>/ confirm in a scratch worktree of /repo HEAD that the
demonstration passes WITHOUT the change and fails WITH it; record the result in meta.json."""
import glob, json, os, subprocess, sys
only = sys.argv[1:]
for d in sorted(glob.glob("/verif/seeded/C*")):
    pid = os.path.basename(d)
    if only and pid not in only:
        continue
    meta_p = os.path.join(d, "meta.json")
    meta = json.load(open(meta_p))
    demos = sorted(f for f in os.listdir(d) if f.startswith("demo_") and f.endswith(".py"))
    if not demos:
        continue
    wt = f"/tmp/vseed-{pid}"
    subprocess.run(["git", "-C", "/repo", "worktree", "remove", "--force", wt], capture_output=True)
    subprocess.run(["git", "-C", "/repo", "worktree", "add", "--detach", wt, "HEAD", "-q"], check=True)
    env = dict(os.environ, PYTHONPATH=f"{wt}/src", PSYCLONE_CONFIG=f"{wt}/config/psyclone.cfg")
    demo = os.path.join(d, demos[0])
    txt = open(demo).read().replace(f"/tmp/seed-{pid}", wt)
    local = os.path.join(wt, demos[0])
    open(local, "w").write(txt)
    def run():
        try:
            return subprocess.run(["/venv/bin/python", local], env=env, cwd=wt, capture_output=True, text=True, timeout=1800).returncode
        except subprocess.TimeoutExpired:
            return "timeout"
    clean = run()
    ap = subprocess.run(["git", "-C", wt, "apply", os.path.join(d, "patch.diff")], capture_output=True, text=True)
    changed = run() if ap.returncode == 0 else f"patch does not apply: {ap.stderr[:200]}"
    meta["confirmed_by_coordinator"] = {"repo_head": subprocess.run(["git", "-C", "/repo", "rev-parse", "--short", "HEAD"], capture_output=True, text=True).stdout.strip(),
                                        "demo_exit_without_change": clean, "demo_exit_with_change": changed}
    json.dump(meta, open(meta_p, "w"), indent=1)
    print(pid, "clean:", clean, "changed:", changed, flush=True)
    subprocess.run(["git", "-C", "/repo", "worktree", "remove", "--force", wt], capture_output=True)
