"""Validate MiniF semantics + exporter against gfortran on generated programs."""
import random, sys, os
sys.path.insert(0, os.path.dirname(os.path.abspath(__file__)))
import common, minif

def main(n=40, seed=0):
    rng = random.Random(seed)
    bad = 0
    jobs, progs = [], []
    for k in range(n):
        p = minif.gen_program(rng, nstmts=rng.randint(2, 6))
        src = p.source()
        psyir, routine = minif.parse_program(src)
        names = minif.Names()
        try:
            st = minif.export_stmt(routine, names)
        except minif.Unsupported as e:
            print("unsupported", e); continue
        jobs.append((st, [], p.queries(names)))
        progs.append((p, src))
    outs = minif.model_exec(jobs)
    for (p, src), mo in zip(progs, outs):
        status, out = minif.gfortran_run(src, flags=["-fcheck=bounds"])
        if minif.overflowed(mo) or (status == "run-error" and "overflow" in out.lower()) or status == "run-error":
            print("skip (overflow/trap)"); continue
        if status != "ok":
            print(status, out[-500:], src); bad += 1; continue
        go = minif.parse_output(out)
        if go != mo:
            bad += 1
            print("MISMATCH\n", src)
            diff = [(i, a, b) for i, (a, b) in enumerate(zip(go, mo)) if a != b][:5]
            print(diff, len(go), len(mo))
    print("programs", len(progs), "bad", bad)

main(int(sys.argv[1]) if len(sys.argv) > 1 else 40, int(sys.argv[2]) if len(sys.argv) > 2 else 0)
