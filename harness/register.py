#!/venv/bin/python
"""Coordinator tool: (re)build MANIFEST.json from harness/registry.json and merge
known_findings.d/*.json into known_findings.json (never run by checks)."""
import glob, json, os, sys
ROOT = os.path.dirname(os.path.dirname(os.path.abspath(__file__)))
reg = json.load(open(os.path.join(ROOT, "harness", "registry.json")))
props = [json.loads(l)["id"] for l in open(os.path.join(ROOT, "properties.jsonl"))]
m = {"version": 1,
     "setup_cmd": "/venv/bin/python harness/setup.py",
     "hooks": reg["hooks"],
     "engines": [{"name": "lean4-proof+correspondence", "path": "harness/run.py",
                  "serves_properties": sorted(reg["checks"]),
                  "kind_free_text": "Lean 4 theorems about executable models (lean/PsyVerif), tied to /repo by translators (PsyVerif/Gen regenerated on every run) and differential correspondence checks driven through compiled model drivers; failing-input search on the real code when a proof obligation or the correspondence breaks"}],
     "checks": [], "notes": reg.get("notes", ""), "not_applicable": []}
for pid in props:
    if pid in reg["checks"]:
        c = reg["checks"][pid]
        m["checks"].append({"property_id": pid, "quick_cmd": f"./check {pid} --tier quick",
                            "thorough_cmd": f"./check {pid} --tier thorough", "evidence_file": f"evidence/{pid}.json",
                            "replay_cmd_template": f"./check {pid} --replay {{path}}", "engine": "lean4-proof+correspondence",
                            "level_claimed": {"category": "proof", "text": c["text"], "design_ref": f"DESIGN.md §8 {pid}"},
                            "level_note": c["note"], "technique": c["technique"]})
    else:
        m["not_applicable"].append({"property_id": pid, "reason": reg.get("not_applicable", {}).get(
            pid, "model and proofs not yet completed (in progress; DESIGN.md §8) — not decided by another technique")})
json.dump(m, open(os.path.join(ROOT, "MANIFEST.json"), "w"), indent=1)
# findings: status=fixed entries are kept (written by the coordinator); status=finding entries are
# rebuilt from the per-property fragments so that a finding removed from its fragment disappears.
kf_path = os.path.join(ROOT, "known_findings.json")
kf = json.load(open(kf_path))
fixed = [e for e in kf["findings"] if e.get("status") == "fixed"]
fixed_ids = {e["id"] for e in fixed}
found = []
for f in sorted(glob.glob(os.path.join(ROOT, "known_findings.d", "*.json"))):
    if os.path.basename(f)[:-5] not in reg["checks"]:
        continue
    for e in json.load(open(f)):
        if e.get("status") == "finding" and e["id"] not in fixed_ids:
            found.append(e)
kf["findings"] = sorted(fixed + found, key=lambda e: (e["property"], e["status"], e["id"]))
json.dump(kf, open(kf_path, "w"), indent=1)
import jsonschema
jsonschema.validate(m, json.load(open("/root/.vp/MANIFEST.schema.json")))
print("MANIFEST ok:", len(m["checks"]), "checks;", len(kf["findings"]), "findings")
