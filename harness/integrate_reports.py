#!/venv/bin/python
"""Coordinator tool: take harness/reports/Cxx.json (written by the property's builder: text, note, technique,
status, fixes, summary) into harness/registry.json and into the §8 entry of DESIGN.md (the `* **Status.**`
bullet of the property is replaced by the builder's as-built status paragraph).  Never run by checks."""
import glob, json, os, re, sys
ROOT = os.path.dirname(os.path.dirname(os.path.abspath(__file__)))
reg_p = os.path.join(ROOT, "harness", "registry.json")
reg = json.load(open(reg_p))
design_p = os.path.join(ROOT, "DESIGN.md")
lines = open(design_p).read().split("\n")
only = sys.argv[1:]
done = []
for f in sorted(glob.glob(os.path.join(ROOT, "harness", "reports", "C*.json"))):
    pid = os.path.basename(f)[:-5]
    if only and pid not in only:
        continue
    d = json.load(open(f))
    if pid not in reg["checks"]:
        continue
    for k in ("text", "note", "technique"):
        if isinstance(d.get(k), str) and d[k].strip():
            reg["checks"][pid][k] = d[k].strip()
    st = (d.get("status") or "").strip()
    if st:
        st = re.sub(r"^\*?\s*\*\*Status\.?\*\*\.?\s*", "", st)
        # locate the section of this property
        start = next((i for i, l in enumerate(lines) if l.startswith(f"### {pid} ")), None)
        if start is not None:
            end = next((i for i in range(start + 1, len(lines)) if lines[i].startswith("### ") or lines[i].startswith("## ")), len(lines))
            s = next((i for i in range(start, end) if lines[i].startswith("* **Status")), None)
            new = ["* **Status (as built, current).**  " + st]
            if s is None:
                lines[end:end] = new + [""]
            else:
                e = next((i for i in range(s + 1, end) if lines[i].startswith("* **") or lines[i].strip() == ""), end)
                lines[s:e] = new
    done.append(pid)
json.dump(reg, open(reg_p, "w"), indent=1, ensure_ascii=False)
open(design_p, "w").write("\n".join(lines))
print("integrated:", " ".join(done))
