"""C08 — generator of test programs (one analysed loop `do i = ...` after an init block), PSyIR → MiniF export
of the analysed loop, and the classifiers of the known findings (evaluated on the exported MiniF tree)."""
import re

import minif

SCALARS = ["n", "k", "t", "s0", "d_i", "d1_i", "d2_i", "d_i_1"]
ARR1 = ["a", "b", "c", "idx"]
ARR2 = ["m"]

# structure members (signatures `name%member`): scalar members, a member array, an array of structures; `d%i` is the
# member whose SymPy name is `d_i`, the first candidate of the fresh-name loop of `_get_dependency_distance`
MEMBER_SCALARS = ["cfg%off", "cfg%n2", "g%off", "g%n2", "d%i"]
MEMBER_ARR1 = ["cfg%a", "g%a", "pp%x", "pp%y", "qq%x"]      # written `cfg%a(s)` / `pp(s)%x`
# (the frontend resolves a derived type only with one component per statement and bounds without a unary minus)
TYPES = [f"  integer, parameter :: alo = {minif.A_LO}",
         "  type :: cfg_t",
         "    integer :: off",
         "    integer :: n2",
         "    integer :: i",
         f"    integer, dimension(alo:{minif.A_HI}) :: a",
         "  end type cfg_t",
         "  type :: pt_t",
         "    integer :: x",
         "    integer :: y",
         "  end type pt_t"]

HEADER0 = ["program p",
           "  integer :: " + ", ".join(SCALARS + ["i", "j", "l", "ii", "jj"]),
           f"  integer, dimension({minif.A_LO}:{minif.A_HI}) :: " + ", ".join(ARR1),
           f"  integer, dimension({minif.M_LO}:{minif.M_HI},{minif.M_LO}:{minif.M_HI}) :: m"]
HEADER = HEADER0        # programs without structures (corpus files carry their own text)
HEADER_S = ([HEADER0[0]] + TYPES + HEADER0[1:] +
            ["  type(cfg_t) :: cfg, g, d", f"  type(pt_t), dimension(alo:{minif.A_HI}) :: pp, qq"])


def fmt(arr, sub):
    """text of element `sub` of the array signature `arr`: a(s), cfg%a(s), pp(s)%x"""
    if "%" not in arr:
        return f"{arr}({sub})"
    base, mem = arr.split("%")
    return f"{base}%{mem}({sub})" if base in ("cfg", "g") else f"{base}({sub})%{mem}"


def gen_init_s(rng, dvals=(0, 1, 2)):
    """init block of a program with structures: `gen_init` + values for all members"""
    out = gen_init(rng, dvals)
    out += [f"  cfg%off = {rng.randint(0, 3)}", f"  cfg%n2 = {rng.randint(0, 3)}", f"  g%off = {rng.randint(0, 3)}",
            f"  g%n2 = {rng.randint(0, 3)}", f"  d%i = {rng.choice(list(dvals))}"]
    for arr in MEMBER_ARR1:
        kk, cc, mm = rng.randint(1, 7), rng.randint(0, 9), rng.choice([2, 3, 5])
        out += [f"  do ii = {minif.A_LO}, {minif.A_HI}", f"    {fmt(arr, 'ii')} = mod(ii * {kk} + {cc}, {mm})", "  enddo"]
    return out


def gen_init(rng, dvals=(0, 1, 2)):
    """`dvals`: runtime values of the variables named d_i, d1_i, ... (the `dside` flavour uses 1, -1, 2 so that a
    one-sided use of such a variable in a subscript is a REAL loop-carried dependence)"""
    dv = list(dvals)
    out = [f"  n = {rng.randint(0, 4)}", f"  k = {rng.randint(0, 3)}", f"  t = {rng.randint(0, 5)}",
           f"  s0 = {rng.randint(0, 5)}", f"  d_i = {rng.choice(dv)}", f"  d1_i = {rng.choice(dv)}",
           f"  d2_i = {rng.choice(dv)}", f"  d_i_1 = {rng.choice(dv)}"]
    for arr in ARR1:
        kk, cc, mm = rng.randint(1, 7), rng.randint(0, 9), rng.choice([3, 5, 7, 11])
        if arr == "idx":
            mm = rng.choice([2, 3, 5])      # small range: repeated values, so index-array conflicts show up
        out += [f"  do ii = {minif.A_LO}, {minif.A_HI}", f"    {arr}(ii) = mod(ii * {kk} + {cc}, {mm})", "  enddo"]
    kk, cc = rng.randint(1, 5), rng.randint(1, 5)
    out += [f"  do jj = {minif.M_LO}, {minif.M_HI}", f"    do ii = {minif.M_LO}, {minif.M_HI}",
            f"      m(ii, jj) = mod(ii * {kk} + jj * {cc}, 7)", "    enddo", "  enddo"]
    return out


# ---- subscripts -------------------------------------------------------------
AFFINE = ["i", "i", "i", "i+1", "i-1", "2*i", "2*i+1", "i+n", "i+k", "-i+3", "3-i", "i+n+1", "2*(i+1)", "2*i+2",
          "i+2", "3*i", "i+k+n"]
CONST = ["3", "4", "n", "n+1", "k", "n+k", "2*n"]
DIV = ["i/2", "i/2+1", "(i+1)/2", "2*i/2", "n/2", "(n+1)/2", "(n+2)/2", "i+n/2", "i/3", "(2*i+1)/2", "i/2*2"]
MOD = ["mod(i, 3)", "mod(i, 2)+1", "i+mod(n, 3)", "mod(n, 3)", "mod(n, 3)+1", "i+mod(i, 2)"]
IDX = ["idx(i)", "idx(i)+1", "i+idx(3)", "idx(3)", "idx(n)", "i+idx(i)", "i+idx(n)", "idx(i+1)"]
DNAMES = ["i+d_i", "i+d1_i", "i+d_i+d1_i", "i+d2_i", "d_i", "i+d_i_1", "i+d_i+d1_i+d2_i", "2*i+d_i"]
INNER = ["j", "j+1", "i+j", "2*j", "j+n", "i+j+1", "i-j"]
STALE = ["i+t", "t", "i+s0", "t+1"]
SYMCOEF = ["n*i", "i*n", "n*i+1", "n*i+k", "2*n*i", "n*(i+1)", "(n+1)*i", "k*i+n", "n*i+i", "i*i", "i**2", "n*k*i",
           "i*k", "n*k+i", "n*k"]
MEMBER = ["i+cfg%off", "i+cfg%off", "cfg%off", "i+cfg%n2", "i+g%off", "i+cfg%off+cfg%n2", "i+d%i", "i+d%i+d_i", "2*i+cfg%off",
          "pp(i)%x", "i+pp(i)%x", "i+pp(3)%x", "cfg%a(i)", "i+cfg%a(3)", "i+cfg%a(i)", "i+pp(i)%y", "i+cfg%off*2", "i-cfg%n2",
          "i+qq(n)%x"]
SUB2 = [("i", "j"), ("j", "i"), ("i", "3"), ("3", "i"), ("i", "i"), ("i", "i+1"), ("i+1", "i"), ("i+j", "j"),
        ("i+j", "i"), ("i+j", "2"), ("i+j", "idx(j)"), ("i", "k"), ("k", "i+j"), ("i+1", "4"), ("n", "i"),
        ("i", "j+1"), ("j+1", "i"), ("i+1", "j"), ("i+j", "mod(j, 2)"), ("i", "n"), ("2*i", "j"), ("i+j", "j-j+1"),
        ("idx(i)", "i"), ("i/2", "j"), ("i", "i/2")]


class LoopGen:
    """One analysed loop.  `flavour` biases the subscript pools."""

    def __init__(self, rng, flavour=None):
        self.rng = rng
        self.flavour = flavour or rng.choice(["affine", "affine", "div", "mod", "idx", "dnames", "nest", "scalar",
                                              "scalar", "stale", "mixed", "mixed", "dside", "dside", "symcoef",
                                              "member", "member", "member"])
        self.nest = self.flavour == "nest" or (self.flavour in ("mixed", "scalar", "member") and rng.random() < 0.3)
        self.structs = self.flavour == "member"

    def pool(self, inner):
        f = self.flavour
        p = list(AFFINE) + CONST[:3]
        if f == "div":
            p += DIV * 2
        elif f == "mod":
            p += MOD * 2
        elif f == "idx":
            p += IDX * 2
        elif f == "dnames":
            p = DNAMES * 2 + AFFINE[:4]
        elif f == "stale":
            p += STALE * 3
        elif f == "symcoef":
            p += SYMCOEF * 2
        elif f == "member":
            p += MEMBER * 2
        elif f == "mixed":
            p += DIV + MOD + IDX + DNAMES[:3] + CONST + SYMCOEF[:6]
        if inner:
            p += INNER * (3 if f == "nest" else 1)
        return p

    def sub(self, inner):
        return self.rng.choice(self.pool(inner))

    def ref(self, arr, inner, same=None):
        r = self.rng
        if arr in ARR2:
            if same is not None and r.random() < 0.5:
                return f"m({same[0]}, {same[1]})"
            s = r.choice(SUB2 if inner else [s for s in SUB2 if "j" not in s[0] + s[1]])
            return f"m({s[0]}, {s[1]})"
        if same is not None and r.random() < 0.55:
            return fmt(arr, same)
        return fmt(arr, self.sub(inner))

    def array_stmt(self, inner, ind):
        r = self.rng
        arr = r.choice(["a", "a", "a", "b", "m", "idx"] if self.flavour != "idx" else ["a", "a", "b", "m"])
        if self.structs and r.random() < 0.5:
            arr = r.choice(MEMBER_ARR1)
        if arr == "m":
            s = r.choice(SUB2 if inner else [s for s in SUB2 if "j" not in s[0] + s[1]])
            lhs, same = f"m({s[0]}, {s[1]})", s
        else:
            same = self.sub(inner)
            while arr.split("%")[0] in same:     # `idx(idx(i)) = ...` is refused by PSyclone (NotImplementedError)
                same = self.sub(inner)
            lhs = fmt(arr, same)
        terms = []
        for _ in range(r.randint(0, 2)):
            x = r.random()
            if x < 0.5:
                terms.append(self.ref(arr, inner, same))
            elif x < 0.8:
                other = r.choice([q for q in ["a", "b", "c"] + (MEMBER_ARR1 if self.structs else []) if q != arr])
                terms.append(self.ref(other, inner))
            else:
                terms.append(r.choice(["n", "k", "t", "s0", "1", "2"] + (MEMBER_SCALARS if self.structs else [])))
        if not terms:
            terms = [r.choice(["1", "c(i)", "n"])]
        return [f"{ind}{lhs} = " + " + ".join(terms)]

    def scalar_block(self, inner, ind):
        r = self.rng
        s = r.choice(["t", "t", "s0"] if not self.structs else ["t", "cfg%off", "cfg%off", "cfg%n2", "g%off", "d%i"])
        cond = f"b(i) > {r.randint(0, 6)}"
        kind = r.choice(["priv", "priv", "condwrite", "condwrite", "both", "reduction", "readfirst", "once", "readonly",
                         "condall", "condonce", "privuse"])
        if kind == "priv":
            return [f"{ind}{s} = b(i) + 1", f"{ind}c(i) = {s} * 2"]
        if kind == "privuse":
            return [f"{ind}{s} = c(i)", f"{ind}a(i) = {s}", f"{ind}{s} = {s} + 1", f"{ind}b(i) = {s}"]
        if kind == "condwrite":
            return [f"{ind}if ({cond}) then", f"{ind}  {s} = b(i)", f"{ind}endif", f"{ind}c(i) = {s}"]
        if kind == "both":
            return [f"{ind}if ({cond}) then", f"{ind}  {s} = b(i)", f"{ind}else", f"{ind}  {s} = 0", f"{ind}endif",
                    f"{ind}c(i) = {s}"]
        if kind == "reduction":
            return [f"{ind}{s} = {s} + b(i)"]
        if kind == "readfirst":
            return [f"{ind}c(i) = {s}", f"{ind}{s} = b(i)"]
        if kind == "once":
            return [f"{ind}{s} = b(i)"]
        if kind == "readonly":
            return [f"{ind}c(i) = {s} + n"]
        if kind == "condall":
            return [f"{ind}if ({cond}) then", f"{ind}  {s} = b(i)", f"{ind}  c(i) = {s}", f"{ind}endif"]
        return [f"{ind}if ({cond}) then", f"{ind}  {s} = 1", f"{ind}endif", f"{ind}if ({cond}) then",
                f"{ind}  c(i) = {s}", f"{ind}endif"]

    def dside_sub(self, with_d, base):
        """`base + e` where e uses the names d_i, d1_i, d2_i with coefficients +-1, +-2 (or not at all)"""
        r = self.rng
        if not with_d:
            return base
        out = base
        x = r.random()
        names = ["d_i"] if x < 0.55 else ["d1_i"] if x < 0.7 else r.sample(["d_i", "d1_i", "d2_i"], 2)
        for nm in names:
            c = r.choice([1, -1, -1, 2, -2])
            out += ("+" if c > 0 else "-") + (nm if abs(c) == 1 else f"{abs(c)}*{nm}")
        return out

    def dside_stmt(self, ind):
        """array update whose write / read subscripts use a d_<loopvar> name on ONE side only, or on both; mostly
        the same `c*i + const` part on both sides, so that the only difference is the d-name term"""
        r = self.rng
        arr = r.choice(["a", "a", "b"])
        side = r.choice(["write", "write", "write", "read", "read", "both", "bothsame"])
        bases = ["i", "i", "i", "2*i", "i+1", "-i"]
        bw = r.choice(bases)
        br = bw if r.random() < 0.75 else r.choice(bases)
        if side == "bothsame":
            w = self.dside_sub(True, bw)
            rd = w
        else:
            w = self.dside_sub(side in ("write", "both"), bw)
            rd = self.dside_sub(side in ("read", "both"), br)
        rhs = f"{arr}({rd}) + 1"
        if r.random() < 0.3:
            rhs += f" + {r.choice(['c(i)', 'n', 'd_i'])}"
        return [f"{ind}{arr}({w}) = {rhs}"]

    def stmts(self, inner, ind, n):
        r = self.rng
        out = []
        for _ in range(n):
            x = r.random()
            if self.flavour == "dside" and x < 0.75:
                out += self.dside_stmt(ind)
                continue
            if self.flavour == "stale" and r.random() < 0.5:
                s = r.choice(["t", "s0"])
                out += [f"{ind}{s} = b(i)", f"{ind}a(i+{s}) = 1" if r.random() < 0.6 else f"{ind}a(i+{s}) = a(i+{s}) + c(i)"]
            elif self.structs and x < 0.35:
                # a member (scalar, element of a member array, member of an array element) recomputed in the loop,
                # or one of its siblings / namesakes, and a member used in the subscript of some array signature
                wr = r.choice(MEMBER_SCALARS + ["pp(i)%x", "cfg%a(i)", "t"])
                us = wr if r.random() < 0.6 else r.choice(MEMBER_SCALARS + ["pp(i)%x", "pp(i)%y", "cfg%a(i)", "g%a(i)"])
                arr = r.choice(["a", "a", "b"] + MEMBER_ARR1)
                while arr.split("%")[0] in us + wr:
                    arr = r.choice(["a", "b"])
                el = fmt(arr, f"i+{us}")
                out += [f"{ind}{wr} = b(i)", f"{ind}{el} = 1" if r.random() < 0.6 else f"{ind}{el} = {el} + c(i)"]
            elif (self.flavour == "scalar" and x < 0.7) or x < 0.12:
                out += self.scalar_block(inner, ind)
            elif x < 0.22:
                out += [f"{ind}if (c(i) > {r.randint(0, 5)}) then"] + self.array_stmt(inner, ind + "  ") + [f"{ind}endif"]
            else:
                out += self.array_stmt(inner, ind)
        return out

    def loop(self):
        r = self.rng
        kind = r.random()
        if kind < 0.6:
            hdr = f"do i = {r.randint(0, 2)}, {r.randint(3, 6)}"
        elif kind < 0.75:
            hdr = f"do i = {r.randint(0, 2)}, {r.randint(5, 9)}, 2"
        elif kind < 0.85:
            hdr = f"do i = {r.randint(4, 7)}, {r.randint(0, 2)}, -1"
        elif kind < 0.95:
            hdr = "do i = 1, n + 3"
        else:
            hdr = f"do i = {r.randint(2, 4)}, {r.randint(2, 4)}"
        out = ["  " + hdr]
        if self.nest:
            pre = self.stmts(False, "    ", r.randint(0, 1))
            inner_hdr = r.choice(["do j = 1, 3", "do j = 0, n", "do j = 1, 4, 2", "do j = 2, 1"])
            body = self.stmts(True, "      ", r.randint(1, 2))
            inner = [f"    {inner_hdr}"] + body + ["    enddo"]
            if r.random() < 0.1:
                inner = ["    if (c(i) > 2) then"] + ["  " + x for x in inner] + ["    endif"]
            out += pre + inner + self.stmts(False, "    ", r.randint(0, 1))
        else:
            out += self.stmts(False, "    ", r.randint(1, 3))
        out.append("  enddo")
        return out


# ---- systematic family: outer loop analysed, rank-2 array, inner-variable-only subscripts ----------------------
NEST2_INNER = [("j", "j"), ("j+1", "j"), ("j-1", "j"), ("j", "j+1"), ("j", "3"), ("3", "j"), ("3", "4"), ("3", "3"),
               ("j", "l"), ("j+1", "l"), ("j", "n")]
NEST2_DI = [0, 1, -1, 2, -2]


def _off(v, d):
    return v if d == 0 else f"{v}{'+' if d > 0 else '-'}{abs(d)}"


def nest2_loop(order, di, inner, kind):
    """`do i; do j [; do l]`: write m(.., i) and read / second write m(.., i+di); `order` 0 = inner subscript
    first, 1 = analysed variable first; `inner` = (inner subscript of the write, of the other access)"""
    iw, io = inner
    if order == 0:
        w, o = f"m({iw}, i)", f"m({io}, {_off('i', di)})"
    else:
        w, o = f"m(i, {iw})", f"m({_off('i', di)}, {io})"
    body = [f"{w} = {o} + 1"] if kind == "read" else [f"{w} = 1", f"{o} = 2"]
    lines = ["do i = 2, 5", "  do j = 1, 3"]
    if "l" in iw + io:
        lines += ["    do l = 1, 3"] + ["      " + b for b in body] + ["    enddo"]
    else:
        lines += ["    " + b for b in body]
    return lines + ["  enddo", "enddo"]


def nest2_family():
    """the whole family (220 loops): both index orders x distance in the analysed variable 0, +-1, +-2 x inner
    subscripts with offsets / constants / a different inner variable x read or second write"""
    out = []
    for order in (0, 1):
        for di in NEST2_DI:
            for inner in NEST2_INNER:
                for kind in ("read", "write2"):
                    out.append((f"nest2-{order}-{di}-{inner[0]}-{inner[1]}-{kind}", nest2_loop(order, di, inner, kind)))
    return out


# ---- systematic family: a loop-variable-FREE subscript (with `/`, MOD, other variables) next to a carried distance
FREE_PAIRS = [("n", "n"), ("n", "n-1"), ("n+1", "n"), ("n", "k"), ("3", "4"), ("n", "3"),
              ("n/2", "n/2"), ("n/2", "(n+1)/2"), ("(n+1)/2", "n/2"), ("n/2", "n/2+1"), ("n/2+1", "n/2"),
              ("(n+2)/2", "n/2"), ("n/3", "(n+1)/3"), ("(n+2)/4", "n/4"), ("n/2", "k/2"), ("(n+3)/2", "n/2"),
              ("mod(n, 3)", "mod(n, 3)"), ("mod(n, 3)", "mod(n, 3)+1"), ("mod(n, 2)", "mod(k, 2)"),
              ("mod(n, 2)+1", "mod(n, 2)"), ("n/2", "mod(n, 2)"),
              # an integer power with a negative exponent is 0 in Fortran but the rational 1/2 for SymPy: the only
              # way to a non-integer constant difference once subscripts with `/` are refused
              ("n+2**(-1)", "n"), ("n", "n+2**(-1)"), ("n+2**(-1)", "n+2**(-1)"), ("n+1+2**(-1)", "n+2**(-1)")]
FREE_DI = [0, 1, -1]


def free2_loop(order, di, pair, kind, nval):
    """`do i`: write m(free_w, i), read / second write m(free_o, i+di) (or with the two subscripts swapped); the
    store has n = nval (even and odd values make `n/2` and `(n+1)/2` coincide or differ)"""
    fw, fo = pair
    if order == 0:
        w, o = f"m({fw}, i)", f"m({fo}, {_off('i', di)})"
    elif order == 1:
        w, o = f"m(i, {fw})", f"m({_off('i', di)}, {fo})"
    else:                     # rank 1: only the loop-variable-free subscript
        w, o = f"a({fw})", f"a({fo})"
    body = [f"  {w} = {o} + 1"] if kind == "read" else [f"  {w} = 1", f"  {o} = 2"]
    return [f"n = {nval}", f"k = {nval + 1}", "do i = 2, 5"] + body + ["enddo"]


def free2_family():
    out = []
    for order in (0, 1):
        for di in FREE_DI:
            for pair in FREE_PAIRS:
                for kind in ("read", "write2"):
                    for nval in (4, 3):
                        out.append((f"free2-{order}-{di}-{pair[0]}-{pair[1]}-{kind}-n{nval}",
                                    free2_loop(order, di, pair, kind, nval)))
    for pair in FREE_PAIRS:
        out.append((f"free2-r1-{pair[0]}-{pair[1]}", free2_loop(2, 0, pair, "read", 4)))
    return out


# ---- systematic family: a structure member (or a plain scalar, as control) used in a subscript, and what the loop
# ---- modifies: the same signature, a sibling member (same base name), a namesake (same member of another
# ---- structure), or nothing
MEM_CASES = [  # used in the subscript, {relation: reference the loop assigns}
    ("cfg%off", {"same": "cfg%off", "sibling": "cfg%n2", "namesake": "g%off"}),
    ("d%i", {"same": "d%i", "sibling": "d%off", "namesake": "cfg%i"}),
    ("pp(i)%x", {"same": "pp(i)%x", "sibling": "pp(i)%y", "namesake": "qq(i)%x"}),
    ("cfg%a(i)", {"same": "cfg%a(i)", "sibling": "cfg%off", "namesake": "g%a(i)"}),
    ("cfg%a(3)", {"same": "cfg%a(i)", "sibling": "cfg%n2", "namesake": "g%a(3)"}),
    ("t", {"same": "t", "sibling": "s0", "namesake": "d_i"})]
MEM_TARGETS = ["a", "g%a", "qq%y", "m"]


def _sig_of(ref):
    """`pp(i)%x` -> `pp%x`"""
    import re as _re
    return _re.sub(r"\([^()]*\)", "", ref)


def member_loop(used, written, target, kind, pos):
    sub = f"i+{used}"
    el = f"m({sub}, 3)" if target == "m" else fmt(target, sub)
    use = [f"{el} = 1"] if kind == "write" else [f"{el} = {el} + 1"]
    if written is None:
        body = use
    elif pos == "before":
        body = [f"{written} = mod(i+1, 2)", f"c(i) = {written}"] + use
    elif pos == "cond":
        body = [f"if (b(i) >= 0) then", f"  {written} = mod(i+1, 2)", "endif"] + use
    else:
        body = use + [f"{written} = mod(i+1, 2)", f"c(i) = {written}"]
    return ["do i = 0, 5"] + ["  " + b for b in body] + ["enddo"]


def member_family():
    """(name, loop lines) for all used x relation x target x write/update x position of the assignment"""
    out = []
    for used, rel in MEM_CASES:
        for rname, written in list(rel.items()) + [("none", None)]:
            for target in MEM_TARGETS:
                if _sig_of(target) in (_sig_of(used), _sig_of(written or "")):
                    continue
                for kind in ("write", "update"):
                    for pos in (("before", "after", "cond") if written else ("-",)):
                        out.append((f"member-{used}-{rname}-{target}-{kind}-{pos}",
                                    member_loop(used, written, target, kind, pos)))
    return out


def wrap_loop(rng, loop_lines, structs=False):
    if structs:
        return "\n".join(HEADER_S + gen_init_s(rng) + ["  " + ln for ln in loop_lines] + ["end program p"]) + "\n"
    return "\n".join(HEADER + gen_init(rng) + ["  " + ln for ln in loop_lines] + ["end program p"]) + "\n"


def gen_source(rng, flavour=None):
    if flavour == "nest2" or (flavour is None and rng.random() < 0.07):
        lines = nest2_loop(rng.choice((0, 1)), rng.choice(NEST2_DI), rng.choice(NEST2_INNER),
                           rng.choice(("read", "write2")))
        if rng.random() < 0.4:       # some noise after the nest
            lines = lines[:-1] + [f"  c(i) = b(i) + {rng.randint(0, 3)}", "enddo"]
        return wrap_loop(rng, lines), "nest2"
    if flavour == "free2" or (flavour is None and rng.random() < 0.07):
        lines = free2_loop(rng.choice((0, 1)), rng.choice(FREE_DI), rng.choice(FREE_PAIRS),
                           rng.choice(("read", "write2")), rng.choice((2, 3, 4, 5)))
        return wrap_loop(rng, lines), "free2"
    g = LoopGen(rng, flavour)
    if g.structs:
        return "\n".join(HEADER_S + gen_init_s(rng) + g.loop() + ["end program p"]) + "\n", g.flavour
    init = gen_init(rng, (1, -1, 2) if g.flavour == "dside" else (0, 1, 2))
    if g.flavour == "symcoef":          # both sides of the coefficient being zero
        init += [f"  n = {rng.choice((0, 0, 1, 2))}", f"  k = {rng.choice((0, 1, 1, 3))}"]
    return "\n".join(HEADER + init + g.loop() + ["end program p"]) + "\n", g.flavour


# ---- export -----------------------------------------------------------------
D_RE = re.compile(r"^d(\d*)_(.+)$")


def analysed_loop(routine):
    from psyclone.psyir.nodes import Loop
    for lp in routine.walk(Loop):
        if lp.variable.name.lower() == "i":
            return lp
    raise ValueError("no loop over i")


class SigNames(minif.Names):
    """id table over SIGNATURES (`cfg%off`, `pp%x`, plain names) + the table id -> (base name, member path) with
    its own numbering of component names"""

    def __init__(self):
        super().__init__()
        self.comp = {}
        self.sigs = {}

    def cid(self, name):
        return self.comp.setdefault(name.lower(), len(self.comp))

    def id(self, name):
        name = name.lower()
        ident = super().id(name)
        if ident not in self.sigs:
            parts = name.split("%")
            self.sigs[ident] = [self.cid(parts[0])] + [self.cid(q) for q in parts[1:]]
        return ident

    def sigtab(self):
        return [[ident] + sig for ident, sig in sorted(self.sigs.items())]


def _ref_parts(node, names):
    """(signature id, flattened subscript nodes) of any Reference"""
    from psyclone.psyir import nodes as N
    from psyclone.psyir.symbols import DataSymbol, ArrayType, ScalarType
    sig, indices = node.get_signature_and_indices()
    flat = [ix for comp in indices for ix in comp]
    if any(isinstance(ix, N.Range) for ix in flat) or len(flat) > 2:
        raise minif.Unsupported("array access " + str(sig))
    if getattr(names, "lenient", False):     # PSy-layer loops: the types of fields are imported, nothing to resolve
        if not isinstance(node, N.Reference):
            raise minif.Unsupported(type(node).__name__)
    elif type(node) is N.Reference:
        sym = node.symbol
        if not (isinstance(sym, DataSymbol) and isinstance(sym.datatype, ScalarType)):
            raise minif.Unsupported("whole array / structure " + node.name)      # `a = 0`, `cfg = g`
    elif isinstance(node, N.StructureReference):
        # every component on the path is subscripted iff it is an array, and the innermost one is a scalar
        # (resolved by hand: `node.datatype` is Unresolved as soon as a subscript is an operation)
        from psyclone.psyir.symbols import DataTypeSymbol, StructureType
        from psyclone.psyir.nodes.array_mixin import ArrayMixin
        dt = node.symbol.datatype if isinstance(node.symbol, DataSymbol) else None
        cur = node
        while True:
            has_idx = isinstance(cur, ArrayMixin)
            if isinstance(dt, ArrayType):
                if not has_idx or len(cur.indices) != len(dt.shape):
                    raise minif.Unsupported("whole array component " + str(sig))
                dt = dt.intrinsic if isinstance(dt.intrinsic, DataTypeSymbol) else ScalarType(dt.intrinsic, dt.precision)
            elif has_idx:
                raise minif.Unsupported("unresolved component " + str(sig))
            if not hasattr(cur, "member"):
                break
            if isinstance(dt, DataTypeSymbol):
                dt = dt.datatype
            if not isinstance(dt, StructureType) or cur.member.name not in dt.components:
                raise minif.Unsupported("unresolved structure type of " + str(sig))
            dt = dt.components[cur.member.name].datatype
            cur = cur.member
        if not isinstance(dt, ScalarType):
            raise minif.Unsupported("member that is not a scalar element: " + str(sig))
    elif not isinstance(node, N.ArrayReference):
        raise minif.Unsupported(type(node).__name__)
    return names.id(str(sig)), flat


def export_expr(node, names):
    """`minif.export_expr` extended to structure members (signature ids)"""
    from psyclone.psyir import nodes as N
    if isinstance(node, N.IntrinsicCall):
        name = node.intrinsic.name.upper()
        args = [export_expr(a, names) for a in node.arguments]
        if name in minif._INTR2 and len(args) >= 2 and (name in ("MIN", "MAX") or len(args) == 2):
            out = args[0]
            for a in args[1:]:
                out = ["bin", minif._INTR2[name], out, a]
            return out
        if name == "ABS" and len(args) == 1:
            return ["un", "abs", args[0]]
        if name in minif._IDENT and len(args) == 1:
            return args[0]
        raise minif.Unsupported("intrinsic " + name)
    if isinstance(node, N.BinaryOperation):
        op = node.operator.name
        if op not in minif._BIN:
            raise minif.Unsupported("operator " + op)
        return ["bin", minif._BIN[op], export_expr(node.children[0], names), export_expr(node.children[1], names)]
    if isinstance(node, N.UnaryOperation):
        op = node.operator.name
        if op not in minif._UN:
            raise minif.Unsupported("operator " + op)
        return ["un", minif._UN[op], export_expr(node.children[0], names)]
    if isinstance(node, N.Reference):
        ident, flat = _ref_parts(node, names)
        if not flat:
            return ["var", ident]
        return [f"idx{len(flat)}", ident] + [export_expr(ix, names) for ix in flat]
    return minif.export_expr(node, names)          # literals; everything else is refused there


def export_stmt(node, names):
    """`minif.export_stmt` extended to structure members"""
    from psyclone.psyir import nodes as N
    if isinstance(node, (list, tuple)):
        return ["seqs"] + [export_stmt(c, names) for c in node]
    if isinstance(node, N.Schedule):
        return export_stmt(list(node.children), names)
    if isinstance(node, N.Assignment):
        rhs = export_expr(node.rhs, names)
        if not isinstance(node.lhs, N.Reference):
            raise minif.Unsupported("lhs " + type(node.lhs).__name__)
        ident, flat = _ref_parts(node.lhs, names)
        if not flat:
            return ["assign", ident, rhs]
        return [f"store{len(flat)}", ident] + [export_expr(ix, names) for ix in flat] + [rhs]
    if isinstance(node, N.IfBlock):
        els = export_stmt(node.else_body, names) if node.else_body is not None else ["skip"]
        return ["ite", export_expr(node.condition, names), export_stmt(node.if_body, names), els]
    if isinstance(node, N.Loop):
        return ["loop", names.id(node.variable.name), export_expr(node.start_expr, names),
                export_expr(node.stop_expr, names), export_expr(node.step_expr, names),
                export_stmt(node.loop_body, names)]
    raise minif.Unsupported(type(node).__name__)      # WHILE loops, calls, code blocks: outside the modelled subset


def export_case(src):
    """source → dict(prefix, loop, dnames, names) (MiniF nested lists) and the PSyIR loop"""
    psyir, routine = minif.parse_program(src)
    loop = analysed_loop(routine)
    names = SigNames()
    pre = []
    for ch in routine.children:
        if ch is loop:
            break
        pre.append(ch)
    if loop.parent is not routine:
        raise minif.Unsupported("analysed loop is not at the top level of the routine")
    prefix = export_stmt(pre, names)
    lp = export_stmt(loop, names)
    var = loop.variable.name.lower()
    dn = []
    for nm, ident in names.table().items():
        # the key of the SymPy type map: a member `d%i` is written `d_i` (made unique with a numeric suffix when
        # that name is taken; any fresh candidate gives the same verdict in the fixed name loop)
        mt = D_RE.match(nm.replace("%", "_"))
        if mt and mt.group(2) == var:
            dn.append([ident, int(mt.group(1)) if mt.group(1) else 0])
    # ids in the order of the sorted signatures (`Signature` orders by the tuple of component names)
    order = [ident for _, ident in sorted(names.table().items(), key=lambda kv: tuple(kv[0].split("%")))]
    return {"prefix": prefix, "loop": lp, "dnames": dn, "names": names.table(), "order": order,
            "namesobj": names, "sigtab": names.sigtab()}, loop


# ---- classifiers of the known findings (on the exported MiniF loop) ----------
def _evars(e, acc):
    tag = e[0]
    if tag == "var":
        acc.add(e[1])
    elif tag in ("idx1", "idx2"):
        acc.add(e[1])
        for s in e[2:]:
            _evars(s, acc)
    elif tag == "un":
        _evars(e[2], acc)
    elif tag == "bin":
        _evars(e[2], acc)
        _evars(e[3], acc)
    return acc


def _has_divmod(e):
    if e[0] == "bin":
        return e[1] in ("div", "mod") or _has_divmod(e[2]) or _has_divmod(e[3])
    if e[0] == "un":
        return _has_divmod(e[2])
    if e[0] in ("idx1", "idx2"):
        return any(_has_divmod(s) for s in e[2:])
    return False


def _has_symcoef(e, var):
    """a product of something that mentions the analysed loop variable with a non-literal"""
    if e[0] == "bin":
        if e[1] == "mul":
            va, vb = _evars(e[2], set()), _evars(e[3], set())
            if (var in va and vb) or (var in vb and va):
                return True
        return _has_symcoef(e[2], var) or _has_symcoef(e[3], var)
    if e[0] == "un":
        return _has_symcoef(e[2], var)
    if e[0] in ("idx1", "idx2"):
        return any(_has_symcoef(s, var) for s in e[2:])
    return False


def _walk_exprs(e, out):
    """all array element references inside an expression: (array, [subscripts])"""
    if e[0] in ("idx1", "idx2"):
        out.append((e[1], e[2:]))
        for s in e[2:]:
            _walk_exprs(s, out)
    elif e[0] == "un":
        _walk_exprs(e[2], out)
    elif e[0] == "bin":
        _walk_exprs(e[2], out)
        _walk_exprs(e[3], out)


def _expr_acc(e, cond, out):
    """accesses of an expression in the order of `C08.exprAcc`: (var, is_write, cond, subscripts)"""
    tag = e[0]
    if tag == "var":
        out.append((e[1], False, cond, []))
    elif tag in ("idx1", "idx2"):
        for s in e[2:]:
            _expr_acc(s, cond, out)
        out.append((e[1], False, cond, e[2:]))
    elif tag == "un":
        _expr_acc(e[2], cond, out)
    elif tag == "bin":
        _expr_acc(e[2], cond, out)
        _expr_acc(e[3], cond, out)


def _stmt_acc(s, cond, out, inner):
    """accesses of a statement in the order of `C08.stmtAcc`"""
    tag = s[0]
    if tag in ("seqs", "seq"):
        for c in s[1:]:
            _stmt_acc(c, cond, out, inner)
    elif tag == "assign":
        _expr_acc(s[2], cond, out)
        out.append((s[1], True, cond, []))
    elif tag in ("store1", "store2"):
        nsub = 1 if tag == "store1" else 2
        _expr_acc(s[2 + nsub], cond, out)
        for e in s[2:2 + nsub]:
            _expr_acc(e, cond, out)
        out.append((s[1], True, cond, s[2:2 + nsub]))
    elif tag == "ite":
        _expr_acc(s[1], cond, out)
        _stmt_acc(s[2], True, out, inner)
        _stmt_acc(s[3], True, out, inner)
    elif tag == "loop":
        inner.add(s[1])
        out.append((s[1], True, cond, []))
        out.append((s[1], False, cond, []))
        for e in s[2:5]:
            _expr_acc(e, cond, out)
        _stmt_acc(s[5], True, out, inner)


class BodyInfo:
    """access list of the body of the analysed loop (MiniF nested lists), written variables, inner loop variables"""

    def __init__(self, loop):
        self.var = loop[1]
        self.inner = set()
        self.acc = []
        _stmt_acc(loop[5], False, self.acc, self.inner)
        self.written = {a[0] for a in self.acc if a[1]}
        self.subs = {}
        for a in self.acc:
            if a[3]:
                self.subs.setdefault(a[0], []).append(a[3])


def classify(loop, x):
    """Which known-finding classes accept a conflict on variable id `x` of the exported loop."""
    info = BodyInfo(loop)
    out = []
    if x in info.subs:
        allsubs = [e for ss in info.subs[x] for e in ss]
        if any(_has_divmod(e) for e in allsubs):
            out.append("C08-integer-division")
        if any(_has_symcoef(e, info.var) for e in allsubs):
            out.append("C08-symbolic-coefficient")
        for e in allsubs:
            vs = _evars(e, set())
            if (vs & info.written) - info.inner - {info.var}:
                out.append("C08-stale-subscript")
                break
        for e in allsubs:
            vs = _evars(e, set())
            if info.var in vs and vs & info.inner:
                out.append("C08-inner-variable-subscript")
                break
    else:
        first = [a for a in info.acc if a[0] == x][:1]
        if first and first[0][1] and first[0][2]:
            out.append("C08-conditional-scalar")
    return out
