"""C01 — reading and re-writing Fortran preserves program behaviour.

(i)  lowering correspondence: generated programs (text + independently built source AST)
     are read by the real FortranReader; the PSyIR of every generated routine is exported and
     compared with `C01.lower` applied to the source AST (Lean driver), up to the names of
     the fresh WHERE loop variables and the association of statement sequences;
(ii) end-to-end: the FortranWriter output is re-read and re-exported; it must equal (i);
(P)  the property itself: original and re-written source are compiled with gfortran and run;
     a reader/writer exception, a compile failure of the re-written text, or differing
     output is a failing input."""
import concurrent.futures
import json
import os
import re
import random

import common
from common import sx
import minif
from props import c01_gen

FLAGS = ("-fcheck=bounds", "-ffree-line-length-none")
FAMILIES = ("corpus", "where-order", "random", "known")


def families():
    """C01_FAMILY=corpus,where-order,random,known (development aid; default: all)"""
    sel = os.environ.get("C01_FAMILY", "").strip()
    if not sel:
        return set(FAMILIES)
    got = {x.strip() for x in sel.split(",") if x.strip()}
    bad = got - set(FAMILIES)
    if bad:
        raise common.Infra(f"C01_FAMILY: unknown family {sorted(bad)}; known: {FAMILIES}")
    return got


# ---------------------------------------------------------------------------------------
# real code
def read(src):
    from psyclone.psyir.frontend.fortran import FortranReader
    return FortranReader().psyir_from_source(src)


def write(psyir):
    from psyclone.psyir.backend.fortran import FortranWriter
    return FortranWriter()(psyir)


def rewrite(src):
    """-> (status, text)  status in ok / reader-exception / writer-exception"""
    try:
        psyir = read(src)
    except Exception as e:   # any exception on an in-subset program is a failure of the property
        return "reader-exception", f"{type(e).__name__}: {e}"[:400], None
    try:
        return "ok", write(psyir), psyir
    except Exception as e:
        return "writer-exception", f"{type(e).__name__}: {e}"[:400], psyir


# ---------------------------------------------------------------------------------------
# exporter PSyIR -> lowered `Src` S-expression
class Ctx:
    def __init__(self, names, arrays, fresh, cbtags, tagtext):
        self.names, self.arrays = names, arrays
        self.fresh, self.cbtags, self.tagtext = list(fresh), list(cbtags), tagtext
        self.freshmap = {}
        self.nfresh = self.ncb = 0
        self.verbatim_bad = []

    def var(self, name):
        name = name.lower()
        if name.startswith("widx"):
            return self.freshmap.get(name, 9999)
        return self.names.id(name)

    def cb(self, text=None):
        tag = self.cbtags.pop(0) if self.cbtags else 8000 + self.ncb
        self.ncb += 1
        if text is not None and self.tagtext.get(tag) != c01_gen.squash(text):
            self.verbatim_bad.append((tag, text))
        return ["cb", tag]


_BIN = dict(minif._BIN)
_UN = dict(minif._UN)
_ARGORDER = {"MOD": ["a", "p"], "SIGN": ["a", "b"]}
_REDUCTIONS = {"SUM": "add", "MAXVAL": "max", "MINVAL": "min"}


def _bounds(arr, dim):
    if dim == 1:
        return arr.lo, arr.hi
    if dim == 2 and arr.lo2 is not None:
        return arr.lo2, arr.hi2
    raise minif.Unsupported("dimension %d of %s" % (dim, arr.name))


def _dim_of(node):
    from psyclone.psyir import nodes as N
    args = node.arguments
    if len(args) < 2:
        return 1
    if isinstance(args[1], N.Literal):
        return int(args[1].value)
    raise minif.Unsupported("dim argument")


def export_expr(node, cx):
    from psyclone.psyir import nodes as N
    if isinstance(node, N.Literal):
        return minif.export_expr(node, cx.names)
    if isinstance(node, N.IntrinsicCall):
        name = node.intrinsic.name.upper()
        args = list(node.arguments)
        if name in ("LBOUND", "UBOUND", "SIZE"):
            if type(args[0]) is not N.Reference:
                raise minif.Unsupported(name + " of a non-array")
            arr = cx.arrays.get(args[0].name.lower())
            if arr is None:
                raise minif.Unsupported(name + " of unknown array")
            lo, hi = _bounds(arr, _dim_of(node))
            return ["lit", {"LBOUND": lo, "UBOUND": hi, "SIZE": hi - lo + 1}[name]]
        if name in _REDUCTIONS:
            arr_arg, extra = None, []
            for a, n in zip(args, node.argument_names):
                if (n is None and arr_arg is None) or (n is not None and n.lower() == "array"):
                    arr_arg = a
                else:
                    extra.append((n, a))
            for n, a in extra:      # only DIM = 1 of a rank-1 array (a scalar result) is in the subset
                if not (isinstance(a, N.Literal) and a.value == "1" and (n is None or n.lower() == "dim")):
                    raise minif.Unsupported(name + " argument form")
            if arr_arg is None or type(arr_arg) is not N.Reference:
                raise minif.Unsupported(name + " form")
            arr = cx.arrays.get(arr_arg.name.lower())
            if arr is None or arr.lo2 is not None:
                raise minif.Unsupported(name + " of unknown / rank-2 array")
            op = _REDUCTIONS[name]
            out = ["lit", 0] if name == "SUM" else ["idx1", cx.var(arr.name), ["lit", arr.lo]]
            for k in range(arr.lo, arr.hi + 1):
                out = ["bin", op, out, ["idx1", cx.var(arr.name), ["lit", k]]]
            return out
        if name in _ARGORDER and any(n is not None for n in node.argument_names):
            order = _ARGORDER[name]
            byname = {}
            pos = []
            for a, n in zip(args, node.argument_names):
                if n is None:
                    pos.append(a)
                else:
                    byname[n.lower()] = a
            args = pos + [byname[n] for n in order[len(pos):]]
        ex = [export_expr(a, cx) for a in args]
        if name in minif._INTR2 and len(ex) >= 2 and (name in ("MIN", "MAX") or len(ex) == 2):
            out = ex[0]
            for a in ex[1:]:
                out = ["bin", minif._INTR2[name], out, a]
            return out
        if name == "ABS" and len(ex) == 1:
            return ["un", "abs", ex[0]]
        if name in minif._IDENT and len(ex) == 1:
            return ex[0]
        raise minif.Unsupported("intrinsic " + name)
    if isinstance(node, N.BinaryOperation):
        op = node.operator.name
        if op not in _BIN:
            raise minif.Unsupported("operator " + op)
        return ["bin", _BIN[op], export_expr(node.children[0], cx), export_expr(node.children[1], cx)]
    if isinstance(node, N.UnaryOperation):
        op = node.operator.name
        if op not in _UN:
            raise minif.Unsupported("operator " + op)
        return ["un", _UN[op], export_expr(node.children[0], cx)]
    if isinstance(node, N.ArrayReference):
        idx = node.indices
        if any(isinstance(i, N.Range) for i in idx) or not 1 <= len(idx) <= 2:
            raise minif.Unsupported("array access " + node.name)
        return [f"idx{len(idx)}", cx.var(node.name)] + [export_expr(i, cx) for i in idx]
    if type(node) is N.Reference:
        return ["var", cx.var(node.name)]
    raise minif.Unsupported(type(node).__name__)


def export_stmt(node, cx):
    from psyclone.psyir import nodes as N
    if isinstance(node, (list, tuple)):
        parts = []
        for c in node:
            parts += export_stmts(c, cx)
        return ["seqs"] + parts
    if isinstance(node, N.Schedule):
        return export_stmt(list(node.children), cx)
    res = export_stmts(node, cx)
    return res[0] if len(res) == 1 else ["seqs"] + res


def export_stmts(node, cx):
    """one PSyIR statement -> list of exported statements (a CodeBlock may hold several)"""
    from psyclone.psyir import nodes as N
    if isinstance(node, N.Assignment):
        lhs = node.lhs
        if isinstance(lhs, N.ArrayReference) and any(isinstance(i, N.Range) for i in lhs.indices):
            return [cx.cb()]        # array notation kept by the reader
        rhs = export_expr(node.rhs, cx)
        if isinstance(lhs, N.ArrayReference):
            idx = lhs.indices
            if not 1 <= len(idx) <= 2:
                raise minif.Unsupported("array assignment")
            return [[f"store{len(idx)}", cx.var(lhs.name)] + [export_expr(i, cx) for i in idx] + [rhs]]
        if type(lhs) is N.Reference:
            return [["assign", cx.var(lhs.name), rhs]]
        raise minif.Unsupported("lhs " + type(lhs).__name__)
    if isinstance(node, N.IfBlock):
        cond = export_expr(node.condition, cx)
        thn = export_stmt(node.if_body, cx)          # pre-order: fresh names / tags are consumed in order
        els = export_stmt(node.else_body, cx) if node.else_body is not None else ["skip"]
        return [["ite", cond, thn, els]]
    if isinstance(node, N.Loop):
        name = node.variable.name.lower()
        if name.startswith("widx"):
            # a fresh binding per WHERE loop (the same name may be re-used in different scopes)
            old = cx.freshmap.get(name)
            cx.nfresh += 1
            cx.freshmap[name] = cx.fresh.pop(0) if cx.fresh else 9000 + cx.nfresh
        v = cx.var(name)
        res = [["loop", v, export_expr(node.start_expr, cx), export_expr(node.stop_expr, cx),
                export_expr(node.step_expr, cx), export_stmt(node.loop_body, cx)]]
        if name.startswith("widx"):
            if old is None:
                del cx.freshmap[name]
            else:
                cx.freshmap[name] = old
        return res
    if isinstance(node, N.WhileLoop):
        return [["while", export_expr(node.condition, cx), export_stmt(node.loop_body, cx)]]
    if isinstance(node, N.CodeBlock):
        out = []
        for ast in node.get_ast_nodes:
            # tofortran() (what the writer uses) includes a statement label
            txt = ast.tofortran() if hasattr(ast, "tofortran") else str(ast)
            if txt.strip().lower().startswith(("print", "write")):
                continue
            out.append(cx.cb(txt))
        return out
    raise minif.Unsupported(type(node).__name__)


def canon_neg(x):
    """(-a)*b and (-a)/b are printed as `-a * b` and re-read as -(a*b): the same value (exact product,
    truncating division); operator-precedence of the writer is C02's subject.  Canonical form: negation outside."""
    if not isinstance(x, list):
        return x
    x = [canon_neg(y) for y in x]
    if len(x) == 4 and x[0] == "bin" and x[1] in ("mul", "div") and isinstance(x[2], list) and x[2][:2] == ["un", "neg"]:
        return canon_neg(["un", "neg", ["bin", x[1], x[2][2], x[3]]])
    if len(x) == 3 and x[:2] == ["un", "neg"] and isinstance(x[2], list) and x[2][:2] == ["un", "neg"]:
        return x[2][2]
    return x


def routines_of(psyir):
    from psyclone.psyir.nodes import Routine
    return {r.name.lower(): r for r in psyir.walk(Routine)}


# ---------------------------------------------------------------------------------------
# classification of failing inputs (known-finding classes)
def where_classes(ast, out=None):
    """classes of non-elemental WHERE constructs in a source AST"""
    out = set() if out is None else out
    if not isinstance(ast, list) or not ast:
        return out
    if ast[0] == "where":
        assigned = set()
        secs, sums, elems = [], [], []

        def scal_arrays(x):
            if isinstance(x, list) and x:
                if x[0] in ("idx1", "idx2"):
                    elems.append(x[1])
                for y in x[1:]:
                    scal_arrays(y)

        def walk(x):
            if isinstance(x, list) and x:
                if x[0] == "scal":
                    scal_arrays(x[1])
                    return
                if x[0] == "wa":
                    assigned.add(x[1])
                    secs.append((None, x[2][1:]))
                    walk(x[3])
                    return
                if x[0] == "wa2":
                    assigned.add(x[1])
                    walk(x[4])
                    return
                if x[0] == "sec2" and len(x) == 8:
                    secs.append((x[1], x[2:5]))
                    secs.append((x[1], x[5:8]))
                if x[0] == "sec" and len(x) == 5:
                    secs.append((x[1], x[2:]))
                if x[0] in ("sum", "sumdim"):
                    sums.append(x[1])
                if x[0] in ("red", "reddim"):
                    sums.append(x[2])
                for y in x:
                    walk(y)
        walk(ast[3])
        if any(s in assigned for s in sums):
            out.add("C01-where-reduction-reevaluated")
        if any(sec[2] not in ("none", 1) for _, sec in secs):
            out.add("C01-where-section-stride-ignored")
        if any(a in assigned for a in elems):
            out.add("C01-where-element-of-assigned-array")
        return out
    if ast[0] == "named" and _refers(ast[2], ast[3]):
        return out          # kept whole as a CodeBlock: nothing inside is lowered
    for y in ast:
        where_classes(y, out)
    return out


def _refers(name, ast):
    if not isinstance(ast, list) or not ast:
        return False
    if ast[0] == "jump":
        return ast[2] in (0, 1) and ast[3] == name
    return any(_refers(name, y) for y in ast)


def text_classes(src):
    """classifier on program text (used for replayed known findings and hand-written inputs)"""
    out = set()
    low = src.lower()
    for m in re.finditer(r"where\s*\(.*", low):
        pass
    if re.search(r"where[^\n]*\n?[^\n]*sum\s*\(", low):
        out.add("C01-where-reduction-reevaluated")
    if re.search(r"\([^()\n]*:[^()\n]*:\s*-?\d+\s*\)", low):
        out.add("C01-where-section-stride-ignored")
    return out


# ---------------------------------------------------------------------------------------
def property_run(src, out_text):
    """compile+run original and re-written program -> (verdict, detail)"""
    s1, o1 = minif.gfortran_run(src, flags=FLAGS)
    if s1 == "compile-error":
        return "invalid-original", o1[-600:]
    if s1 != "ok":
        return "skip", s1
    s2, o2 = minif.gfortran_run(out_text, flags=FLAGS)
    if s2 == "compile-error":
        return "fail", "re-written program does not compile:\n" + o2[-800:]
    if s2 != "ok":
        return "fail", f"re-written program: {s2}\n" + o2[-400:]
    if o1 != o2:
        return "fail", "stdout differs"
    return "pass", ""


def property_on_source(src):
    st, out, _ = rewrite(src)
    if st != "ok":
        return "fail", st + ": " + out, None
    v, d = property_run(src, out)
    return v, d, out


NAME_CASE_PROBE = """program p
  implicit none
  integer :: i, j, t
  t = 0
  Outer: do i = 1, 4
    do j = 1, 4
      if (j > i) exit OUTER
      t = t + j
    end do
  end do Outer
  print *, t
end program p
"""


class Case:
    pass


def prepare(p):
    """read/write/re-read the program with the real code; returns a Case"""
    c = Case()
    c.p = p
    c.status, c.out, psyir = rewrite(p.source)
    c.psyir = psyir
    c.env = sx(c01_gen.env_sx(p))
    return c


def work(p):
    """worker process: read / write / re-read one program with the real code and export every generated
    routine of both PSyIR trees -> (status, text, impl, impl2, reread_error)"""
    status, out, psyir = rewrite(p.source)
    if status != "ok":
        return status, out, {}, {}, ""
    impl, impl2, err = {}, {}, ""
    rts = routines_of(psyir)
    try:
        rts2 = routines_of(read(out))
    except Exception as e:
        rts2 = None
        err = f"{type(e).__name__}: {e}"[:300]
    for r in p.routines:
        if not r.modelled:
            impl[r.name] = impl2[r.name] = (None, "routine holds a construct outside the model (DO WHILE)", None)
            continue
        low = r.model_low
        fresh = [int(x) for x in re.findall(r"\(loop (\d+)", low) if int(x) >= 1000]
        tags = [int(x) for x in re.findall(r"\(cb (\d+)\)", low)]
        for target, table in ((impl, rts), (impl2, rts2)):
            if table is None:
                continue
            cx = Ctx(p.names, p.arrays, fresh, tags, p.tagtext)
            try:
                ex = export_stmt(table[r.name].children, cx)
                # an empty schedule (e.g. an empty ELSE body, which the writer drops) is `skip`
                target[r.name] = (sx(ex).replace("(seqs)", "(skip)"), cx.verbatim_bad,
                                  sx(canon_neg(ex)).replace("(seqs)", "(skip)"))
            except minif.Unsupported as e:
                target[r.name] = (None, str(e), None)
    return status, out, impl, impl2, err


def corr_lines(cases):
    """pass 1: ask the model for the lowered routines (fresh variables / code-block tags in order)"""
    lines = []
    for c in cases:
        for r in c.p.routines:
            lines.append(sx(["lower", c.env, r.ast]))
    return lines


def run(chk):
    chk.cov["rule"] = ("generated programs (module with init + 1-3 generated routines, main program printing every "
                       "variable); a case = one generated routine; non-trivial = the routine contains a SELECT CASE, "
                       "WHERE, array assignment, DO or IF; distinct by canonical JSON of the source AST")
    chk.assumptions += [
        "fparser2 parses the generated text into the parse tree the text denotes (the source AST is built by the "
        "generator, not from fparser2)",
        "exporter harness/props/c01.py: LBOUND/UBOUND/SIZE of declared-shape arrays become their literal values, "
        "SUM(a) is unrolled over the declared extent, INT/REAL conversions are the identity on the integral domain",
        "gfortran 12 (-fcheck=bounds -ftrapv) as execution oracle for the property on the real code",
        "source semantics: the first matching CASE is executed (equals the unique match for standard-conforming, "
        "non-overlapping cases); a WHERE construct owns a scratch variable that the program does not mention",
        "MODE: model follows the FIXED reader (fixes/C01-where-extent.patch)"]
    chk.cov["trusted_base"] = ["Lean 4.33.0 kernel", "axioms propext/Classical.choice/Quot.sound only (audited)",
                               "MiniF semantics (validated against gfortran by harness/minif_selftest.py)",
                               "harness/props/c01.py exporter + c01_gen.py generator", "fparser2, gfortran"]
    chk.lean()
    fams = families()
    chk.cov["families_run"] = sorted(fams)
    if "corpus" in fams:
        run_corpus(chk)
    if "where-order" in fams and len(chk.violations) < 3:
        from props import c01_where
        c01_where.run_family(chk, __import__("sys").modules[__name__])
    if "random" in fams and len(chk.violations) < 3:
        run_random(chk)
    # known findings: replay the witnesses
    if "known" in fams:
        for e in common.known_findings("C01"):
            v, d, _ = property_on_source(e["witness"]["source"])
            if v == "fail":
                chk.known(e["what"])


def run_corpus(chk):
    # corpus first: hand-written programs and minimised past failures
    known_ids = {e["id"] for e in common.known_findings("C01")}
    cdir = os.path.join(common.ROOT, "corpus", "C01")
    ncorpus = 0
    for fn in sorted(os.listdir(cdir)) if os.path.isdir(cdir) else []:
        if not fn.endswith(".f90"):
            continue
        src = open(os.path.join(cdir, fn)).read()
        v, d, out = property_on_source(src)
        ncorpus += 1
        chk.case({"corpus": fn}, nontrivial=True, agreed=(v == "pass"))
        if v == "fail":
            cls = text_classes(src)
            if cls and cls <= known_ids:
                continue
            chk.violation({"kind": "failing-input", "corpus": fn, "source": src, "rewritten": out, "observed": d,
                           "expected": "re-written program compiles and prints the same values as the original"})
    chk.cov["corpus_programs"] = ncorpus


def run_random(chk):
    thorough = chk.tier == "thorough"
    nprog = 1500 if thorough else 70
    nrun = 1500 if thorough else 70        # every program goes through gfortran
    rng = chk.rng
    # does the live reader compare construct names case-sensitively?  (known finding; the generator's expected
    # Loop-vs-CodeBlock structure follows the code, the behavioural failure is caught by gfortran either way)
    st, out, _ = rewrite(NAME_CASE_PROBE)
    c01_gen.NAME_CASE_SENSITIVE = (st == "ok" and "do i = 1, 4, 1" in out)
    chk.cov["construct_name_check_case_sensitive"] = c01_gen.NAME_CASE_SENSITIVE

    programs = []
    for n in range(nprog):
        names = minif.Names()
        focus = [None, "unsupported", "where", "select", None][n % 5]
        programs.append(c01_gen.gen_program(rng, names, focus))

    # pass 1: the model's lowering of every routine (order of fresh loop variables / CodeBlock tags)
    cases = []
    for p in programs:
        c = Case()
        c.p, c.env = p, sx(c01_gen.env_sx(p))
        cases.append(c)
    model1 = common.driver("C01", corr_lines(cases))
    k = 0
    for c in cases:
        for r in c.p.routines:
            r.model_low = model1[k]
            k += 1
    # real code (read, write, re-read, export) in worker processes
    import multiprocessing
    read("program warmup\nend program warmup\n")        # import PSyclone before forking
    with multiprocessing.get_context("fork").Pool(min(8, os.cpu_count() or 1)) as pool:
        results = pool.map(work, [c.p for c in cases], chunksize=2)
    for c, res in zip(cases, results):
        c.status, c.out, c.impl, c.impl2, c.reread_error = res
    stats = {"programs": len(cases), "routines": 0, "lowering_agree": 0, "roundtrip_agree": 0, "unmodelled": 0,
             "gfortran_pairs": 0, "gfortran_pass": 0, "gfortran_skipped": 0, "known_class_failures": 0,
             "not_good(where outside theorem)": 0}
    feats = {}
    # reader / writer exceptions are failing inputs straight away
    alive = []
    for c in cases:
        if c.status != "ok":
            chk.violation({"kind": "failing-input", "source": c.p.source, "observed": c.status + ": " + c.out,
                           "expected": "program is read and re-written without an exception"})
            if len(chk.violations) >= 3:
                return
        else:
            alive.append(c)
    cmp_lines, cmp_refs = [], []
    for c in alive:
        c.verdicts = {}
        for r in c.p.routines:
            if c.impl[r.name][0] is not None:
                cmp_lines.append(sx(["cmp", c.env, r.ast, c.impl[r.name][0]]))
                cmp_refs.append((c, r))
    model2 = common.driver("C01", cmp_lines)
    for (c, r), ans in zip(cmp_refs, model2):
        c.verdicts[r.name] = ans

    suspicious = []
    for c in alive:
        c.agree = True
        c.good = True
        for r in c.p.routines:
            stats["routines"] += 1
            for f in r.feats:
                feats[f] = feats.get(f, 0) + 1
            ex, info, exc = c.impl[r.name]
            nontriv = bool(r.feats & {"select", "where", "do", "if", "array-assign"})
            if ex is None:
                if where_classes(r.ast):
                    c.good = False      # no model verdict for this routine: its WHEREs are judged by the classifier alone
                stats["unmodelled"] += 1
                chk.case({"routine": r.ast}, nontrivial=False, agreed=False)
                continue
            ans = c.verdicts[r.name]
            same = ans.startswith("same")
            good = ans.split()[1] == "1" if len(ans.split()) > 1 else False
            if not good:
                c.good = False
                stats["not_good(where outside theorem)"] += 1
            ok2 = c.impl2.get(r.name, (None, None, None))[2] == exc if c.impl2 else False
            chk.case({"routine": r.ast}, nontrivial=nontriv, agreed=same and ok2 and not info)
            if same:
                stats["lowering_agree"] += 1
            else:
                c.agree = False
                chk.correspondence_broken("lowering of routine differs from C01.lower", {"source": c.p.source, "routine": r.name},
                                          ans[:1500], ex[:1500])
            if info:
                c.agree = False
                chk.correspondence_broken("CodeBlock is not the verbatim source statement",
                                          {"source": c.p.source, "routine": r.name}, str(info)[:600], "")
            if ok2:
                stats["roundtrip_agree"] += 1
            else:
                c.agree = False
                chk.correspondence_broken("FortranWriter output re-read differs from the PSyIR it was written from",
                                          {"source": c.p.source, "routine": r.name},
                                          ex[:1500], str(c.impl2.get(r.name))[:1500] + c.reread_error)
        if not c.agree:
            suspicious.append(c)

    # the property itself: every disagreeing program, then a sample
    todo = suspicious[:40] + [c for c in alive if c.agree][:nrun]
    with concurrent.futures.ThreadPoolExecutor(8) as pool:
        results = list(pool.map(lambda c: property_run(c.p.source, c.out), todo))
    invalid = 0
    for c, (verdict, detail) in zip(todo, results):
        stats["gfortran_pairs"] += 1
        if verdict == "pass":
            stats["gfortran_pass"] += 1
        elif verdict == "skip":
            stats["gfortran_skipped"] += 1
        elif verdict == "invalid-original":
            invalid += 1
            chk.cov.setdefault("invalid_generated", []).append(detail[-300:])
        elif verdict == "fail":
            wclasses = set()
            for r in c.p.routines:
                wclasses |= where_classes(r.ast)
            # classes the generator knowingly produced (construct-name spelling, EXIT from a named IF)
            declared = {f[6:] for f in c.p.feats if f.startswith("known:")}
            classes = wclasses | declared
            known_ids = {e["id"] for e in common.known_findings("C01")}
            if c.agree and classes and classes <= known_ids and (declared or not c.good):
                stats["known_class_failures"] += 1      # the committed model reproduces it, classifier accepts it
                continue
            chk.violation({"kind": "failing-input", "source": c.p.source, "rewritten": c.out, "observed": detail,
                           "expected": "re-written program compiles and prints the same values as the original",
                           "model_agrees_on_lowering": c.agree, "classes": sorted(classes)})
            if len(chk.violations) >= 3:
                break
    if invalid > max(3, len(todo) // 10):
        raise common.Infra("generator produced too many programs gfortran rejects: " +
                           str(chk.cov.get("invalid_generated", [])[:2]))
    chk.cov["distribution"] = stats
    chk.cov["features"] = dict(sorted(feats.items()))


def replay(payload):
    if "source" not in payload:
        print("replay file holds no failing input (broken proof obligation / correspondence):")
        print(json.dumps(payload.get("broken", payload), indent=1)[:3000])
        return 1
    v, d, out = property_on_source(payload["source"])
    print("observed:", v, d)
    print("expected: re-written program compiles and prints the same values as the original")
    if out is not None and v == "fail":
        print("---- re-written program ----")
        print(out)
    return 1 if v == "fail" else 0
