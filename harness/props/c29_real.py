"""C29 helper: drive several REAL `CodedKern.rename_and_write` calls (one thread per run) through a
given interleaving, using the pause points of the verification hook (`psyclone/_verif_hooks.py`,
patch fixes/C29-hook.patch).  Only one thread executes at any time: a schedule entry `r` releases run
`r` from the pause it is parked at and waits until it parks at its next pause or finishes."""
import contextlib
import inspect
import io
import os
import re
import shutil
import tempfile
import threading

import common

LABELS = ("create", "rename", "render", "write", "close", "readback", "compare")
MAX_PAUSES = 60          # a run that passes more pause points than this is declared divergent
WAIT = 60                # seconds the controller waits for a thread before giving up (Infra)

# base id -> (api, algorithm file, kernel index); all from src/psyclone/tests/test_files
KERNELS = {
    1: ("lfric", "1_single_invoke.f90", 0),                 # testkern_mod / testkern_code
    2: ("gocean", "single_invoke.f90", 0),                  # compute_cu_mod / compute_cu_code
    3: ("lfric", "1.1.0_single_invoke_xyoz_qr.f90", 0),     # testkern_qr_mod / testkern_qr_code
    # the algorithm layer says `use TESTKERN_W3_MOD` (Fortran is case-insensitive): kern.module_name keeps
    # that spelling; the output file is TESTKERN_W3_<idx>_mod.f90
    4: ("lfric-upper", "1_single_invoke_w3.f90", 0),
}
NAMES = {1: "testkern", 2: "compute_cu", 3: "testkern_qr", 4: "TESTKERN_W3"}
JUNK_BODY = 0            # model body id of a pre-existing file that is not a PSyclone kernel
JUNK_TEXT = "some code\n"


class Abort(BaseException):
    """Raised inside a run thread to stop a run that does not terminate."""


_HOOKS = []


def hooks():
    """The hook module of the tree under test; Infra if the hook is not installed."""
    if _HOOKS:
        return _HOOKS[0]
    try:
        from psyclone import _verif_hooks
    except ImportError as e:
        raise common.Infra(f"verification hook missing in {common.REPO}: psyclone/_verif_hooks.py not importable "
                           f"({e}); apply /verif/fixes/C29-hook.patch") from e
    from psyclone.psyGen import CodedKern
    src = inspect.getsource(CodedKern.rename_and_write)
    missing = [lab for lab in LABELS if f'_verif_hooks.pause("{lab}"' not in src]
    if missing:
        raise common.Infra(f"verification hook incomplete in {common.REPO}: rename_and_write lacks pause points "
                           f"{missing}; apply /verif/fixes/C29-hook.patch")
    if not _verif_hooks.enabled():
        raise common.Infra("SVALAT_PSYCLONE_VERIF is not set: pause points are disabled")
    _HOOKS.append(_verif_hooks)
    return _verif_hooks


# --------------------------------------------------------------------------------------------
# transformed kernels
# --------------------------------------------------------------------------------------------
class Box:
    """One transformed kernel object (with its PSy object) plus what is needed to reset it."""

    def __init__(self, base, k):
        from psyclone.tests.utilities import get_invoke
        from psyclone.psyir.symbols import DataSymbol, INTEGER_TYPE
        from psyclone.transformations import ACCRoutineTrans
        from psyclone.psyir.nodes import Container
        from psyclone.psyir.symbols.datatypes import UnsupportedFortranType
        api, alg, idx = KERNELS[base]
        self.base, self.k = base, k
        if api == "lfric-upper":
            self.psy, invoke = upper_invoke(alg)
        else:
            self.psy, invoke = get_invoke(alg, api=api, idx=0)
        from psyclone.configuration import Config
        self.api = Config.get().api
        self.kern = invoke.schedule.coded_kernels()[idx]
        sched = self.kern.get_kernel_schedule()
        # a trivial, visible transformation: a marker declaration identifying the kernel version
        sched.symbol_table.new_symbol(f"c29_marker_{k}", symbol_type=DataSymbol, datatype=INTEGER_TYPE)
        with contextlib.redirect_stdout(io.StringIO()):
            ACCRoutineTrans().apply(self.kern)
        if not self.kern.modified:
            raise common.Infra("transformed kernel is not marked as modified")
        container = sched.ancestor(Container)
        self.name0, self.mod0 = self.kern.name, self.kern.module_name
        self.decls0 = {s.name: s.datatype.declaration for s in container.symbol_table.datatypesymbols
                       if isinstance(s.datatype, UnsupportedFortranType)}
        self.text0 = self.render()
        self.dirty = False

    def render(self):
        from psyclone.psyir.backend.fortran import FortranWriter
        return FortranWriter()(self.kern.get_kernel_schedule().root)

    def restore(self):
        """Undo `_rename_psyir` + `modified = False`; False if the kernel is not pristine afterwards."""
        from psyclone.psyir.nodes import Container
        from psyclone.psyir.symbols.datatypes import UnsupportedFortranType
        kern = self.kern
        sched = kern.get_kernel_schedule()
        container = sched.ancestor(Container)
        cur = kern.name
        kern.name = self.name0
        kern._module_name = self.mod0
        sched.name = self.name0
        container.name = self.mod0
        if cur != self.name0:
            try:
                sym = sched.symbol_table.lookup(cur)
                container.symbol_table.rename_symbol(sym, self.name0)
            except KeyError:
                pass
        if hasattr(container, "metadata"):
            container.metadata.procedure_name = self.name0
        for sym in container.symbol_table.datatypesymbols:
            if isinstance(sym.datatype, UnsupportedFortranType) and sym.name in self.decls0:
                sym._datatype = UnsupportedFortranType(self.decls0[sym.name],
                                                       partial_datatype=sym.datatype.partial_datatype)
        kern.modified = True
        self.dirty = False
        try:
            return self.render() == self.text0
        except Exception:       # noqa: BLE001 - any failure means "not pristine"
            return False


def upper_invoke(alg):
    """PSy object for an LFRic algorithm file whose `use <kernel>_mod` statement is written in upper case."""
    from psyclone.configuration import Config
    from psyclone.parse.algorithm import parse
    from psyclone.psyGen import PSyFactory
    base = os.path.join(common.REPO, "src", "psyclone", "tests", "test_files", "dynamo0p3")
    text = open(os.path.join(base, alg)).read()
    new = re.sub(r"(?im)^(\s*use\s+)(testkern_w3_mod)\b", lambda m: m.group(1) + m.group(2).upper(), text)
    if new == text:
        raise common.Infra("could not upper-case the kernel `use` statement of " + alg)
    tmp = tempfile.mkdtemp(prefix="c29-alg-")
    try:
        path = os.path.join(tmp, "alg_upper.f90")
        with open(path, "w") as fh:
            fh.write(new)
        Config.get().api = "dynamo0.3"
        _, info = parse(path, api="dynamo0.3", kernel_paths=[base])
        psy = PSyFactory("dynamo0.3", distributed_memory=False).create(info)
    finally:
        shutil.rmtree(tmp, ignore_errors=True)
    return psy, psy.invokes.invoke_list[0]


class Pool:
    """Re-usable transformed kernels, keyed by (base, kernel version, slot)."""

    def __init__(self):
        self.boxes = {}
        self.rebuilt = 0
        self.built = 0

    def get(self, base, k, slot, fresh=False):
        key = (base, k, slot)
        box = self.boxes.get(key)
        if box is not None and (fresh or (box.dirty and not box.restore())):
            box = None
            self.rebuilt += 1
        if box is None:
            box = Box(base, k)
            self.built += 1
            self.boxes[key] = box
        return box


def mod_stem(base, tag):
    """Module name (= file stem) for base id `base` carrying suffix `tag` (None = original name)."""
    name = NAMES[base]
    return f"{name}_mod" if tag is None else f"{name}_{tag}_mod"


def routine_name(base, tag):
    name = NAMES[base].lower()
    return f"{name}_code" if tag is None else f"{name}_{tag}_code"


def parse_stem(stem):
    """'testkern_3_mod' -> (1, 3); 'testkern_mod' -> (1, None); unknown -> None (letter case ignored)."""
    for b in (3, 4, 1, 2):
        m = re.fullmatch(re.escape(NAMES[b]) + r"(?:_(\d+))?_mod", stem, re.I)
        if m:
            return b, (int(m.group(1)) if m.group(1) is not None else None)
    return None


def canon_text(text):
    """Canonical view of a kernel file: 'E' (empty), ('junk',) or
    (kernel version, module name, [routine names])."""
    if text == "":
        return "E"
    m = re.search(r"^\s*module\s+(\w+)", text, re.I | re.M)
    k = re.search(r"c29_marker_(\d+)", text)
    subs = re.findall(r"^\s*subroutine\s+(\w+)", text, re.I | re.M)
    if not m or not k:
        return ("junk",)
    return (int(k.group(1)), m.group(1).lower(), [s.lower() for s in subs])


# --------------------------------------------------------------------------------------------
# the controller
# --------------------------------------------------------------------------------------------
class _OsProxy:
    """Stands in for the `os` module inside psyclone.psyGen: logs open/write/close per run."""

    def __init__(self, ctl):
        self._ctl = ctl
        self._fds = {}

    def __getattr__(self, name):
        return getattr(os, name)

    def open(self, path, flags, *a, **kw):      # noqa: A003
        r = self._ctl.current()
        try:
            fd = os.open(path, flags, *a, **kw)
        except OSError as e:
            self._ctl.log.append(("open-failed", r, os.path.basename(path).lower(), type(e).__name__))
            raise
        self._fds[fd] = os.path.basename(path).lower()
        self._ctl.log.append(("created", r, os.path.basename(path).lower()))
        return fd

    def write(self, fd, data):
        self._ctl.log.append(("write", self._ctl.current(), self._fds.get(fd, "?"), len(data)))
        return os.write(fd, data)

    def close(self, fd):
        self._ctl.log.append(("close", self._ctl.current(), self._fds.pop(fd, "?")))
        return os.close(fd)


class Experiment:
    """runs: list of dicts {mode: 'multiple'|'single', base, kern}; fs0: list of
    {base, idx, kind: 'empty'|'junk'|'render', kern?}; sched: list of run ids."""

    def __init__(self, pool, runs, fs0, sched, fresh=False):
        self.pool, self.runs, self.fs0, self.sched, self.fresh = pool, runs, fs0, sched, fresh
        self.n = len(runs)
        self.log = []
        self.ids = {}
        self.at = [None] * self.n
        self.count = [0] * self.n
        self.outcome = [None] * self.n
        self.go = [threading.Semaphore(0) for _ in range(self.n)]
        self.arrived = threading.Semaphore(0)
        self.trace = []

    def current(self):
        return self.ids.get(threading.get_ident(), -1)

    # called from run threads -------------------------------------------------
    def _callback(self, label, *info):
        r = self.ids.get(threading.get_ident())
        if r is None:
            return
        self.count[r] += 1
        if self.count[r] > MAX_PAUSES:
            raise Abort()
        self.at[r] = (label,) + tuple(info)
        self.arrived.release()
        self.go[r].acquire()

    def _body(self, r, kern):
        from psyclone.errors import GenerationError
        self.ids[threading.get_ident()] = r
        try:
            kern.rename_and_write()
            out = ("ok",)
        except GenerationError as e:
            out = ("GenerationError", str(e.value)[:80])
        except Abort:
            out = ("diverged",)
        except BaseException as e:      # noqa: BLE001
            out = ("exception", repr(e)[:200])
        self.outcome[r] = out
        self.at[r] = ("done",)
        self.arrived.release()

    # controller side -----------------------------------------------------------
    def _wait(self):
        if not self.arrived.acquire(timeout=WAIT):
            raise common.Infra("a run thread did not reach a pause point or finish within %d s" % WAIT)

    def _release(self, r):
        from psyclone.configuration import Config
        Config.get()._kernel_naming = self.runs[r]["mode"]
        self.go[r].release()
        self._wait()

    def execute(self):
        """Returns the observation dict."""
        from psyclone.configuration import Config
        from psyclone import psyGen
        hk = hooks()
        boxes = []
        slots = {}
        for r, run in enumerate(self.runs):
            key = (run["base"], run["kern"])
            slots[key] = slots.get(key, getattr(self, "slot0", 0) - 1) + 1
            boxes.append(self.pool.get(run["base"], run["kern"], slots[key], fresh=self.fresh))
        pre = {}
        for f in self.fs0:
            text = {"empty": "", "junk": JUNK_TEXT}.get(f["kind"])
            if text is None:
                text = pre_render(self.pool, f["base"], f["kern"], f["idx"])
            pre[mod_stem(f["base"], f["idx"]) + ".f90"] = text
        outdir = scratch_dir()
        cfg = Config.get()
        saved = (cfg._kernel_output_dir, cfg._kernel_naming)
        try:
            for name, text in pre.items():
                with open(os.path.join(outdir, name), "w") as fh:
                    fh.write(text)
            cfg._kernel_output_dir = outdir
            for b in boxes:
                b.dirty = True
            proxy = _OsProxy(self)
            psyGen.os = proxy

            def logging_open(path, *a, **kw):
                size = os.path.getsize(path) if os.path.exists(path) else -1
                self.log.append(("read", self.current(), os.path.basename(path).lower(), size))
                return open(path, *a, **kw)
            psyGen.open = logging_open
            hk.register(self._callback)
            threads = []
            try:
                for r in range(self.n):
                    cfg._kernel_naming = self.runs[r]["mode"]
                    t = threading.Thread(target=self._body, args=(r, boxes[r].kern), daemon=True)
                    threads.append(t)
                    t.start()
                    self._wait()
                for r in self.sched:
                    self.trace.append(self.at[r])
                    if self.at[r] != ("done",):
                        self._release(r)
                unfinished = [r for r in range(self.n) if self.at[r] != ("done",)]
                # drain: let every unfinished run complete, one after the other
                for r in unfinished:
                    while self.at[r] != ("done",):
                        self._release(r)
                for t in threads:
                    t.join(timeout=WAIT)
            finally:
                hk.register(None)
                psyGen.os = os
                if "open" in vars(psyGen):
                    del psyGen.open
            files = {}
            for name in sorted(os.listdir(outdir)):
                with open(os.path.join(outdir, name)) as fh:
                    files[name] = fh.read()
            self.kept_text = files.get(getattr(self, "keep_text", None))
            obs = {
                "outcome": [list(o) for o in self.outcome],
                "module_name": [b.kern.module_name for b in boxes],
                "routine_name": [b.kern.name for b in boxes],
                "modified": [bool(b.kern.modified) for b in boxes],
                # file names are reported in lower case (module names are case-insensitive)
                "files": {n.lower(): canon_text(t) for n, t in files.items()},
                "pre_unchanged": all(files.get(n) == t for n, t in pre.items()),
                "pre": sorted(n.lower() for n in pre),
                "log": [list(e) for e in self.log],
                "trace": [list(t) for t in self.trace],
                "unfinished_after_schedule": unfinished,
            }
            if self.fresh:
                uses = []
                for r, b in enumerate(boxes):
                    if self.outcome[r] == ("ok",):
                        try:
                            cfg.api = b.api
                            gen = str(b.psy.gen).lower()
                        except Exception as e:      # noqa: BLE001
                            gen = "psy.gen failed: " + repr(e)
                        uses.append(sorted(set(re.findall(
                            r"use\s+(\w+)\s*,\s*only\s*:\s*(\w+_code)\b", gen))))
                    else:
                        uses.append(None)
                obs["psy_use"] = uses
                # a second generation may have written further files: record the directory again
                obs["files_after_gen"] = sorted(os.listdir(outdir))
            return obs
        finally:
            cfg._kernel_output_dir, cfg._kernel_naming = saved
            scratch_dir()


_PRE = {}
_SCRATCH = []


def scratch_dir():
    """One scratch kernel-output directory per process (creating/removing a directory per experiment is
    slow on this file system); emptied before and after every experiment, removed by `cleanup()`."""
    if not _SCRATCH:
        _SCRATCH.append(tempfile.mkdtemp(prefix="c29-kernout-"))
    d = _SCRATCH[0]
    for name in os.listdir(d):
        os.unlink(os.path.join(d, name))
    return d


def cleanup():
    while _SCRATCH:
        shutil.rmtree(_SCRATCH.pop(), ignore_errors=True)


def pre_render(pool, base, k, idx):
    """Text that a completed earlier run with kernel version k would have left in <base>_<idx>_mod.f90: obtained
    from the real code (one run into the empty scratch directory, under the same thread/abort protection as
    every other run), with the suffix 0 replaced by idx."""
    key = (base, k, idx)
    if key in _PRE:
        return _PRE[key]
    if (base, k, 0) not in _PRE:
        exp = Experiment(pool, [{"mode": "multiple", "base": base, "kern": k}], [], [0] * MAX_PAUSES)
        exp.slot0 = 9
        exp.keep_text = mod_stem(base, 0) + ".f90"
        exp.execute()
        text = exp.kept_text
        if not text:
            # the tree under test does not even write a single kernel into an empty directory; the scenarios
            # without pre-existing files report that.  Use a stand-in so that the check can go on.
            text = (f"module {mod_stem(base, 0)}\ncontains\nsubroutine {routine_name(base, 0)}()\n"
                    f"integer :: c29_marker_{k}\nend subroutine\nend module\n")
        _PRE[(base, k, 0)] = text
    name = mod_stem(base, 0)[:-len("_0_mod")]
    text = _PRE[(base, k, 0)]
    text = re.sub("(" + re.escape(name) + r")_0_(mod|code)\b", lambda m: f"{m.group(1)}_{idx}_{m.group(2)}", text,
                  flags=re.I)
    _PRE[key] = text
    return text



