"""C17 helpers: integer expression trees (nested tuples = the IExpr of Model/SymMaths.lean plus a few
python-only nodes), seeded generators, PSyIR builders/readers, Fortran-semantics evaluator."""
import itertools

VARS = ["i", "j", "n"]
ARR1 = ["a", "c"]
ARR2 = ["b"]
ARR3 = ["t"]
GRID = range(-6, 7)

# ---------------------------------------------------------------------------------------------
# tree utilities.  Nodes: ("lit",k) ("var",v) ("neg",a) ("add",a,b) ("sub",a,b) ("mul",a,b) ("div",a,b)
# ("pow",a,k) ("mod",a,b) ("min",a,b) ("max",a,b) ("arr1",f,i) ("arr2",f,i,j); python-only: ("powe",a,b)
BIN = ("add", "sub", "mul", "div", "mod", "min", "max", "powe")


def kids(e):
    t = e[0]
    if t in ("lit", "var"):
        return []
    if t == "neg":
        return [e[1]]
    if t == "pow":
        return [e[1]]
    if t == "arr1":
        return [e[2]]
    if t == "arr2":
        return [e[2], e[3]]
    if t == "arr3":
        return [e[2], e[3], e[4]]
    return [e[1], e[2]]


def size(e):
    return 1 + sum(size(k) for k in kids(e))


def walk(e):
    yield e
    for k in kids(e):
        yield from walk(k)


def variables(e):
    return sorted({x[1] for x in walk(e) if x[0] == "var"})


def ops(e):
    return {x[0] for x in walk(e)}


def left_nested_pow(e):
    return any(x[0] == "pow" and x[1][0] == "pow" for x in walk(e)) or \
        any(x[0] == "powe" and x[1][0] in ("pow", "powe") for x in walk(e)) or \
        any(x[0] == "pow" and x[1][0] == "powe" for x in walk(e))


def classes(*es):
    """Defect classes (the classifiers of the known findings) an input belongs to."""
    out = set()
    for e in es:
        o = ops(e)
        if "div" in o:
            out.add("C17-integer-division")
        if "mod" in o:
            out.add("C17-mod-sign")
        if "powe" in o:
            out.add("C17-negative-exponent")
    return out


def lean_ok(e):
    """expressible in the Lean IExpr (every node is, since `powe` and `arr3` were added to the model)"""
    return True


def degree(e, brk):
    """upper bound of the polynomial degree of the translated expression (keeps SymPy / normQ cheap)"""
    t = e[0]
    if t == "lit":
        return 0
    if t == "var":
        return 1
    if t in ("arr1", "arr2", "arr3", "min", "max", "mod", "powe"):
        return 1 + max(degree(k, brk) for k in kids(e))
    if t == "neg":
        return degree(e[1], brk)
    if t in ("add", "sub"):
        return max(degree(e[1], brk), degree(e[2], brk))
    if t in ("mul", "div"):
        return degree(e[1], brk) + degree(e[2], brk)
    if t == "pow":
        if not brk and e[1][0] == "pow":
            # a ** k ** m is read as a ** (k ** m)
            chain, x = [e[2]], e[1]
            while x[0] == "pow":
                chain.append(x[2])
                x = x[1]
            # chain = [m, k, ...] outermost first; value k_inner ^ ( ... ^ m)
            acc = chain[0]
            for k in chain[1:]:
                acc = k ** acc if acc < 8 else 99
            return degree(x, brk) * acc
        return degree(e[1], brk) * e[2]
    return 99


def sexp(e):
    t = e[0]
    if t in ("lit", "var"):
        return f"({t} {e[1]})"
    if t == "pow":
        return f"(pow {sexp(e[1])} {e[2]})"
    if t == "arr1":
        return f"(arr1 {e[1]} {sexp(e[2])})"
    if t == "arr2":
        return f"(arr2 {e[1]} {sexp(e[2])} {sexp(e[3])})"
    if t == "arr3":
        return f"(arr3 {e[1]} {sexp(e[2])} {sexp(e[3])} {sexp(e[4])})"
    return "(" + t + " " + " ".join(sexp(k) for k in kids(e)) + ")"


def fortran(e):
    """fully parenthesised Fortran text (only for reports / replay readability)"""
    t = e[0]
    if t == "lit":
        return str(e[1]) if e[1] >= 0 else f"({e[1]})"
    if t == "var":
        return VARS[e[1]]
    if t == "neg":
        return f"(-{fortran(e[1])})"
    if t == "pow":
        return f"({fortran(e[1])}**{e[2]})"
    if t == "powe":
        return f"({fortran(e[1])}**{fortran(e[2])})"
    if t == "arr1":
        return f"{ARR1[e[1]]}({fortran(e[2])})"
    if t == "arr2":
        return f"{ARR2[e[1]]}({fortran(e[2])},{fortran(e[3])})"
    if t == "arr3":
        return f"{ARR3[e[1]]}({fortran(e[2])},{fortran(e[3])},{fortran(e[4])})"
    if t in ("mod", "min", "max"):
        return f"{t}({fortran(e[1])},{fortran(e[2])})"
    sym = {"add": "+", "sub": "-", "mul": "*", "div": "/"}[t]
    return f"({fortran(e[1])} {sym} {fortran(e[2])})"


# ---------------------------------------------------------------------------------------------
# Fortran integer semantics
class Undefined(Exception):
    pass


class TooBig(Undefined):
    """valuation skipped only because the power would be astronomically large"""


def tdiv(a, b):
    if b == 0:
        raise Undefined()
    q = abs(a) // abs(b)
    return q if (a >= 0) == (b >= 0) else -q


def tmod(a, b):
    return a - b * tdiv(a, b)


def f1_poly(f, z):
    return (f + 2) * z * z - 3 * z + f + 1


def f2_poly(f, y, z):
    return (f + 1) * y - 2 * z * y + z + f


def f3_poly(f, x, y, z):
    return (f + 1) * x + 2 * y * z - 3 * z + x * y + f


def f3_hash(f, x, y, z):
    return ((x * 2654435761 + y * 2246822519 + z * 3266489917 + f * 40503 + 31) >> 8) % 23 - 11


def f1_hash(f, z):
    return ((z * 2654435761 + f * 40503 + 12345) >> 7) % 23 - 11


def f2_hash(f, y, z):
    return ((y * 2654435761 + z * 2246822519 + f * 40503 + 977) >> 9) % 23 - 11


INTERP = [(f1_poly, f2_poly, f3_poly), (f1_hash, f2_hash, f3_hash)]


def evalF(e, env, interp=INTERP[0]):
    """Fortran value of e; env: list indexed by variable id.  Raises Undefined on a zero divisor /
    0**negative."""
    t = e[0]
    if t == "lit":
        return e[1]
    if t == "var":
        return env[e[1]]
    if t == "neg":
        return -evalF(e[1], env, interp)
    if t == "pow":
        return evalF(e[1], env, interp) ** e[2]
    if t == "arr1":
        return interp[0](e[1], evalF(e[2], env, interp))
    if t == "arr2":
        return interp[1](e[1], evalF(e[2], env, interp), evalF(e[3], env, interp))
    if t == "arr3":
        return interp[2](e[1], evalF(e[2], env, interp), evalF(e[3], env, interp), evalF(e[4], env, interp))
    a = evalF(e[1], env, interp)
    b = evalF(e[2], env, interp)
    if t == "add":
        return a + b
    if t == "sub":
        return a - b
    if t == "mul":
        return a * b
    if t == "div":
        return tdiv(a, b)
    if t == "mod":
        if b == 0:
            raise Undefined()
        return tmod(a, b)
    if t == "min":
        return min(a, b)
    if t == "max":
        return max(a, b)
    if t == "powe":
        if b > 4096 and abs(a) > 1:
            raise TooBig()             # astronomically large: skip the valuation
        if b >= 0:
            return a ** b
        if a == 0:
            raise Undefined()
        return tdiv(1, a ** (-b))
    raise ValueError(t)


def evalQ_py(e, env, interp=INTERP[0]):
    """value of e over the rationals, the way SymPy reads a faithfully translated tree: exact division, floored
    Mod, rational powers with integer exponents, arrays like `liftEnv`.  Raises Undefined (zero divisor, ...)."""
    from fractions import Fraction
    t = e[0]
    if t == "lit":
        return Fraction(e[1])
    if t == "var":
        return Fraction(env[e[1]])
    if t == "neg":
        return -evalQ_py(e[1], env, interp)
    if t == "pow":
        return evalQ_py(e[1], env, interp) ** e[2]
    if t == "arr1":
        z = evalQ_py(e[2], env, interp)
        return Fraction(interp[0](e[1], int(z))) if z.denominator == 1 else Fraction(0)
    if t == "arr2":
        y, z = evalQ_py(e[2], env, interp), evalQ_py(e[3], env, interp)
        return Fraction(interp[1](e[1], int(y), int(z))) if y.denominator == 1 and z.denominator == 1 else Fraction(0)
    if t == "arr3":
        x, y, z = (evalQ_py(k, env, interp) for k in kids(e))
        if x.denominator == 1 and y.denominator == 1 and z.denominator == 1:
            return Fraction(interp[2](e[1], int(x), int(y), int(z)))
        return Fraction(0)
    a, b = evalQ_py(e[1], env, interp), evalQ_py(e[2], env, interp)
    if t == "add":
        return a + b
    if t == "sub":
        return a - b
    if t == "mul":
        return a * b
    if t == "div":
        if b == 0:
            raise Undefined()
        return a / b
    if t == "mod":
        if b == 0:
            raise Undefined()
        return a - b * ((a / b).__floor__())
    if t == "min":
        return min(a, b)
    if t == "max":
        return max(a, b)
    if t == "powe":
        if b.denominator != 1 or (a == 0 and b <= 0) or abs(b) > 64:
            raise Undefined()
        return a ** int(b)
    raise Undefined()


def ratdef(e, env):
    """True iff e has a value over the rationals (no zero divisor, moderate exponents) and no array access"""
    if {"arr1", "arr2", "arr3"} & ops(e):
        return False
    try:
        evalQ_py(e, env)
        return True
    except (Undefined, ZeroDivisionError, OverflowError):
        return False


def grid(nvars):
    return itertools.product(GRID, repeat=nvars)


def find_difference(e1, e2, want_equal, subst=None):
    """Search the grid [-6,6]^vars (two array interpretations) for a valuation on which the claim fails:
    want_equal=True: claim 'always equal' fails where values differ; False: claim 'never equal' fails
    where the values coincide.  Valuations on which either side is undefined are skipped.
    Returns None or {"env":…, "interp":k, "v1":…, "v2":…}."""
    vs = sorted(set(variables(e1)) | set(variables(e2)))
    has_arr = bool({"arr1", "arr2", "arr3"} & (ops(e1) | ops(e2)))
    for k, interp in enumerate(INTERP if has_arr else INTERP[:1]):
        for vals in grid(len(vs)):
            env = [0] * len(VARS)
            for v, z in zip(vs, vals):
                env[v] = z
            try:
                v1 = evalF(e1, env, interp)
                v2 = evalF(e2, env, interp)
            except Undefined:
                continue
            if (v1 != v2) if want_equal else (v1 == v2):
                return {"env": {VARS[v]: env[v] for v in vs}, "interp": k, "v1": v1, "v2": v2}
    return None


# ---------------------------------------------------------------------------------------------
# generators (all randomness from the rng passed in)
def gen_atom(rng, nv=3):
    r = rng.random()
    if r < 0.6:
        return ("var", rng.randrange(nv))
    return ("lit", rng.choice([0, 1, 1, 2, 2, 3, 4, 5, 7]))


def gen_poly(rng, budget, nv=3):
    """polynomial fragment: + - * unary minus ** (literal exponent)"""
    if budget <= 1:
        return gen_atom(rng, nv)
    r = rng.random()
    if r < 0.12:
        return ("neg", gen_poly(rng, budget - 1, nv))
    if r < 0.24:
        return ("pow", gen_poly(rng, min(budget - 1, 4), nv), rng.choice([0, 1, 2, 2, 2, 3]))
    op = rng.choice(["add", "add", "sub", "sub", "mul", "mul"])
    left = rng.randint(1, budget - 2) if budget > 2 else 1
    return (op, gen_poly(rng, left, nv), gen_poly(rng, max(1, budget - 1 - left), nv))


def gen_ext(rng, budget, nv=3, pw=None):
    """all operators of the property"""
    if budget <= 1:
        return gen_atom(rng, nv)
    pw = pw or {}
    r = rng.random()
    if r < 0.08:
        return ("neg", gen_ext(rng, budget - 1, nv, pw))
    if r < 0.16:
        return ("pow", gen_ext(rng, min(budget - 1, 4), nv, pw), rng.choice([0, 1, 2, 2, 3]))
    if r < 0.26 and budget >= 2:
        return ("arr1", rng.randrange(len(ARR1)), gen_ext(rng, min(budget - 1, 4), nv, pw))
    if r < 0.30 and budget >= 3:
        left = rng.randint(1, budget - 2)
        return ("arr2", 0, gen_ext(rng, min(left, 3), nv, pw), gen_ext(rng, min(max(1, budget - 1 - left), 3), nv, pw))
    if r < 0.315 and budget >= 4:
        return ("arr3", 0, gen_ext(rng, 1, nv, pw), gen_ext(rng, min(budget - 3, 2), nv, pw), gen_ext(rng, 1, nv, pw))
    if r < 0.335 and budget >= 3:
        return ("powe", ("lit", rng.choice([2, 3])) if rng.random() < 0.6 else gen_atom(rng, nv), gen_ext(rng, min(budget - 2, 3), nv, pw))
    op = rng.choice(["add", "add", "sub", "sub", "mul", "mul", "div", "div", "mod", "min", "max"])
    left = rng.randint(1, budget - 2) if budget > 2 else 1
    a = gen_ext(rng, left, nv, pw)
    b = gen_ext(rng, max(1, budget - 1 - left), nv, pw)
    if op in ("div", "mod") and rng.random() < 0.7:
        b = ("lit", rng.choice([1, 2, 2, 3, 4]))
    return (op, a, b)


def rewrite(rng, e, depth=0):
    """a value-preserving (over Z, without / and MOD) rewriting of e: commutation, re-association, double
    negation, a-b -> a+(-b), distribution, x**2 -> x*x, min/max commutation; never touches / or MOD operands
    except recursively."""
    t = e[0]
    if t in ("lit", "var"):
        r = rng.random()
        if r < 0.08:
            return ("neg", ("neg", e))
        if r < 0.14:
            return ("mul", ("lit", 1), e)
        if r < 0.2:
            return ("add", e, ("lit", 0))
        return e
    if t == "neg":
        a = rewrite(rng, e[1], depth + 1)
        if a[0] == "sub" and rng.random() < 0.5:
            return ("sub", a[2], a[1])
        if rng.random() < 0.3:
            return ("mul", ("neg", ("lit", 1)), a)
        return ("neg", a)
    if t == "pow":
        a = rewrite(rng, e[1], depth + 1)
        if e[2] == 2 and rng.random() < 0.5:
            return ("mul", a, rewrite(rng, e[1], depth + 1))
        if e[2] == 3 and rng.random() < 0.3:
            return ("mul", a, ("pow", rewrite(rng, e[1], depth + 1), 2))
        return ("pow", a, e[2])
    if t == "arr1":
        return ("arr1", e[1], rewrite(rng, e[2], depth + 1))
    if t == "arr2":
        return ("arr2", e[1], rewrite(rng, e[2], depth + 1), rewrite(rng, e[3], depth + 1))
    if t == "arr3":
        return ("arr3", e[1], rewrite(rng, e[2], depth + 1), rewrite(rng, e[3], depth + 1), rewrite(rng, e[4], depth + 1))
    if t == "powe":
        return ("powe", e[1], rewrite(rng, e[2], depth + 1))
    a, b = rewrite(rng, e[1], depth + 1), rewrite(rng, e[2], depth + 1)
    r = rng.random()
    if t == "add":
        if r < 0.4:
            return ("add", b, a)
        if r < 0.55:
            return ("sub", a, ("neg", b))
        return ("add", a, b)
    if t == "sub":
        if r < 0.35:
            return ("add", a, ("neg", b))
        if r < 0.5:
            return ("neg", ("sub", b, a))
        return ("sub", a, b)
    if t == "mul":
        if r < 0.3:
            return ("mul", b, a)
        if r < 0.6 and b[0] in ("add", "sub"):
            return (b[0], ("mul", a, b[1]), ("mul", a, b[2]))
        if r < 0.8 and a[0] in ("add", "sub"):
            return (a[0], ("mul", a[1], b), ("mul", a[2], b))
        return ("mul", a, b)
    if t in ("min", "max"):
        if r < 0.5:
            return (t, b, a)
        return (t, a, b)
    return (t, a, b)   # div, mod: keep operand order


def gen_pair(rng, ext, max_nodes=12):
    """(e1, e2, kind): e2 is a rewriting of e1 (kind 'same'), a rewriting shifted by a non-zero constant
    ('shift'), shifted by a variable term ('drift'), or independent ('indep')."""
    gen = gen_ext if ext else gen_poly
    for _ in range(200):
        e1 = gen(rng, rng.randint(2, 9))
        r = rng.random()
        if r < 0.4:
            e2, kind = rewrite(rng, e1), "same"
        elif r < 0.7:
            c = ("lit", rng.choice([1, 1, 2, 3, 5]))
            e2 = (rng.choice(["add", "sub"]), rewrite(rng, e1), c)
            if rng.random() < 0.3:
                e2 = ("add", c, rewrite(rng, e1))
            kind = "shift"
        elif r < 0.85:
            e2, kind = ("add", rewrite(rng, e1), ("var", rng.randrange(3))), "drift"
        else:
            e2, kind = gen(rng, rng.randint(1, 8)), "indep"
        if rng.random() < 0.5:
            e1, e2 = e2, e1
        if size(e1) <= max_nodes and size(e2) <= max_nodes and \
                max(degree(e1, False), degree(e2, False), degree(e1, True), degree(e2, True)) <= 6:
            return e1, e2, kind
    return ("var", 0), ("var", 0), "same"


def gen_nested_pow_pair(rng):
    """pairs around a left-nested power (x**k)**m, literal and symbolic exponents: the right reading x**(k*m), the
    wrong reading x**(k**m), shifted variants (never_equal) and embeddings in a larger polynomial"""
    r = rng.random()
    if r < 0.6:
        x = rng.choice([("var", rng.randrange(3)), ("var", rng.randrange(3)),
                        ("add", ("var", rng.randrange(3)), ("lit", rng.choice([1, 2]))),
                        ("neg", ("var", rng.randrange(3))), ("mul", ("lit", 2), ("var", rng.randrange(3)))])
        k, m = rng.choice([(2, 3), (3, 2), (2, 2), (2, 3), (3, 2), (1, 2), (2, 1), (3, 1)])
        lhs = ("pow", ("pow", x, k), m)
        right, wrong = ("pow", x, k * m), ("pow", x, k ** m)
        if rng.random() < 0.25:
            lhs = ("pow", lhs, 1)          # three levels
    else:
        base = rng.choice([("lit", 2), ("lit", 3), ("var", 0), ("var", 2)])
        j, k = ("var", 1), rng.choice([("var", 2), ("var", 0), ("lit", 2), ("lit", 3)])
        inner = ("powe", base, j)
        lhs = ("pow", inner, k[1]) if k[0] == "lit" else ("powe", inner, k)
        right, wrong = ("powe", base, ("mul", j, k)), ("powe", base, ("powe", j, k) if k[0] != "lit" else ("pow", j, k[1]))
    rhs = right if rng.random() < 0.5 else wrong
    r = rng.random()
    c = ("lit", rng.choice([1, 2, 3]))
    if r < 0.35:
        lhs = ("add", lhs, c)              # never_equal candidates
    elif r < 0.5:
        y = ("var", rng.randrange(3))
        lhs, rhs = ("mul", lhs, y), ("mul", y, rhs)
    elif r < 0.6:
        rhs = ("sub", rhs, c)
    if rng.random() < 0.5:
        lhs, rhs = rhs, lhs
    return lhs, rhs, "nestedpow"


def gen_nested_pow_expr(rng):
    """expressions to expand that contain a left-nested power"""
    e1, e2, _ = gen_nested_pow_pair(rng)
    e = e1 if left_nested_pow(e1) else e2
    y = ("add", ("var", rng.randrange(3)), ("lit", 1))
    return rng.choice([e, ("mul", e, y), ("mul", y, e), ("sub", e, y)])


def gen_fraction_pair(rng):
    """pairs with integer division by a literal d whose difference over the rationals is a constant k/d: non-integer
    (d does not divide k: the code must NOT claim never-equal), a non-zero integer, or symbolic"""
    d = rng.choice([2, 2, 3, 3, 4, 5])
    e = rng.choice([("var", rng.randrange(3)), ("var", rng.randrange(3)),
                    ("add", ("var", 0), ("var", 1)), ("mul", ("lit", rng.choice([2, 3])), ("var", rng.randrange(3))),
                    ("sub", ("var", 2), ("var", 0)), ("pow", ("var", rng.randrange(3)), 2)])
    r = rng.random()
    if r < 0.6:
        k = rng.choice([x for x in range(1, 3 * d) if x % d != 0])
        kind = "frac-noninteger"
    elif r < 0.85:
        k = d * rng.choice([1, 2])
        kind = "frac-integer"
    else:
        k, kind = None, "frac-symbolic"
    off = ("lit", k) if k is not None else ("var", rng.randrange(3))
    D = ("lit", d)
    form = rng.randrange(4)
    if form == 0:        # e/d   vs  (e+k)/d
        lhs, rhs = ("div", e, D), ("div", ("add", e, off), D)
    elif form == 1:      # (d*e+k)/d  vs  e
        lhs, rhs = ("div", ("add", ("mul", D, e), off), D), e
    elif form == 2:      # e/d + c  vs  (e+k)/d
        lhs, rhs = ("add", ("div", e, D), ("lit", rng.choice([1, 2]))), ("div", ("add", e, off), D)
    else:                # (e-k)/d  vs  e/d
        lhs, rhs = ("div", ("sub", e, off), D), ("div", rewrite(rng, e), D)
    if rng.random() < 0.5:
        lhs, rhs = rhs, lhs
    return lhs, rhs, kind


def gen_minmax_pair(rng):
    """pairs whose verdict hinges on MIN/MAX being translated to Min/Max"""
    e = gen_poly(rng, rng.randint(1, 4))
    c = ("lit", rng.choice([1, 2, 3]))
    big = ("add", e, c)
    which = rng.choice(["max", "min"])
    lhs = (which, e, big) if rng.random() < 0.5 else (which, big, e)
    rhs = rewrite(rng, big if which == "max" else e)
    if rng.random() < 0.3:
        rhs = rewrite(rng, e if which == "max" else big)   # the wrong one: differs by c -> never equal
    return lhs, rhs, "minmax"


def gen_multi_eq(rng):
    """equations in at least two of the variables, to be solved for each of them in turn (call histories)"""
    i, j, n = ("var", 0), ("var", 1), ("var", 2)
    c = ("lit", rng.choice([1, 2, 3, 4]))
    d = ("lit", rng.choice([1, 2, 3, 5]))
    r = rng.random()
    if r < 0.3:      # bilinear: i*j + n = n + c*j   (i = c, or j = 0)
        x, y, z = rng.sample([i, j, n], 3)
        e1, e2 = ("add", ("mul", x, y), z), ("add", z, ("mul", c, y))
    elif r < 0.6:    # linear in everything
        x, y, z = rng.sample([i, j, n], 3)
        e1 = ("add", ("mul", c, x), rng.choice([y, ("mul", d, y), ("neg", y)]))
        e2 = rng.choice([z, ("add", z, d), d, ("sub", d, x)])
    elif r < 0.8:    # linear in one, quadratic in another
        x, y = rng.sample([i, j, n], 2)
        e1, e2 = ("add", x, ("mul", y, y)), ("add", ("mul", c, y), d)
    else:
        while True:
            e1, e2 = gen_linear_eq(rng, ext=False)
            if len(set(variables(e1)) | set(variables(e2))) >= 2:
                break
    if rng.random() < 0.5:
        e1, e2 = e2, e1
    return e1, e2


def gen_linear_eq(rng, ext):
    """equation e1 = e2 to be solved for variable 0 ('i'); mostly linear in i with constant coefficient"""
    x = ("var", 0)

    def free(budget):
        g = gen_ext if ext else gen_poly
        for _ in range(50):
            e = g(rng, budget, 3)
            if 0 not in variables(e) and degree(e, False) <= 3:
                return e
        return ("var", 1)
    r = rng.random()
    a = ("lit", rng.choice([1, 1, 1, 2, 3, 4]))
    lin = rng.choice([x, ("mul", a, x), ("mul", x, a), ("neg", x), ("add", x, ("mul", a, x))])
    if r < 0.7:
        e1 = (rng.choice(["add", "sub"]), lin, free(rng.randint(1, 4)))
        e2 = free(rng.randint(1, 4))
        if rng.random() < 0.3:
            e2 = ("add", e2, x)
    elif r < 0.78:
        e1, e2 = ("add", x, free(2)), ("add", free(2), x)        # independent / empty
    elif r < 0.84:
        e1, e2 = ("mul", x, ("add", x, free(1))), free(2)        # quadratic
    elif ext and r < 0.93:
        # the unknown appears in an exponent / under MOD: SymPy answers with an ImageSet, a Union, a ConditionSet ...
        base = ("lit", rng.choice([2, 3]))
        px = ("powe", base, rng.choice([x, ("add", x, ("lit", 1)), lin]))
        c = ("lit", rng.choice([1, 2, 4, 8, 9]))
        e1, e2 = rng.choice([(px, c), (("mul", x, ("sub", px, c)), ("lit", 0)), (("mul", px, ("lit", 2)), ("powe", base, ("add", x, ("lit", 1)))),
                             (("mod", lin, ("lit", rng.choice([2, 3]))), ("lit", 1)),
                             (("mul", ("sub", x, ("lit", 1)), ("sub", px, c)), ("lit", 0))])
    elif ext and r < 0.96:
        # the unknown appears in an array subscript: SymPy answers with a ConditionSet
        f = rng.randrange(len(ARR1))
        e1 = ("arr1", f, lin)
        e2 = ("arr1", f, ("add", lin, ("lit", rng.choice([0, 1, 2]))))
    else:
        e1 = ("div", ("add", lin, free(2)), ("lit", rng.choice([2, 3]))) if ext else ("mul", lin, free(2))
        e2 = free(2)
    if rng.random() < 0.5:
        e1, e2 = e2, e1
    return e1, e2


# ---------------------------------------------------------------------------------------------
# PSyIR construction and reading
class Builder:
    """Builds PSyIR expressions (with the node factories) inside one Routine whose symbol table declares
    i, j, n (integer scalars), a, c (rank-1) and b (rank-2 integer arrays)."""

    def __init__(self, names=None):
        from psyclone.psyir.nodes import Routine
        self.names = list(names or VARS)     # Fortran names of the variables 0,1,2 (e.g. a Python keyword)
        from psyclone.psyir.symbols import DataSymbol, INTEGER_TYPE, ArrayType
        self.routine = Routine("c17")
        st = self.routine.symbol_table
        self.sym = {}
        for v in self.names + ["lhs_target"]:
            self.sym[v] = st.new_symbol(v, symbol_type=DataSymbol, datatype=INTEGER_TYPE)
        for a in ARR1:
            self.sym[a] = st.new_symbol(a, symbol_type=DataSymbol, datatype=ArrayType(INTEGER_TYPE, [10]))
        for a in ARR2:
            self.sym[a] = st.new_symbol(a, symbol_type=DataSymbol, datatype=ArrayType(INTEGER_TYPE, [10, 10]))
        for a in ARR3:
            self.sym[a] = st.new_symbol(a, symbol_type=DataSymbol, datatype=ArrayType(INTEGER_TYPE, [10, 10, 10]))

    def node(self, e):
        from psyclone.psyir.nodes import (Literal, Reference, UnaryOperation, BinaryOperation, IntrinsicCall,
                                          ArrayReference)
        from psyclone.psyir.symbols import INTEGER_TYPE
        t = e[0]
        if t == "lit":
            if e[1] < 0:
                return UnaryOperation.create(UnaryOperation.Operator.MINUS, Literal(str(-e[1]), INTEGER_TYPE))
            return Literal(str(e[1]), INTEGER_TYPE)
        if t == "var":
            return Reference(self.sym[self.names[e[1]]])
        if t == "neg":
            return UnaryOperation.create(UnaryOperation.Operator.MINUS, self.node(e[1]))
        if t == "pow":
            return BinaryOperation.create(BinaryOperation.Operator.POW, self.node(e[1]),
                                          Literal(str(e[2]), INTEGER_TYPE))
        if t == "arr1":
            return ArrayReference.create(self.sym[ARR1[e[1]]], [self.node(e[2])])
        if t == "arr2":
            return ArrayReference.create(self.sym[ARR2[e[1]]], [self.node(e[2]), self.node(e[3])])
        if t == "arr3":
            return ArrayReference.create(self.sym[ARR3[e[1]]], [self.node(e[2]), self.node(e[3]), self.node(e[4])])
        if t in ("mod", "min", "max"):
            intr = {"mod": IntrinsicCall.Intrinsic.MOD, "min": IntrinsicCall.Intrinsic.MIN,
                    "max": IntrinsicCall.Intrinsic.MAX}[t]
            return IntrinsicCall.create(intr, [self.node(e[1]), self.node(e[2])])
        op = {"add": BinaryOperation.Operator.ADD, "sub": BinaryOperation.Operator.SUB,
              "mul": BinaryOperation.Operator.MUL, "div": BinaryOperation.Operator.DIV,
              "powe": BinaryOperation.Operator.POW}[t]
        return BinaryOperation.create(op, self.node(e[1]), self.node(e[2]))

    def attached(self, e):
        """the expression as the right-hand side of an assignment inside the routine (expand needs a scope)"""
        from psyclone.psyir.nodes import Assignment, Reference
        asg = Assignment.create(Reference(self.sym["lhs_target"]), self.node(e))
        self.routine.addchild(asg)
        return asg

    def detach(self, asg):
        asg.detach()

    def from_text(self, text):
        from psyclone.psyir.frontend.fortran import FortranReader
        return FortranReader().psyir_from_expression(text, self.routine.symbol_table)


class Unreadable(Exception):
    pass


def read_psyir(node, names=VARS):
    """PSyIR expression -> tree.  n-ary MIN/MAX become nested binary ones; integer literal exponents become
    'pow', everything else 'powe'."""
    from psyclone.psyir.nodes import (Literal, Reference, UnaryOperation, BinaryOperation, IntrinsicCall,
                                      ArrayReference)
    if isinstance(node, Literal):
        try:
            return ("lit", int(node.value))
        except ValueError:
            raise Unreadable(node.value)
    if isinstance(node, ArrayReference):
        name = node.symbol.name.lower()
        idx = [read_psyir(c, names) for c in node.indices]
        if name in ARR1 and len(idx) == 1:
            return ("arr1", ARR1.index(name), idx[0])
        if name in ARR2 and len(idx) == 2:
            return ("arr2", ARR2.index(name), idx[0], idx[1])
        if name in ARR3 and len(idx) == 3:
            return ("arr3", ARR3.index(name), idx[0], idx[1], idx[2])
        raise Unreadable(name)
    if isinstance(node, Reference):
        name = node.symbol.name.lower()
        if name in names:
            return ("var", list(names).index(name))
        raise Unreadable(name)
    if isinstance(node, UnaryOperation):
        a = read_psyir(node.children[0], names)
        if node.operator == UnaryOperation.Operator.MINUS:
            return ("neg", a)
        if node.operator == UnaryOperation.Operator.PLUS:
            return a
        raise Unreadable(str(node.operator))
    if isinstance(node, BinaryOperation):
        O = BinaryOperation.Operator
        a, b = read_psyir(node.children[0], names), read_psyir(node.children[1], names)
        if node.operator == O.POW:
            if b[0] == "lit" and b[1] >= 0:
                return ("pow", a, b[1])
            return ("powe", a, b)
        m = {O.ADD: "add", O.SUB: "sub", O.MUL: "mul", O.DIV: "div"}
        if node.operator in m:
            return (m[node.operator], a, b)
        raise Unreadable(str(node.operator))
    if isinstance(node, IntrinsicCall):
        I = IntrinsicCall.Intrinsic
        m = {I.MOD: "mod", I.MIN: "min", I.MAX: "max"}
        if node.intrinsic in m:
            args = [read_psyir(c, names) for c in node.arguments]
            out = args[0]
            for x in args[1:]:
                out = (m[node.intrinsic], out, x)
            return out
        raise Unreadable(node.intrinsic.name)
    raise Unreadable(type(node).__name__)


def to_json(e):
    return list(to_json(x) if isinstance(x, tuple) else x for x in e)


def from_json(e):
    return tuple(from_json(x) if isinstance(x, list) else x for x in e)
