"""C05 — generators of loop programs and transformation targets (seeded from chk.rng only)."""
import minif
from minif import A_LO, A_HI, M_LO, M_HI

LOOPVARS = ["i", "j", "k"]
LV_INIT = {"i": 41, "j": 42, "k": 43}


MODULE = """module c05_mod
contains
  subroutine bump(k)
    integer :: k
    k = 2 * k
  end subroutine bump
  subroutine addto(k, d)
    integer, intent(inout) :: k
    integer, intent(in) :: d
    k = k + d
  end subroutine addto
end module c05_mod
"""


class P5(minif.Prog):
    """Program whose observable output also contains the DO variables i, j, k (they are
    initialised, so a zero-trip loop that no longer assigns its variable is visible)."""

    def __init__(self, scalars, arrays1, arrays2, init, body, init_vals):
        super().__init__(scalars, arrays1, arrays2, LOOPVARS + ["ii", "jj"], init, body)
        self.init_vals = init_vals
        self.use_mod = False       # program calls the subroutines of MODULE

    def observed_scalars(self):
        return self.scalars + LOOPVARS

    def source(self, body=None, name="p", extra_decls=()):
        lines = [f"program {name}"] + (["  use c05_mod"] if self.use_mod else []) + self.decls() \
            + list(extra_decls) + self.init + (self.body if body is None else body)
        for s in self.observed_scalars():
            lines.append(f"  print *, {s}")
        for a in self.arrays1 + self.arrays2:
            lines.append(f"  print *, {a}")
        lines.append(f"end program {name}")
        return (MODULE if self.use_mod else "") + "\n".join(lines) + "\n"

    def queries(self, names):
        q = [(names.id(s),) for s in self.observed_scalars()]
        for a in self.arrays1:
            q += [(names.id(a), i) for i in range(A_LO, A_HI + 1)]
        for m in self.arrays2:
            q += [(names.id(m), i, j) for j in range(M_LO, M_HI + 1) for i in range(M_LO, M_HI + 1)]
        return q

    def labels(self):
        q = list(self.observed_scalars())
        for a in self.arrays1:
            q += [f"{a}({i})" for i in range(A_LO, A_HI + 1)]
        for m in self.arrays2:
            q += [f"{m}({i},{j})" for j in range(M_LO, M_HI + 1) for i in range(M_LO, M_HI + 1)]
        return q


def observed_source(psyir_text, prog):
    """Fortran text written by PSyclone (declarations included) already ends with the PRINT
    code blocks of the original program."""
    return psyir_text


def make_prog(rng, with_m=None):
    scalars = ["s0", "s1", "t"]
    arrays1 = ["a", "b", "c"]
    arrays2 = ["m"] if (with_m if with_m is not None else rng.random() < 0.4) else []
    init, vals = [], {}
    for s in scalars:
        vals[s] = rng.randint(-3, 9)
        init.append(f"  {s} = {vals[s]}")
    for v in LOOPVARS:
        init.append(f"  {v} = {LV_INIT[v]}")
        vals[v] = LV_INIT[v]
    init += minif.gen_init(rng, [], arrays1, arrays2)
    return P5(scalars, arrays1, arrays2, init, [], vals)


def header(rng, v, allow_scalar=True, allow_self=False, allow_arr=True):
    """DO header text; returns (text, (lo, hi, st)) with lo/hi as source text"""
    kind = rng.random()
    if kind < 0.45:
        lo, hi, st = rng.randint(0, 3), rng.randint(4, 10), 1
    elif kind < 0.65:
        lo, hi, st = rng.randint(0, 3), rng.randint(4, 11), rng.choice([2, 2, 3, 4])
    elif kind < 0.78:
        lo, hi, st = rng.randint(6, 11), rng.randint(0, 3), rng.choice([-1, -1, -2, -3])
    elif kind < 0.88:
        lo, hi, st = rng.randint(5, 8), rng.randint(0, 4), rng.choice([1, 1, 2])      # zero-trip
    elif kind < 0.93:
        lo, hi, st = rng.randint(0, 3), rng.randint(5, 8), rng.choice([-1, -2])       # zero-trip, negative
    else:
        lo = rng.randint(2, 5)
        hi, st = lo, rng.choice([1, 2, -1])                                            # single trip
    lo_t, hi_t = str(lo), str(hi)
    if allow_scalar and rng.random() < 0.25:
        x = rng.random()
        if x < 0.4:
            lo_t = rng.choice(["s0", "s1"])
        elif x < 0.8:
            hi_t = rng.choice(["s0", "s1", "s1+2"])
        elif allow_arr:
            hi_t = f"b({rng.randint(0, 4)})+{rng.randint(2, 6)}"
    if allow_self and rng.random() < 0.5:
        hi_t = f"{v}-{LV_INIT[v] - rng.randint(4, 9)}"
        lo_t, st = str(rng.randint(0, 3)), 1
    return f"do {v} = {lo_t}, {hi_t}" + ("" if st == 1 else f", {st}"), (lo_t, hi_t, st)


def bodygen(rng, prog, allow_div=False):
    return minif.BodyGen(rng, prog.scalars, prog.arrays1, prog.arrays2, LOOPVARS, allow_div=allow_div)


# ---------------------------------------------------------------------------
def gen_chunk(rng):
    p = make_prog(rng)
    bg = bodygen(rng, p)
    hdr, _ = header(rng, "i", allow_self=(rng.random() < 0.04))
    body = []
    if rng.random() < 0.3:
        body += bg.assign([], "  ")
    body.append("  " + hdr)
    body += bg.block(["i"], rng.randint(1, 3), "    ", depth=1)
    body.append("  enddo")
    if rng.random() < 0.3:
        body += bg.assign([], "  ")
    p.body = body
    opts = rng.choice([None, None, {"chunksize": 1}, {"chunksize": 2}, {"chunksize": 3}, {"chunksize": 4},
                       {"chunksize": 4}, {"chunksize": 6}, {"chunksize": 5}, {"chunksize": 0}, {"chunksize": -2}])
    return p, opts


def simple_assign(rng, p, v, arrays=None, scal=0.2):
    """assignments biased towards shared arrays with small subscript offsets"""
    arrays = arrays or p.arrays1

    def sub():
        x = rng.random()
        if x < 0.6:
            return v
        if x < 0.85:
            c = rng.choice([-1, 1, 2])
            return f"{v}{'+' if c > 0 else '-'}{abs(c)}"
        return str(rng.randint(0, 5))

    def ref():
        x = rng.random()
        if x < 0.7:
            return f"{rng.choice(arrays)}({sub()})"
        if x < 0.85:
            return rng.choice(p.scalars + [v])
        return str(rng.randint(0, 9))

    rhs = ref() if rng.random() < 0.4 else f"{ref()} {rng.choice(['+', '-', '*'])} {ref()}"
    if rng.random() < scal:
        return f"{rng.choice(p.scalars)} = {rhs}"
    return f"{rng.choice(arrays)}({sub()}) = {rhs}"


def fmt_header(v, lo, hi, st):
    return f"do {v} = {lo}, {hi}" + ("" if st == 1 else f", {st}")


def vary_header(rng, v, parts):
    """a header that differs from `parts` in exactly one component (or in all of them)"""
    lo, hi, st = parts
    x = rng.random()
    if x < 0.4:
        hi = str(int(hi) + rng.choice([-2, -1, 1, 2])) if hi.lstrip("-").isdigit() else rng.choice(["6", "s0"])
    elif x < 0.65:
        lo = str(int(lo) + rng.choice([-1, 1, 2])) if lo.lstrip("-").isdigit() else rng.choice(["1", "s1"])
    elif x < 0.85:
        st = rng.choice([c for c in ([1, 2, 3] if st > 0 else [-1, -2, -3]) if c != st])
    else:
        return header(rng, v)[0]
    return fmt_header(v, lo, hi, st)


def gen_fuse(rng):
    if rng.random() < 0.15:
        return fuse_from_variant(rng, rng.choice(fuse_bound_variants(rng)))
    p = make_prog(rng, with_m=False)
    _, parts = header(rng, "i", allow_scalar=(rng.random() < 0.3))
    v2 = "i" if rng.random() < 0.75 else "j"
    n = 2 if rng.random() < 0.7 else 3
    body = []
    for k in range(n):
        v = "i" if k != 1 else v2
        h = fmt_header(v, *parts) if (k == 0 or rng.random() < 0.8) else vary_header(rng, v, parts)
        body.append("  " + h)
        for _ in range(rng.randint(1, 2)):
            if rng.random() < 0.12:
                body.append(f"    if ({rng.choice(p.arrays1)}({v}) > {rng.randint(0, 5)}) then")
                body.append("      " + simple_assign(rng, p, v, scal=0.5))
                body.append("    endif")
            else:
                body.append("    " + simple_assign(rng, p, v))
        body.append("  enddo")
        if k == 0 and n == 3 and rng.random() < 0.3:
            body.append("  " + simple_assign(rng, p, "s0", scal=1.0).replace("(s0", "(1"))
    p.body = body
    return p


def swap_variants(rng):
    """(name, outer header, inner header): every position at which one loop's start, stop or step
    can reference the other loop's variable (all must be refused by LoopSwapTrans), plus
    rectangular controls (accepted).  i = 41 and j = 42 on entry, so `i - 40` etc. are small."""
    a, b, c = rng.randint(3, 5), rng.randint(5, 8), rng.randint(1, 2)
    return [
        ("rect", f"do j = {c}, {a}", f"do i = 1, {b}"),
        ("rect-steps", f"do j = 1, {a}, 2", f"do i = {b}, 1, -{c}"),
        ("inner-start", f"do j = 1, {a}", f"do i = j, {b}"),
        ("inner-stop", f"do j = 1, {a}", "do i = 1, j"),
        ("inner-stop-expr", f"do j = 1, {a}", f"do i = 1, j + {c}"),
        ("inner-step", f"do j = 1, {a}", f"do i = 1, {b}, j"),
        ("inner-step-neg", f"do j = 1, {a - 1}", f"do i = {b}, 1, -j"),
        ("inner-step-expr", f"do j = 1, {a - 1}", f"do i = 1, {b}, j + {c}"),
        ("outer-start", f"do j = i - {LV_INIT['i'] - 1}, {a}", f"do i = 1, {b}"),
        ("outer-stop", f"do j = 1, i - {LV_INIT['i'] - a}", f"do i = 1, {b}"),
        ("outer-step", f"do j = 1, {b}, i - {LV_INIT['i'] - 2}", f"do i = 1, {a}"),
    ]


def fuse_bound_variants(rng):
    """(name, header parts, statements of body 1, statements of body 2): loop pairs with textually equal
    headers whose start/stop/step mention a scalar that one of the bodies assigns.  Fortran evaluates the
    header at loop entry, so when body 1 assigns the scalar the second loop of the original program runs
    over a different iteration space: LoopFuseTrans must refuse (the header reads are part of the
    accesses of the loop node)."""
    k = rng.randint(-2, 1)
    c = rng.randint(4, 7)
    arr = rng.sample(["a", "b", "c"], 3)
    use1 = f"{arr[0]}(i) = {arr[1]}(i) + {rng.randint(1, 5)}"
    use2 = f"{arr[2]}(i) = {arr[2]}(i) + {rng.randint(1, 5)} * i"
    inner1 = ["do j = 1, 3", f"  {arr[0]}(i + j) = {arr[0]}(i + j) + j", "enddo"]
    e = rng.randint(3, 6)
    return [
        ("stop-written-in-1", ("1", f"s1 + {c}", 1), [use1, f"s1 = {k}"], [use2]),
        ("start-written-in-1", ("s0", "9", 1), [f"s0 = {rng.randint(4, 6)}", use1], [use2]),
        ("step-written-in-1", ("1", "9", "t - t + 1"), [use1, "t = 2"], [use2]),
        ("stop-written-in-1-nested", ("1", f"s1 + {c}", 1), inner1 + [f"s1 = {k}"], [use2]),
        ("stop-written-in-2", ("1", f"s1 + {c}", 1), [use1], [use2, f"s1 = {k}"]),
        ("stop-read-only", ("1", f"s1 + {c}", 1), [use1], [use2]),
        # the header scalar is the FIRST access (a write) of both bodies: only the header reads
        # stand between this pair and the write-first rule of _validate_written_scalar
        ("stop-written-first-in-both", ("1", f"s1 + {c}", 1), [f"s1 = {k}", f"{arr[0]}(i) = s1 + i"],
         [f"s1 = {k}", f"{arr[2]}(i) = s1 - i"]),
        ("start-written-first-in-both", ("s0", "8", 1), [f"s0 = {e}", f"{arr[0]}(i) = s0 + i"],
         [f"s0 = {e}", f"{arr[2]}(i) = {arr[2]}(i) + s0"]),
        # the header reads an ARRAY element and body 1 writes that array at the loop variable
        ("stop-array-written-in-1", ("1", f"{arr[1]}(2) + 9", 1), [f"{arr[1]}(i) = ({k}) - 3"], [use2]),
        ("start-array-written-in-1", (f"{arr[1]}(3) + 3", "9", 1), [f"{arr[1]}(i) = {e}"], [use2]),
        # the header scalar is written in a conditional of body 1 / is the variable of an inner loop
        ("stop-written-in-1-cond", ("1", f"s1 + {c}", 1),
         [use1, f"if ({arr[1]}(i) > -9) then", f"  s1 = {k}", "endif"], [use2]),
        ("stop-is-inner-loop-var-of-1", ("1", "j - 36", 1), ["do j = 1, 2", f"  {arr[0]}(i + j) = i", "enddo"], [use2]),
        # different loop variables (the second one is renamed by apply)
        ("stop-written-in-1-other-var", ("1", f"s1 + {c}", 1), [use1, f"s1 = {k}"], None),
    ]


def fuse_from_variant(rng, variant):
    _, parts, b1, b2 = variant
    p = make_prog(rng, with_m=False)
    hdr = fmt_header("i", *parts)
    hdr2 = hdr
    if b2 is None:      # second loop over another variable
        hdr2 = fmt_header("k", *parts)
        b2 = [f"c(k) = c(k) + {rng.randint(1, 5)} * k"]
    body = ["  " + hdr] + ["    " + l for l in b1] + ["  enddo", "  " + hdr2] + ["    " + l for l in b2] + ["  enddo"]
    p.body = body
    return p


def header_written_variants(rng):
    """(name, kinds, body lines, with_m): single loops and 2-deep nests in which a variable of a loop
    header (start / stop / step; scalar, array element, variable of an inner loop) is written by the
    loop body, plus read-only controls.  Fortran evaluates a header once, on loop entry; every
    transformation that moves, copies or re-evaluates a header (chunking and tiling copy the stop
    expression into each chunk, interchange re-evaluates the header that moves inwards, hoisting an
    assignment to a header variable changes the trip count, fusion drops the second evaluation) has
    to ask whether the body writes a header variable."""
    k = rng.randint(-2, 1)
    c = rng.randint(5, 8)
    e = rng.randint(3, 5)
    w = rng.randint(1, 5)
    single = ["chunk", "hoist", "hoistbound", "replaceiv"]
    nest = ["swap", "tile2d", "chunk", "hoistbound"]
    upd = f"a(i) = a(i) + {w} * i"
    updm = f"m(i, j) = m(i, j) + {w} * i + j"
    out = [
        ("stop-written", single, [f"do i = 1, s1 + {c}", "  " + upd, f"  s1 = {k}", "enddo"], False),
        ("stop-written-first", single, [f"do i = 1, s1 + {c}", f"  s1 = {k}", "  " + upd, "enddo"], False),
        ("start-written", single, ["do i = s0, 9", "  " + upd, f"  s0 = {e}", "enddo"], False),
        ("start-stop-written", single, [f"do i = t - t + 1, t + {c}", "  " + upd, f"  t = i + ({k})", "enddo"], False),
        ("stop-array-written", single, [f"do i = 1, b(2) + 9", f"  b(i) = ({k}) - 3", "  " + upd, "enddo"], False),
        ("stop-written-cond", single, [f"do i = 1, s1 + {c}", "  " + upd, "  if (b(i) > -9) then", f"    s1 = {k}",
                                       "  endif", "enddo"], False),
        ("stop-written-in-inner-loop", single, [f"do i = 1, s1 + {c}", "  do j = 1, 2", f"    s1 = j - {w}", "  enddo",
                                                "  " + upd, "enddo"], False),
        ("stop-is-inner-loop-var", single, ["do i = 1, j - 36", "  do j = 1, 2", "    c(i + j) = i", "  enddo", "enddo"],
         False),
        ("stop-read-only", single, [f"do i = 1, s1 + {c}", "  " + upd, "  t = s1", "enddo"], False),
        ("step2-stop-written", single, [f"do i = 1, s1 + {c}, 2", "  " + upd, f"  s1 = {k}", "enddo"], False),
        ("neg-step-stop-written", single, [f"do i = 9, s1 - {c}, -1", "  " + upd, "  s1 = 9", "enddo"], False),
        # nests: the written header variable belongs to the outer or to the inner loop
        ("outer-stop-written", nest, [f"do j = 1, s1 + {e}", "  do i = 1, 5", "    " + updm, f"    s1 = {k}",
                                      "  enddo", "enddo"], True),
        ("outer-start-written", nest, ["do j = s0, 6", "  do i = 1, 4", "    " + updm, f"    s0 = {e}",
                                       "  enddo", "enddo"], True),
        ("inner-stop-written", nest, ["do j = 1, 4", f"  do i = 1, s1 + {e}", "    " + updm, f"    s1 = {k + 2}",
                                      "  enddo", "enddo"], True),
        ("inner-start-written", nest, ["do j = 1, 4", "  do i = s0, 7", "    " + updm, f"    s0 = {e}",
                                       "  enddo", "enddo"], True),
        ("inner-stop-array-written", nest, ["do j = 1, 3", "  do i = 1, b(2) + 8", "    " + updm, f"    b(i) = {k}",
                                            "  enddo", "enddo"], True),
        ("outer-stop-array-written", nest, ["do j = 1, b(2) + 6", "  do i = 1, 4", "    " + updm, f"    b(i) = {k}",
                                            "  enddo", "enddo"], True),
        ("nest-read-only", nest, [f"do j = 1, s1 + {e}", "  do i = s0 - s0 + 1, 5", "    " + updm, "    t = s0 + s1",
                                  "  enddo", "enddo"], True),
    ]
    return out


def gen_header_written_systematic(rng):
    """one (program, kinds) per variant of `header_written_variants` (run on every check)"""
    res = []
    for _, kinds, lines, with_m in header_written_variants(rng):
        p = make_prog(rng, with_m=with_m)
        p.body = ["  " + l for l in lines]
        res.append((p, kinds))
    return res


def gen_fuse_systematic(rng):
    return [fuse_from_variant(rng, v) for v in fuse_bound_variants(rng)]


def gen_swap_systematic(rng):
    """one program per variant of `swap_variants` (run on every check)"""
    return [gen_swap(rng, forced=(ho, hi_)) for _, ho, hi_ in swap_variants(rng)]


def gen_swap(rng, forced=None):
    p = make_prog(rng, with_m=True)
    ho, _ = header(rng, "j", allow_scalar=(rng.random() < 0.2), allow_arr=False)
    hi_, _ = header(rng, "i", allow_scalar=(rng.random() < 0.2), allow_arr=False)
    x = rng.random()
    if forced is not None:
        ho, hi_ = forced
    elif x < 0.35:
        _, ho, hi_ = rng.choice(swap_variants(rng)[2:])

    def sub(v):
        c = rng.choice([0, 0, 0, 0, -1, 1, 2])
        return v if c == 0 else f"{v}{'+' if c > 0 else '-'}{abs(c)}"

    def ref():
        y = rng.random()
        if y < 0.55:
            a, b = ("i", "j") if rng.random() < 0.85 else ("j", "i")
            return f"m({sub(a)}, {sub(b)})"
        if y < 0.8:
            return f"{rng.choice(p.arrays1)}({sub(rng.choice(['i', 'j']))})"
        return rng.choice(p.scalars + ["i", "j", str(rng.randint(0, 9))])

    def asg():
        rhs = ref() if rng.random() < 0.4 else f"{ref()} {rng.choice(['+', '-', '*'])} {ref()}"
        y = rng.random()
        if y < 0.6:
            return f"m({sub('i')}, {sub('j')}) = {rhs}"
        if y < 0.85:
            return f"{rng.choice(p.arrays1)}({sub(rng.choice(['i', 'j']))}) = {rhs}"
        return f"{rng.choice(p.scalars)} = {rhs}"

    body = ["  " + ho]
    if forced is None and rng.random() < 0.1:
        body.append("    " + asg().replace("i", "j"))
    body.append("    " + hi_)
    if forced is not None:      # make every visited (i, j) observable
        body.append(f"      m(i, j) = m(i, j) + {rng.randint(1, 9)} * i + j")
    for _ in range(rng.randint(1, 2)):
        body.append("      " + asg())
    body.append("    enddo")
    if forced is None and rng.random() < 0.1:
        body.append("    t = j")
    body.append("  enddo")
    p.body = body
    return p


def gen_hoist(rng):
    p = make_prog(rng, with_m=False)
    hdr, _ = header(rng, "i", allow_scalar=(rng.random() < 0.3))
    body = ["  " + hdr]
    nested = rng.random() < 0.25
    ind = "    "
    if nested:
        body.append("    " + header(rng, "j", allow_scalar=False)[0])
        ind = "      "
    v = "j" if nested else "i"
    for _ in range(rng.randint(1, 4)):
        x = rng.random()
        if x < 0.35:      # invariant scalar assignment
            rhs = rng.choice(["s0 + 2", "s1", "3", "s0 * s1", "a(2)", "b(1) + s1", "t + 1", "c(s0)"])
            body.append(f"{ind}{rng.choice(p.scalars)} = {rhs}")
        elif x < 0.5:     # invariant array element
            body.append(f"{ind}{rng.choice(p.arrays1)}({rng.randint(0, 5)}) = {rng.choice(['s0', 's1 + 1', '7', 't', 'b(3)'])}")
        elif x < 0.6:
            body.append(f"{ind}if (a({v}) > 2) then")
            body.append(f"{ind}  t = 5")
            body.append(f"{ind}endif")
        else:
            body.append(ind + simple_assign(rng, p, v))
    if nested:
        body.append("    enddo")
    body.append("  enddo")
    p.body = body
    return p


def gen_replaceiv(rng):
    """loops whose bodies assign scalars from the loop variable / invariants (induction-variable
    candidates), use them afterwards, and sometimes disqualify them: a second write, a read before
    the assignment, a use as actual argument of a subroutine that modifies it (READWRITE access),
    a write inside an if or an inner loop, a right-hand side that is written in the loop."""
    p = make_prog(rng, with_m=False)
    p.use_mod = True
    hdr, _ = header(rng, "i", allow_scalar=(rng.random() < 0.25), allow_arr=False)
    x = rng.random()
    if x < 0.06:
        hdr = "do i = 1, t"               # a candidate also occurs in the loop header
    elif x < 0.10:
        hdr = "do i = 1, 9, s1 - s1 + 2"  # step expression mentions a scalar
    cands = ["t", "s1", "s0"]
    body = ["  " + hdr]
    ind = "    "
    n = rng.randint(2, 5)
    assigned = []
    for k in range(n):
        y = rng.random()
        c = rng.choice(cands)
        if y < 0.38:
            rhs = rng.choice(["i + 1", "2 * i", "i - 1", "3", "i + s0", "s1 + 2", "i * i + 1", "max(i, 2)",
                              "b(2) + i", "t + 1", "i + t", "a(i)", "s0 * 2 - i"])
            body.append(f"{ind}{c} = {rhs}")
            assigned.append(c)
        elif y < 0.62:
            u = rng.choice(assigned) if assigned and rng.random() < 0.8 else c
            arr = rng.choice(p.arrays1)
            body.append(f"{ind}{arr}({rng.choice(['i', 'i+1', '2'])}) = {rng.choice([u, u + ' + i', u + ' * 2', arr + '(i) + ' + u])}")
        elif y < 0.78:
            u = rng.choice(assigned) if assigned and rng.random() < 0.85 else c
            body.append(f"{ind}call {rng.choice(['bump(' + u + ')', 'addto(' + u + ', ' + str(rng.randint(1, 4)) + ')'])}")
        elif y < 0.86:
            u = rng.choice(assigned) if assigned else c
            body.append(f"{ind}if (a(i) > {rng.randint(0, 4)}) then")
            body.append(f"{ind}  {rng.choice([u + ' = 7', 'c(i) = ' + u, 'call bump(' + u + ')'])}")
            body.append(f"{ind}endif")
        elif y < 0.93:
            u = rng.choice(assigned) if assigned else c
            body.append(f"{ind}do j = 1, 3")
            body.append(f"{ind}  {rng.choice(['c(j) = c(j) + ' + u, u + ' = j', 'b(j + i) = ' + u + ' - j'])}")
            body.append(f"{ind}enddo")
        else:
            body.append(ind + simple_assign(rng, p, "i"))
    body.append("  enddo")
    if rng.random() < 0.3:
        body.append(f"  c(0) = {rng.choice(cands)}")
    p.body = body
    return p


def gen_foldret(rng):
    """(source, scalars, arrays): a subroutine with early RETURNs (top-level conditional returns with
    and without dead code / else branches, returns nested deeper, an unconditional return) called
    once from a program that initialises and prints all arguments"""
    p = make_prog(rng, with_m=False)
    bg = bodygen(rng, p)
    body = []

    def cond():
        x = rng.random()
        if x < 0.5:
            return f"{rng.choice(p.scalars)} {rng.choice(['>', '<', '>=', '=='])} {rng.randint(-2, 8)}"
        return f"{rng.choice(p.arrays1)}({rng.randint(0, 6)}) {rng.choice(['>', '<', '<='])} {rng.randint(-3, 9)}"

    for _ in range(rng.randint(3, 7)):
        x = rng.random()
        if x < 0.3:
            body.append(f"  if ({cond()}) then")
            body.append("    return")
            if rng.random() < 0.15:
                body += bg.assign([], "    ")          # dead code after the return
            body.append("  endif")
        elif x < 0.38:
            body.append(f"  if ({cond()}) then")
            body.append("    return")
            body.append("  else")
            body += bg.assign([], "    ")
            body.append("  endif")
        elif x < 0.46:
            body.append(f"  if ({cond()}) then")
            body += bg.assign([], "    ")
            body.append("    return")
            body.append("  endif")
        elif x < 0.54:
            body.append(f"  if ({cond()}) then")
            body += bg.assign([], "    ")
            body.append(f"    if ({cond()}) then")
            body.append("      return")
            body.append("    endif")
            body += bg.assign([], "    ")
            body.append("  endif")
        elif x < 0.58:
            body.append("  return")
        elif x < 0.7:
            body.append("  do i = 1, 5")
            body += bg.assign(["i"], "    ")
            body.append("  enddo")
        else:
            body += bg.assign([], "  ")
    dims = f"dimension({A_LO}:{A_HI})"
    lines = ["subroutine work(s0, s1, t, a, b, c)",
             "  integer, intent(inout) :: s0, s1, t",
             f"  integer, {dims}, intent(inout) :: a, b, c",
             "  integer :: i, j, k"] + body + ["end subroutine work",
             "program p",
             "  integer :: s0, s1, t, i, j, k, ii, jj",
             f"  integer, {dims} :: a, b, c"] + p.init + ["  call work(s0, s1, t, a, b, c)"]
    for v in p.scalars:
        lines.append(f"  print *, {v}")
    for a in p.arrays1:
        lines.append(f"  print *, {a}")
    lines.append("end program p")
    return "\n".join(lines) + "\n", list(p.scalars), list(p.arrays1), body


def gen_generic(rng):
    p = make_prog(rng)
    bg = bodygen(rng, p)
    p.body = bg.block([], rng.randint(2, 4))
    return p
