"""C22 — distributed-memory LFRic code never reads a dirty halo.

(a) correspondence: generated invokes (1-4 kernels/built-ins, access modes x continuity x stencils),
    annexed on/off, random accepted transformation histories (redundant computation, colouring,
    asynchronous halo exchange, move, OpenMP) are applied to the REAL schedule; the GENERATED Fortran
    is abstracted into events (halo exchanges with depth and is_dirty guard, kernel loops with bound,
    set_dirty/set_clean) and compared with the Lean model (`place` + edits + `lower`).
(b) property on the real code: the abstracted real events are executed by the Lean dynamic
    specification (`C22.stepF`) for every field, H = 1..3, every extent variable in 1..2, both
    continuities allowed by the metadata and every well-formed initial state; a dirty read, a
    recorded state cleaner than the actual one, or a broken async pairing is a failing input."""
import glob
import json
import os

import common
from common import driver, sx, parse_sx
from . import c22_real as R

HMAX = 5


# ---- history generation on the real schedule ---------------------------------------------------
def random_step(rng, sched, phase_b, state):
    """`state["rc_node"]`: the loop of the previous redundant-computation step; it is chosen again
    with probability 1/2 so that histories contain REPEATED steps on one loop with decreasing, equal
    and increasing depths (and a fixed depth after the maximum depth)."""
    from psyclone.psyGen import HaloExchange
    flat = R.flat_nodes(sched)
    loops = [i for i, n in enumerate(flat) if not isinstance(n, HaloExchange)]
    hexes = [i for i, n in enumerate(flat) if isinstance(n, HaloExchange)]
    kinds = ["rc", "rc", "rc", "col"] if not phase_b else ["async", "move", "move", "omp", "rc", "col"]
    kind = rng.choice(kinds)
    if kind == "rc" and loops:
        again = [i for i in loops if flat[i] is state.get("rc_node")]
        i = again[0] if again and rng.random() < 0.5 else rng.choice(loops)
        state["rc_node"] = flat[i]
        return ["rc", i, rng.choice([None, None, 1, 1, 2, 2, 3])]
    if kind == "col" and loops:
        return ["col", rng.choice(loops)]
    if kind == "async" and hexes:
        return ["async", rng.choice(hexes)]
    if kind == "move" and len(flat) >= 2:
        i, j = rng.sample(range(len(flat)), 2)
        return ["move", i, j, rng.choice(["before", "after"])]
    if kind == "omp" and loops:
        return ["omp", rng.choice(loops)]
    return None


def run_history(rng, info, idx, ann, nsteps, fixed_steps=None):
    """Apply a history to a fresh real schedule.  Returns dict with accepted steps, model ops,
    events of the generated code, or {"crash": ...}."""
    from psyclone.psyir.transformations import TransformationError
    names = R.Names()
    psy, inv = R.make_schedule(info, idx, ann)
    sched = inv.schedule
    kernels = R.model_kernels(inv, names)
    steps, ops, refused = [], [], 0
    todo = list(fixed_steps) if fixed_steps is not None else None
    n = len(todo) if todo is not None else nsteps
    region_done = False
    rstate = {}
    for s in range(n):
        if todo is not None:
            step = todo[s]
        else:
            step = random_step(rng, sched, s >= (2 * nsteps + 2) // 3, rstate)
        if step is None or region_done:
            continue
        before = R.flat_nodes(sched)
        if step[0] in ("rcl", "coll"):    # redundant computation on / colouring of the n-th kernel loop
            from psyclone.psyGen import HaloExchange
            loops = [i for i, nd in enumerate(before) if not isinstance(nd, HaloExchange)]
            if step[1] >= len(loops):
                continue
            step = ["rc", loops[step[1]], step[2]] if step[0] == "rcl" else ["col", loops[step[1]]]
        try:
            R.apply_step(sched, step)
        except TransformationError:
            refused += 1
            continue
        except Exception as e:          # GenerationError / InternalError inside apply
            return {"crash": f"{type(e).__name__}: {str(e)[:200]}", "steps": steps + [step]}
        after = R.flat_nodes(sched)
        steps.append(step)
        op = R.model_op(step, before, after)
        if op is not None:
            ops.append(op)
        if step[0] == "ompregion":
            region_done = True
    # optionally enclose a run of adjacent OpenMP-able loops in one parallel region (last step)
    if todo is None and rng.random() < 0.15:
        step = region_step(rng, sched)
        if step:
            try:
                R.apply_step(sched, step)
                steps.append(step)
            except TransformationError:
                refused += 1
            except Exception as e:
                return {"crash": f"{type(e).__name__}: {str(e)[:200]}", "steps": steps + [step]}
    try:
        events = R.lowered_events(inv, names)
    except Exception as e:
        return {"crash": f"gen {type(e).__name__}: {str(e)[:200]}", "steps": steps}
    return {"kernels": kernels, "steps": steps, "ops": ops, "events": events, "refused": refused,
            "region": any(s[0] == "ompregion" for s in steps)}


def region_step(rng, sched):
    from psyclone.domain.lfric import LFRicLoop
    flat = R.flat_nodes(sched)
    runs, cur = [], []
    for i, n in enumerate(flat):
        if isinstance(n, LFRicLoop) and n.parent is sched and n.loop_type in ("", "dof"):
            cur.append(i)
        else:
            if len(cur) >= 2:
                runs.append(cur)
            cur = []
    if len(cur) >= 2:
        runs.append(cur)
    if not runs:
        return None
    return ["ompregion", rng.choice(runs)]


# ---- comparison and classification -------------------------------------------------------------
def strip_real(events):
    """real events in the shape of the model's output (kernel bodies dropped)"""
    out = []
    for e in events:
        if e[0] == "l":
            out.append(["l", e[2], e[3]])
        else:
            out.append(e)
    return out


def strip_model(items):
    out = []
    for e in items:
        if e[0] == "h":
            out.append(["h", e[1], e[2], [d[:4] + [0] for d in e[3]], e[4]])
        elif e[0] == "sc":
            out.append(["sc", e[1], e[2][:4] + [0]])
        else:
            out.append(e)
    return out


def same_schedule(model_items, real_events, region):
    m, r = strip_model(model_items), strip_real(real_events)
    if not region:
        return m == r
    marks = lambda xs: sorted(common.canon(x) for x in xs if x[0] in ("sd", "sc"))
    rest = lambda xs: [x for x in xs if x[0] not in ("sd", "sc")]
    return rest(m) == rest(r) and marks(m) == marks(r)


def classify(fail, events, ann, findings):
    """id of the known finding whose classifier accepts this failure, else None.
    fail = [reason f H env cont ann cd recorded step]"""
    reason, f, H, _env, cont, _a, _cd, _rec, step = fail[1:10]
    if reason != "dirtyRead" or step >= len(events) or events[step][0] != "l":
        return None
    _, kern, lvl, col = events[step]
    dof = kern[1]
    args = kern[2:]
    arg = [a for a in args if a[0] == f][0]
    all_writes = all(a[1] in (0, 1) for a in args)
    for fd in findings:
        c = fd.get("classifier_id")
        if c == "write-only-kernel-reads-annexed":
            # cell kernel whose updates are all GH_WRITE, iterating to the last edge cell, reads a
            # field on a space not known to be discontinuous without stencil; annexed dofs off
            if (not ann and not dof and all_writes and lvl == "o" and arg[1] == 0 and arg[2] == 0
                    and arg[3] == "x" and cont == 1):
                return fd["id"]
        elif c == "inc-to-max-depth-h1":
            # gh_inc argument of a cell loop that goes to the maximum halo depth, mesh halo depth 1
            if not ann and not dof and lvl == "m" and arg[1] == 3 and H == 1 and cont == 1:
                return fd["id"]
    return None


def payload(kernels_src, invoke, ann, steps, extra):
    p = {"kernel_pool": kernels_src, "invoke": invoke, "annexed": ann, "steps": steps}
    p.update(extra)
    return p


# ---- systematic two-kernel family ------------------------------------------------------------------
SYS_POOL = [
    {"name": "c22w0", "args": [["write", "w3", None]]},
    {"name": "c22w1", "args": [["readwrite", "w3", None]]},
    {"name": "c22w2", "args": [["inc", "w1", None]]},
    {"name": "c22w3", "args": [["readinc", "w1", None]]},
    {"name": "c22w4", "args": [["write", "w1", None]]},
    {"name": "c22r0", "args": [["inc", "w2", None], ["read", "w3", None]]},
    {"name": "c22r1", "args": [["inc", "w2", None], ["read", "w1", None]]},
    {"name": "c22r2", "args": [["write", "wtheta", None], ["read", "w3", "cross"]]},
    {"name": "c22r3", "args": [["write", "wtheta", None], ["read", "w1", "region"]]},
    {"name": "c22r4", "args": [["readwrite", "wtheta", None], ["read", "any_space_1", None]]},
    {"name": "c22r5", "args": [["inc", "w2", None], ["read", "any_space_1", "cross"]]},
    # kernels whose updates are all GH_WRITE, reading a field without stencil (the
    # `all_updates_are_writes` special case of `_halo_read_access` / `HaloReadAccess`)
    {"name": "c22r6", "args": [["write", "wtheta", None], ["read", "w1", None]]},
    {"name": "c22r7", "args": [["write", "w2", None], ["read", "w1", None]]},
    {"name": "c22r8", "args": [["write", "w2", None], ["read", "any_space_1", None]]},
    {"name": "c22r9", "args": [["write", "w2", None], ["read", "w3", None]]},
]
WRITTEN_FIELD = {"wtheta": "fe", "w2": "fc"}


def systematic_invokes():
    """writer of a target field followed by a reader of it: every writer kind x reader kind"""
    out = []
    for target, writers, readers in (
            ("fd", [0, 1, "setval_c"], [5, 7, 9, 10, 13, 14, 1, "inc_a_times_x", "setval_x"]),
            ("fb", [2, 3, 4, "setval_c"], [6, 8, 9, 10, 11, 12, 13, 2, 3, "inc_a_times_x", "setval_x"])):
        for w in writers:
            wc = ["builtin", w, [target]] if isinstance(w, str) else ["kern", w, [target], [None]]
            for r in readers:
                if r == "inc_a_times_x":
                    rcs = [["builtin", r, [target]]]
                elif r == "setval_x":
                    rcs = [["builtin", r, ["fg" if target == "fd" else "fc", target]]]
                elif r in (0, 1, 2, 3, 4):
                    rcs = [["kern", r, [target], [None]]]
                elif SYS_POOL[r]["args"][1][2]:
                    wf = WRITTEN_FIELD[SYS_POOL[r]["args"][0][1]]
                    rcs = [["kern", r, [wf, target], [None, e]] for e in (1, 2, "ext1")]
                else:
                    wf = WRITTEN_FIELD[SYS_POOL[r]["args"][0][1]]
                    rcs = [["kern", r, [wf, target], [None, None]]]
                for rc in rcs:
                    out.append([wc, rc])
    return out


W_SEQS = [[], [1], [2], [None], [2, 1], [2, 2], [1, 2], [3, 1], [None, 1], [None, None], [1, None, 2]]
R_SEQS = [[], [2], [3], [None], [2, 1], [3, 2], [None, 2]]


def systematic_histories():
    """(base, extended): base = one step per loop (16 histories); extended = REPEATED
    redundant-computation steps on the writer and/or the reader loop with decreasing, equal and
    increasing depths and a fixed depth after the maximum, writer first or reader first, with the
    loop optionally coloured first (cell / colour / dof loops all occur in the family)."""
    base, ext = [], []
    for w in W_SEQS:
        for r in R_SEQS:
            ws = [["rcl", 0, d] for d in w]
            rs = [["rcl", 1, d] for d in r]
            if len(w) <= 1 and len(r) <= 1 and w != [3] :
                base.append(ws + rs)
                if len(r) == 1 and not w:
                    base.append([["coll", 1]] + rs)          # colour the reader loop first
            else:
                ext.append(ws + rs)
            if len(w) > 1 and r:
                ext.append(rs + ws)                      # the reader's need is fixed first
            if len(w) > 1 or len(r) > 1:
                ext.append([["coll", 0], ["coll", 1]] + ws + rs)
    return base, ext


# ---- run ---------------------------------------------------------------------------------------
def corpus_cases():
    out = []
    for path in sorted(glob.glob(os.path.join(common.ROOT, "corpus", "C22", "*.json"))):
        out.append(json.load(open(path)))
    return out


def evaluate(chk, cases, findings, known_hits):
    """cases: list of dict(kernel_pool, invoke, annexed, result) → driver, compare, classify."""
    lines = []
    for c in cases:
        r = c["result"]
        lines.append(sx(["place", c["annexed"], r["kernels"], r["ops"]]))
        lines.append(sx(["exec", c["annexed"], HMAX, r["events"]]))
    outs = driver("C22", lines)
    for n, c in enumerate(cases):
        r = c["result"]
        mo, ex = parse_sx(outs[2 * n]), parse_sx(outs[2 * n + 1])
        agreed = mo[0] == "ok" and same_schedule(mo[1:], r["events"], r["region"])
        case = {"invoke": c["invoke"], "annexed": c["annexed"], "steps": r["steps"]}
        nontrivial = any(e[0] == "h" for e in r["events"]) or bool(r["steps"])
        chk.case(case, nontrivial=nontrivial, agreed=agreed)
        fails = ex[2] if ex[0] == "ok" else [ex]
        new = []
        for fl in fails:
            fid = classify(fl, r["events"], c["annexed"], findings) if agreed else None
            if fid:
                known_hits[fid] = known_hits.get(fid, 0) + 1
            else:
                new.append(fl)
        if new:
            chk.violation(payload(c["kernel_pool"], c["invoke"], c["annexed"], r["steps"], {
                "kind": "failing-input",
                "observed": {"failures": new, "events": r["events"],
                             "legend": "(fail reason field H env cont init_ann init_cd init_recorded step)"},
                "expected": "every read finds its halo clean to the needed depth; recorded state no cleaner "
                            "than actual; async exchanges paired (C22.stepF)"}))
        if not agreed:
            chk.correspondence_broken("generated PSy layer differs from C22.lower (place + edits)",
                                      case, strip_model(mo[1:]) if mo[0] == "ok" else mo,
                                      strip_real(r["events"]))


def run(chk):
    chk.cov["rule"] = ("case = (invoke of 1-4 kernel/built-in calls over 8 fields, compute_annexed_dofs, accepted "
                       "transformation history); non-trivial = the generated code contains a halo exchange or the "
                       "history is non-empty; distinct by canonical JSON")
    chk.assumptions += [
        "run-time stencil extents are >= 1 (exhaustive check uses 1..2); maximum halo depth H in 1..3",
        "LFRic run-time bookkeeping: set_dirty -> all depths dirty, set_clean(d)/halo_exchange(d) -> depths 1..d clean, "
        "is_dirty(d) tests depth d",
        "with COMPUTE_ANNEXED_DOFS=true annexed dofs of continuous fields are clean on entry to the invoke",
        "fields of vector size 1; no inter-grid kernels, operators or loop fusion; one kernel per loop",
        "a halo read while an asynchronous exchange of the same field is in flight sees the previous state",
        "LFRic metadata rules hold (GH_INC/GH_READINC only on continuous/any_space arguments, stencils only on GH_READ)",
        "the mesh halo is deep enough for every access (configurations (H, extents) with a need > H are skipped: LFRic aborts)",
        "model of required() is in FIXED mode (fixes/C22-required-max-depth-m1.patch)"]
    chk.cov["trusted_base"] = [
        "Lean 4.33.0 kernel", "axioms propext/Classical.choice/Quot.sound only (audited)",
        "dynamic specification C22.specNeed/specAfter/stepF (written from doc/developer_guide/APIs.rst)",
        "harness abstraction of the generated Fortran into events (harness/props/c22_real.py)"]
    chk.lean()
    R.setup_api()
    rng = chk.rng
    thorough = chk.tier == "thorough"
    findings = common.known_findings("C22")
    known_hits = {}
    dist = {"histories": 0, "crashed": 0, "refused_steps": 0, "accepted_steps": {}, "with_hex": 0}

    def account(res):
        dist["histories"] += 1
        dist["refused_steps"] += res["refused"]
        for s in res["steps"]:
            dist["accepted_steps"][s[0]] = dist["accepted_steps"].get(s[0], 0) + 1
        if any(e[0] == "h" for e in res["events"]):
            dist["with_hex"] += 1

    with R.Workdir() as wd:
        # 1. corpus + known-finding witnesses (fixed inputs, replayed first)
        fixed = corpus_cases() + [dict(f["witness"], finding=f["id"]) for f in findings]
        cases = []
        for n, c in enumerate(fixed):
            info = R.parse_file(wd.path, c["kernel_pool"], [c["invoke"]], tag=f"fixed{n}")
            res = run_history(rng, info, 0, c["annexed"], 0, fixed_steps=c["steps"])
            if "crash" in res:
                dist["crashed"] += 1
                continue
            account(res)
            cases.append(dict(c, result=res))
        before = dict(known_hits)
        evaluate(chk, cases, findings, known_hits)
        # a known finding is reported when its own witness still fails
        for f in findings:
            if known_hits.get(f["id"], 0) > before.get(f["id"], 0):
                chk.known(f["what"])
        # 2. systematic family: writer kind x reader kind x redundant-computation depths x annexed
        sys_inv = systematic_invokes()
        if not thorough:
            # stratified: one invoke per reader kind and one per writer kind
            groups = {}
            for inv in sys_inv:
                groups.setdefault(("r",) + tuple(map(str, inv[1][:2])), []).append(inv)
                groups.setdefault(("w",) + tuple(map(str, inv[0][:2])) + (inv[0][2][0],), []).append(inv)
            sys_inv = [rng.choice(groups[g]) for g in sorted(groups)]
        info = R.parse_file(wd.path, SYS_POOL, sys_inv, tag="sys")
        cases = []
        for idx, invk in enumerate(sys_inv):
            base, ext = systematic_histories()
            for ann in (0, 1):
                for hist in base + (ext if thorough else rng.sample(ext, 12)):
                    res = run_history(rng, info, idx, ann, 0, fixed_steps=hist)
                    if "crash" in res:
                        dist["crashed"] += 1
                        continue
                    account(res)
                    cases.append({"kernel_pool": SYS_POOL, "invoke": invk, "annexed": ann, "result": res})
        dist["systematic_cases"] = len(cases)
        evaluate(chk, cases, findings, known_hits)
        # 3. generated invokes
        n_inv = 120 if thorough else 22
        n_hist = 8 if thorough else 5
        pool = [R.gen_kernel(rng, i) for i in range(24 if thorough else 12)]
        invokes = [R.gen_invoke(rng, pool) for _ in range(n_inv)]
        info = R.parse_file(wd.path, pool, invokes, tag="gen")
        cases = []
        for idx, invk in enumerate(invokes):
            used = sorted({c[1] for c in invk if c[0] == "kern"})
            sub_pool = [pool[i] for i in used]
            remap = {i: j for j, i in enumerate(used)}
            inv_local = [list(c) if c[0] == "builtin" else ["kern", remap[c[1]], c[2], c[3]] for c in invk]
            for ann in (0, 1):
                for h in range(n_hist):
                    res = run_history(rng, info, idx, ann, 0 if h == 0 else rng.randint(1, 6))
                    if "crash" in res:
                        dist["crashed"] += 1
                        continue
                    account(res)
                    cases.append({"kernel_pool": sub_pool, "invoke": inv_local, "annexed": ann, "result": res})
        evaluate(chk, cases, findings, known_hits)
    dist["known_finding_hits"] = known_hits
    chk.cov["distribution"] = dist


# ---- replay ------------------------------------------------------------------------------------
def replay(payload):
    R.setup_api()
    import random
    with R.Workdir() as wd:
        info = R.parse_file(wd.path, payload["kernel_pool"], [payload["invoke"]], tag="replay")
        res = run_history(random.Random(0), info, 0, payload["annexed"], 0, fixed_steps=payload["steps"])
    if "crash" in res:
        print("real code raised:", res["crash"])
        return 0
    out = parse_sx(driver("C22", [sx(["exec", payload["annexed"], HMAX, res["events"]])])[0])
    fails = out[2] if out[0] == "ok" else [out]
    print("invoke:", payload["invoke"], "annexed:", payload["annexed"], "steps:", res["steps"])
    print("events of the generated code:", sx(res["events"]))
    print("observed failures (reason field H env cont init_ann init_cd init_recorded step):", fails or "none")
    print("expected: none")
    return 1 if fails else 0
