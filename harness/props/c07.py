"""C07 — InlineTrans vs. the Lean model C07 (validate accept/refuse, inlined statements up to fresh
names) and the property itself on the real code: original and inlined program are compiled with
gfortran (-fcheck=bounds -ftrapv) and their outputs compared.  The Lean CALL semantics (`execC`) and the
model's inlined program are cross-checked against both gfortran outputs.

The model is in FIXED mode for fixes/C07-loopvar-formal.patch and fixes/C07-outer-capture.patch: on a tree
without them the former witnesses (corpus/C07/fixed-*.json) are reported as VIOLATION.  Subroutine calls and
function references inside assignments are covered.

Array-section actuals: besides the random generator (c07_gen) a SYSTEMATIC family (c07_sec: rank 1..3 actual, every
pattern of scalar / section positions, classes of indices, section bounds, formal bounds, steps) is run on every check.
Every element reference to an array formal bound to `a(...)` is compared, for any rank, with the rank-generic Lean model
of `_update_actual_indices` (`updateIdx`, driver query `idxmap`), and the array-argument checks of validate with
`checkIdx` (query `checkidx`).  fixes/C07-fullrange-assumed-lower.patch repairs a crash of apply the family found
(corpus/C07/fixed-fullrange-assumed-lower.json); whole-array / full-range references are checked by gfortran only."""
import concurrent.futures
import glob
import json
import os
import re

import common
import minif
from common import sx, parse_sx
from props import c07_gen, c07_sec

GF_FLAGS = ("-fcheck=bounds",)


# ---------------------------------------------------------------------------------------------
# real code
def _psy():
    from psyclone.psyir.frontend.fortran import FortranReader
    from psyclone.psyir.backend.fortran import FortranWriter
    from psyclone.psyir import nodes as N
    from psyclone.psyir.transformations import InlineTrans, TransformationError
    return FortranReader, FortranWriter, N, InlineTrans, TransformationError


REFUSALS = [("Return statements and therefore cannot be inlined", "earlyReturn"), ("static (Fortran SAVE)", "static"), ("from its parent container", "container"),
            ("cannot be found in any of the containers", "container"),
            ("number of arguments", "nargs"), ("is a loop variable but the actual argument", "loopVarActual"), ("is not a Reference or a Literal", "arrayExpr"),
            ("reshapes an argument", "rank"), ("non-unit stride", "stride"),
            ("corresponding to an array formal argument", "unknownType")]


def refusal_class(msg):
    for pat, cls in REFUSALS:
        if pat in msg:
            return cls
    return "other:" + msg[:120]


def find_call(psyir):
    _, _, N, _, _ = _psy()
    calls = [c for c in psyir.walk(N.Call) if type(c) is N.Call and c.routine.name.lower() == "s"]
    if len(calls) != 1:
        raise minif.Unsupported("expected exactly one call to s")
    return calls[0]


def lit_int(node):
    _, _, N, _, _ = _psy()
    if isinstance(node, N.Literal):
        try:
            return int(node.value)
        except ValueError:
            pass
    raise minif.Unsupported("non-literal bound")


def lower_bounds(sym):
    from psyclone.psyir.symbols import ArrayType
    out = []
    for dim in sym.datatype.shape:
        if isinstance(dim, ArrayType.ArrayBounds):
            out.append(lit_int(dim.lower))
        else:
            out.append(1)
    return out


def is_array(sym):
    from psyclone.psyir.symbols import ArrayType, DataSymbol
    return isinstance(sym, DataSymbol) and isinstance(sym.datatype, ArrayType)


def export_actual(arg, names):
    """actual argument (before apply touches the tree) -> model `Actual` S-expression"""
    _, _, N, _, _ = _psy()
    if isinstance(arg, N.ArrayReference):
        idx = arg.indices
        los = lower_bounds(arg.symbol)
        a = names.id(arg.name)
        parts, unit = [], 1
        for pos, ix in enumerate(idx):
            if isinstance(ix, N.Range):
                st = ix.start
                if isinstance(st, N.IntrinsicCall) and st.intrinsic.name.upper() == "LBOUND":
                    parts.append(("r", ["lit", los[pos]]))
                else:
                    parts.append(("r", minif.export_expr(st, names)))
                if not (isinstance(ix.step, N.Literal) and ix.step.value == "1"):
                    unit = 0
            else:
                parts.append(("i", minif.export_expr(ix, names)))
        shape = "".join(p[0] for p in parts)
        es = [p[1] for p in parts]
        table = {"i": "elem1", "ii": "elem2", "r": "sec1", "rr": "sec2", "ri": "col", "ir": "row"}
        if shape not in table:
            raise minif.Unsupported("actual shape " + shape)
        return [table[shape], a] + es + ([unit] if "r" in shape else [])
    if type(arg) is N.Reference:
        if is_array(arg.symbol):
            los = lower_bounds(arg.symbol)
            if len(los) == 1:
                return ["sec1", names.id(arg.name), ["lit", los[0]], 1]
            if len(los) == 2:
                return ["sec2", names.id(arg.name), ["lit", los[0]], ["lit", los[1]], 1]
            raise minif.Unsupported("rank > 2")
        return ["var", names.id(arg.name)]
    return ["expr", minif.export_expr(arg, names)]


def export_aidx(arg, names):
    """array actual `a(...)` (before apply) -> list of model `AIdx` S-expressions (any rank)"""
    _, _, N, _, _ = _psy()
    los = lower_bounds(arg.symbol)
    out = []
    for pos, ix in enumerate(arg.indices):
        if isinstance(ix, N.Range):
            st = ix.start
            if isinstance(st, N.IntrinsicCall) and st.intrinsic.name.upper() == "LBOUND":
                start = "none"
            else:
                start = minif.export_expr(st, names)
            out.append(["sec", los[pos], start, lit_int(ix.step)])
        else:
            out.append(["ix", los[pos], minif.export_expr(ix, names)])
    return out


def export_idxrefs(call, callee, names):
    """the element references to array formals bound to `a(...)` actuals, in walk order:
    -> list of dict(sym=actual array symbol, aidx, los, ks (None = not an element reference of the modelled form))
    or None when references cannot be paired with the inlined tree by walk order"""
    _, _, N, _, _ = _psy()
    formals = callee.symbol_table.argument_list
    if len(formals) != len(call.arguments):
        return None
    bound = {}
    for f, a in zip(formals, call.arguments):
        if is_array(f) and isinstance(a, N.ArrayReference) and is_array(a.symbol):
            bound[f.name.lower()] = (f, a)
    if not bound:
        return None
    caller = call.ancestor(N.Routine)
    visible, tab = set(), caller.symbol_table
    while tab is not None:
        visible |= {n.lower() for n in tab.symbols_dict.keys()}
        tab = tab.parent_symbol_table()

    def plain(ix):
        """the local index mentions only callee locals that keep their name (so substitution leaves it unchanged)"""
        for r in ix.walk(N.Reference):
            if type(r) is not N.Reference or r.symbol in formals or r.name.lower() in visible \
                    or r.name.lower() not in callee.symbol_table.symbols_dict:
                return False
        return True
    syms = [a.symbol for _, a in bound.values()]
    if len({id(s) for s in syms}) != len(syms):
        return None                               # two formals on one array: walk order would be ambiguous
    def inside(ref, b):
        while ref is not None:
            if ref is b:
                return True
            ref = ref.parent
        return False
    for a in call.arguments:                      # the arrays must not be mentioned anywhere else in the call
        for ref in a.walk(N.Reference):           # (LBOUND(a,1) inside the bounds of `a(:)` itself is fine)
            if any(ref.symbol is s for s in syms) and not any(inside(ref, b) for _, b in bound.values()):
                return None
    out = []
    for ref in callee.walk(N.Reference):
        key = ref.name.lower()
        if key not in bound or ref.symbol is not bound[key][0]:
            continue
        f, a = bound[key]
        ent = {"sym": a.symbol, "formal": key, "ks": None}
        try:
            ent["aidx"] = export_aidx(a, names)
            ent["los"] = lower_bounds(f)
            if isinstance(ref, N.ArrayReference) and not any(isinstance(i, N.Range) for i in ref.indices) \
                    and all(plain(i) for i in ref.indices):
                ent["ks"] = [minif.export_expr(i, names) for i in ref.indices]
        except minif.Unsupported:
            ent["ks"] = None
        out.append(ent)
    return out


def export_checkidx(call, callee, names):
    """[(rank of the formal, AIdx list)] for the array formals, in argument order; None unless EVERY array formal is
    bound to an `a(...)` actual with at least one section (then the array-argument checks of validate are exactly
    `checkIdx` on these)"""
    _, _, N, _, _ = _psy()
    formals = callee.symbol_table.argument_list
    if len(formals) != len(call.arguments):
        return None
    out = []
    for f, a in zip(formals, call.arguments):
        if not is_array(f):
            continue
        if not (isinstance(a, N.ArrayReference) and is_array(a.symbol) and any(isinstance(i, N.Range) for i in a.indices)):
            return None
        if any(r.ancestor(N.Reference) is not a for r in a.walk(N.Range)):
            return None                          # range in an indirect access: not modelled
        out.append([len(f.datatype.shape), export_aidx(a, names)])
    return out or None


def whole_explicit(call, callee):
    """classifier of known finding C07-explicit-shape-whole-array: the callee mentions, WITHOUT indices, an array formal
    declared with an explicit upper bound, and the actual bound to it is an array / array section"""
    from psyclone.psyir.symbols import ArrayType
    _, _, N, _, _ = _psy()
    formals = callee.symbol_table.argument_list
    if len(formals) != len(call.arguments):
        return False
    for f, a in zip(formals, call.arguments):
        if not (is_array(f) and isinstance(a, N.Reference) and is_array(a.symbol)):
            continue
        if isinstance(a, N.ArrayReference) and not any(isinstance(i, N.Range) for i in a.indices):
            continue
        if not any(isinstance(d, ArrayType.ArrayBounds) and isinstance(d.upper, N.Node) for d in f.datatype.shape):
            continue
        if any(type(r) is N.Reference and r.symbol is f for r in callee.walk(N.Reference)):
            return True
    return False


def real_idxrefs(nodes, refs):
    """index lists of the references to the actual arrays in the inlined statements, in walk order"""
    _, _, N, _, _ = _psy()
    syms = {id(e["sym"]) for e in refs}
    out = []
    for node in nodes:
        for ref in node.walk(N.Reference):
            if id(ref.symbol) in syms and not isinstance(ref.parent, N.IntrinsicCall):    # not the `a` of LBOUND(a, 1)
                out.append(ref)
    return out


def export_call(call, callee, names):
    """-> (call ...) S-expression of the model"""
    from psyclone.psyir.symbols import DataSymbol, RoutineSymbol, StaticInterface
    _, _, N, _, _ = _psy()
    caller = call.ancestor(N.Routine)
    local_names = [names.id(n) for n in caller.symbol_table.symbols_dict.keys()]
    outer, tab = [], caller.symbol_table.parent_symbol_table()
    while tab is not None:
        outer += [names.id(n) for n in tab.symbols_dict.keys()]
        tab = tab.parent_symbol_table()
    rt = callee.symbol_table
    params = []
    for sym in rt.argument_list:
        if is_array(sym):
            los = lower_bounds(sym) + [1]
            params.append([names.id(sym.name), len(sym.datatype.shape), los[0], los[1]])
        else:
            params.append([names.id(sym.name), 0, 1, 1])
    locs, statics = [], []
    for sym in rt.symbols:
        if sym in rt.argument_list or isinstance(sym, RoutineSymbol) or not isinstance(sym, DataSymbol):
            continue
        locs.append(names.id(sym.name))
        if isinstance(sym.interface, StaticInterface) and not sym.is_constant:
            statics.append(names.id(sym.name))
    # RETURN statements: the model gets their number (any depth) and whether the last statement is one; the body
    # is exported without them (MiniF has no RETURN; `validate = ok` implies there is none except a trailing one)
    rets = callee.walk(N.Return)
    if callee.children and isinstance(callee.children[0], N.Return):
        raise minif.Unsupported("routine starts with RETURN (treated as empty by InlineTrans)")
    last_is_return = 1 if (callee.children and isinstance(callee.children[-1], N.Return)) else 0
    stripped = callee.copy()
    for ret in stripped.walk(N.Return):
        ret.detach()
    body = minif.export_stmt(list(stripped.children), names)
    actuals = [export_actual(a, names) for a in call.arguments]
    return ["call", local_names, outer, params, locs, statics, body, actuals, len(rets), last_is_return]


def export_use(assignment, call, callee, names):
    """the assignment containing a function reference, with the reference replaced by the result variable"""
    from psyclone.psyir.symbols import DataSymbol, INTEGER_TYPE
    _, _, N, _, _ = _psy()
    k = [id(c) for c in assignment.walk(N.Call)].index(id(call))
    asg = assignment.copy()
    asg.walk(N.Call)[k].replace_with(N.Reference(DataSymbol(callee.return_symbol.name, INTEGER_TYPE)))
    if any(type(c) is N.Call for c in asg.walk(N.Call)):
        raise minif.Unsupported("several calls in one statement")
    return minif.export_stmt(asg, names)


def export_cstmt(node, names, callsx, site=None):
    """caller statements with the call -> CStmt S-expression"""
    _, _, N, _, _ = _psy()
    if isinstance(node, (list, tuple)):
        parts = [export_cstmt(c, names, callsx, site) for c in node]
        return ["cseq"] + [p for p in parts if p is not None]
    if isinstance(node, N.Schedule):
        return export_cstmt(list(node.children), names, callsx, site)
    has_call = any(type(c) is N.Call for c in node.walk(N.Call))
    if not has_call:
        st = minif.export_stmt(node, names)
        return None if st is None else ["base", st]
    if type(node) is N.Call or node is site:
        return callsx
    if isinstance(node, N.IfBlock):
        els = export_cstmt(node.else_body, names, callsx, site) if node.else_body is not None else ["base", ["skip"]]
        return ["cite", minif.export_expr(node.condition, names), export_cstmt(node.if_body, names, callsx, site), els]
    if isinstance(node, N.Loop):
        return ["cloop", names.id(node.variable.name), minif.export_expr(node.start_expr, names),
                minif.export_expr(node.stop_expr, names), minif.export_expr(node.step_expr, names),
                export_cstmt(node.loop_body, names, callsx, site)]
    raise minif.Unsupported("call inside " + type(node).__name__)


def real_inline(src):
    """Run the real InlineTrans on the single call to `s`.
    -> dict(status 'ok'|'refuse'|'error', cls, inlined (list of PSyIR nodes), psyir, out_src, pre=exports)"""
    FortranReader, FortranWriter, N, InlineTrans, TransformationError = _psy()
    psyir = FortranReader().psyir_from_source(src)
    call = find_call(psyir)
    callee = [r for r in psyir.walk(N.Routine) if r.name.lower() == "s"][0]
    caller = call.ancestor(N.Routine)
    names = minif.Names()
    res = {"names": names}
    site = call                    # the statement the inlined code is placed at
    try:
        callsx = export_call(call, callee, names)
        res["callsx"] = callsx
        if callee.return_symbol is not None:
            # function reference: `site` is the enclosing assignment; the model gets it with the call replaced by
            # the function's result variable (`(fcall <call> <res> <stmt>)`)
            site = call.ancestor(N.Assignment)
            if site is None:
                # (the pinned apply() crashes with AttributeError here: it needs an enclosing Assignment)
                raise minif.Unsupported("function reference outside an assignment")
            res["fuse"] = [names.id(callee.return_symbol.name), export_use(site, call, callee, names)]
            callsx = ["fcall", callsx] + res["fuse"]
        res["prog"] = export_cstmt(list(caller.children), names, callsx, site)
    except minif.Unsupported as e:
        res["unsupported"] = str(e)
        if site is None:
            res["status"] = "skipped"
            return res
    try:
        res["idxrefs"] = export_idxrefs(call, callee, names)
    except minif.Unsupported:
        res["idxrefs"] = None
    res["whole_explicit"] = whole_explicit(call, callee)
    try:
        res["checkidx"] = export_checkidx(call, callee, names)
    except minif.Unsupported:
        res["checkidx"] = None
    res["base_ids"] = set(names.ids.values())
    parent, pos, nbefore = site.parent, site.position, len(site.parent.children)
    try:
        InlineTrans().apply(call)
    except TransformationError as e:
        res.update(status="refuse", cls=refusal_class(str(e.value)))
        return res
    except Exception as e:  # noqa: BLE001  (a crash of apply on an accepted call is reported, not hidden)
        res.update(status="error", cls=type(e).__name__ + ": " + str(e)[:200])
        return res
    nnew = len(parent.children) - nbefore + 1
    res["inlined_nodes"] = parent.children[pos:pos + nnew]
    res["status"] = "ok"
    if res.get("idxrefs"):
        # the substituted references, paired with the callee's by walk order (substitution is in place)
        real = real_idxrefs(res["inlined_nodes"], res["idxrefs"])
        if len(real) != len(res["idxrefs"]):
            res["idxrefs"] = None
        else:
            for ent, ref in zip(res["idxrefs"], real):
                ent["real"] = None
                if ent["ks"] is not None and isinstance(ref, N.ArrayReference) and ref.symbol is ent["sym"]:
                    try:
                        ent["real"] = [minif.export_expr(i, names) for i in ref.indices]
                    except minif.Unsupported:
                        ent["real"] = "unsupported"
    try:
        # only the transformed caller is written back; the rest of the file is the original text (keeps
        # FortranWriter defects on untouched routines, e.g. `dimension(1:)` -> `dimension()`, out of this check)
        new_main = FortranWriter()(caller)
        res["out_src"] = re.sub(r"[ \t]*subroutine main\(\).*?end subroutine main[ \t]*\n", lambda _: new_main, src,
                                count=1, flags=re.S)
    except Exception as e:  # noqa: BLE001
        res["out_src"] = None
        res["write_error"] = type(e).__name__ + ": " + str(e)[:200]
    # The exporter identifies variables by name.  Symbols left in a nested scope (none on the pinned tree: apply
    # moves them to the routine's table) are distinct variables even when they share a name with a routine-level
    # symbol (the backend declares them under fresh names), so give them distinguishable names before exporting.
    # The tree is not used again after this point.
    for k, sched in enumerate(caller.walk(N.Schedule)):
        if sched is not caller:
            for sym in list(sched.symbol_table.symbols):
                sym._name = f"{sym.name}__scope{k}"        # pylint: disable=protected-access
    try:
        res["inlined"] = minif.export_stmt(list(res["inlined_nodes"]), names)
    except minif.Unsupported as e:
        res["inlined_unsupported"] = str(e)
    return res


# ---------------------------------------------------------------------------------------------
# canonical forms
def flat(st):
    """S-expression statement -> canonical nested lists with flattened sequences"""
    op = st[0]
    if op in ("seqs", "seq"):
        out = []
        for c in st[1:]:
            f = flat(c)
            out += f[1] if f[0] == "block" else [f]
        return ["block", out]
    if op == "skip":
        return ["block", []]
    if op == "ite":
        return ["ite", st[1], flat(["seq", st[2]]), flat(["seq", st[3]])]
    if op == "loop":
        return ["loop", st[1], st[2], st[3], st[4], flat(["seq", st[5]])]
    return st


def canon_stmt(st, base_ids):
    return alpha(flat(["seq", st]), base_ids)


def alpha(st, base_ids):
    """rename every id outside base_ids to 10000, 10001, ... in order of first occurrence"""
    ren = {}

    def idf(x):
        if x in base_ids:
            return x
        if x not in ren:
            ren[x] = 10000 + len(ren)
        return ren[x]

    def go(t):
        if not isinstance(t, list) or not t:
            return t
        op = t[0]
        if op in ("var", "assign", "idx1", "idx2", "store1", "store2", "loop") and len(t) > 1 and isinstance(t[1], int):
            return [op, idf(t[1])] + [go(c) for c in t[2:]]
        if op == "lit":
            return t
        return [go(c) if isinstance(c, list) else c for c in t]
    return go(st)


def expr_vars(e):
    op = e[0]
    if op == "lit":
        return set()
    if op == "var":
        return {e[1]}
    if op in ("idx1", "idx2"):
        return {e[1]}.union(*[expr_vars(c) for c in e[2:]])
    if op == "un":
        return expr_vars(e[2])
    return expr_vars(e[2]) | expr_vars(e[3])


def written(st):
    op = st[0]
    if op in ("seq", "seqs"):
        return set().union(*[written(c) for c in st[1:]]) if len(st) > 1 else set()
    if op in ("assign", "store1", "store2"):
        return {st[1]}
    if op == "ite":
        return written(st[2]) | written(st[3])
    if op == "loop":
        return {st[1]} | written(st[5])
    return set()


def finding_class(callsx, model_stmt, flags):
    """which known-finding class a call belongs to (None = inside the proved domain).  The gate is the model's own
    flags (Legal, WellScoped, IndexStable); the actual kinds only choose the label."""
    legal, scoped, stable = flags
    if not legal or not scoped:
        return ["illegal"]
    if stable:
        return None
    w = written(model_stmt)
    lab = set()
    for a in callsx[7]:
        if a[0] == "expr":
            if expr_vars(a[1]) & w:
                lab.add("C07-expr-actual-reevaluated")
        elif a[0] != "var":
            es = [x for x in a[2:] if isinstance(x, list)]
            keys = set().union(*[expr_vars(x) for x in es]) if es else set()
            if keys & w:
                lab.add("C07-index-modified")
    return sorted(lab) or ["C07-index-modified"]


# ---------------------------------------------------------------------------------------------
def gf(src):
    return minif.gfortran_run(src + c07_gen.WRAPPER, flags=GF_FLAGS, timeout=20)


def parse_out(out):
    try:
        return [int(t) for t in out.split()]
    except ValueError:
        return None


def run_gf(r):
    if r.get("status") == "ok" and r.get("out_src"):
        r["gf_orig"] = gf(r["src"])
        if r["gf_orig"][0] == "ok":
            r["gf_inl"] = gf(r["out_src"])
    return r


MARK = 777777


def gf_batch(srcs):
    """Compile and run several single-module programs as ONE program (gfortran start-up dominates under load).
    -> list of (status, stdout) or None when the batch as a whole failed (caller falls back to single runs)."""
    mods, uses, calls = [], [], []
    for k, src in enumerate(srcs):
        mods.append(re.sub(r"\bmodule m\b", f"module m_{k}", src))
        uses.append(f"  use m_{k}, only: main_{k} => main")
        calls += [f"  print *, {MARK}, {k}", f"  call main_{k}()"]
    prog = "\n".join(mods) + "program p\n" + "\n".join(uses) + "\n" + "\n".join(calls) + "\nend program p\n"
    st, out = minif.gfortran_run(prog, flags=GF_FLAGS, timeout=60)
    if st != "ok":
        return None
    res, cur = {}, None
    for line in out.split("\n"):
        t = line.split()
        if len(t) == 2 and t[0] == str(MARK):
            cur = int(t[1])
            res[cur] = []
        elif cur is not None:
            res[cur].append(line)
    if sorted(res) != list(range(len(srcs))):
        return None
    return [("ok", "\n".join(res[k]) + "\n") for k in range(len(srcs))]


def gf_group(srcs, idxs):
    """results for srcs[i], i in idxs: one batch, bisected when the batch fails"""
    if len(idxs) == 1:
        return {idxs[0]: gf(srcs[idxs[0]])}
    res = gf_batch([srcs[i] for i in idxs])
    if res is not None:
        return dict(zip(idxs, res))
    h = len(idxs) // 2
    out = gf_group(srcs, idxs[:h])
    out.update(gf_group(srcs, idxs[h:]))
    return out


def gf_many(srcs, size=10):
    groups = [list(range(i, min(i + size, len(srcs)))) for i in range(0, len(srcs), size)]
    out = {}
    with concurrent.futures.ThreadPoolExecutor(max_workers=8) as ex:
        for res in ex.map(lambda g: gf_group(srcs, g), groups):
            out.update(res)
    return [out[i] for i in range(len(srcs))]


def run_gf_all(results, risky=()):
    """`risky`: ids of results whose inlined program is expected to misbehave (compiled in small groups)"""
    a = [r for r in results if r.get("status") == "ok" and r.get("out_src")]
    for r, x in zip(a, gf_many([r["src"] for r in a])):
        r["gf_orig"] = x
    b = [r for r in a if r["gf_orig"][0] == "ok"]
    safe = [r for r in b if id(r) not in risky]
    for r, x in zip(safe, gf_many([r["out_src"] for r in safe])):
        r["gf_inl"] = x
    rk = [r for r in b if id(r) in risky]
    for r, x in zip(rk, gf_many([r["out_src"] for r in rk], size=2)):
        r["gf_inl"] = x


def evaluate(src, modvar, with_gf=True):
    """everything about one case that needs the real code and gfortran (no Lean)"""
    r = real_inline(src)
    r["modvar"] = c07_gen.modvars_of(src)      # module-level variables (printed after the caller's own)
    r["src"] = src
    return run_gf(r) if with_gf else r


def property_verdict(r):
    """None if the property holds on this case / the case is not a valid input; else (observed, expected)"""
    if r.get("status") == "error":
        return ("InlineTrans.apply crashed: " + r["cls"], "accepted call inlined or refused with TransformationError")
    if r.get("status") != "ok":
        return None
    if r.get("out_src") is None:
        return ("inlined tree cannot be written: " + r.get("write_error", ""), "valid Fortran")
    go = r.get("gf_orig")
    if not go or go[0] != "ok":
        return None           # original program invalid / traps: not an input of the property
    gi = r.get("gf_inl")
    if gi[0] != "ok":
        return ("inlined program: " + gi[0] + ": " + gi[1][:300], "stdout " + " ".join(go[1].split()))
    if go[1].split() != gi[1].split():
        return ("stdout " + " ".join(gi[1].split()), "stdout " + " ".join(go[1].split()))
    return None


def run(chk):
    chk.cov["rule"] = ("generated module with caller main + callee s (scalar / element / expression / literal / rank-1 / rank-2 / "
                       "section / row / column actuals, shifted and explicit formal bounds, clashing local names, callee "
                       "modifying arguments and subscript variables, call at top level / in a loop / in an if) PLUS the systematic "
                       "array-section family c07_sec (rank-1..3 actuals x position of the sections x scalar-index class x section "
                       "class x formal lower bound x step x body, enumerated); non-trivial = "
                       "the call was accepted and the callee has >= 2 statements; distinct by source text")
    chk.assumptions += [
        "MiniF value domain: default INTEGERs without overflow (-ftrapv traps are skipped)",
        "callee locals are written before they are read (generator); CALL semantics starts them with arbitrary contents",
        "actual arguments passed to definable dummies do not alias (Fortran 2018 15.5.2.13); the theorems do not need it",
        "formal array lower bounds are integer literals; an expression actual's dummy is never defined",
        "declared bounds of the caller's arrays are integer literals and a section start is a literal or contains a variable: "
        "is_lower_bound (SymbolicMaths equality with the declared bound) is modelled as syntactic equality with the literal",
        "index map (updateIdx / C07_index_map_sound) covers ELEMENT references x(k..) for any rank; whole-array and full-range "
        "references to array formals (x, x(:)) are outside the Lean model and checked by gfortran only (known finding "
        "C07-explicit-shape-whole-array lives there); rank-3 programs are not executed by MiniF: index map + checkIdx + gfortran",
        "explicit-shape dummies of rank >= 2 whose extents differ from the section's (sequence association) are not generated",
        "exporters harness/minif.py and harness/props/c07.py (PSyIR -> MiniF / model Call) are trusted",
        "model in FIXED mode for fixes/C07-loopvar-formal.patch, fixes/C07-outer-capture.patch and (crash of apply on x(:) with "
        "a formal declared `lo:`) fixes/C07-fullrange-assumed-lower.patch (an unfixed tree yields "
        "VIOLATION on those inputs); callee frame: C07_frame_independent shows the CALL's visible result does not depend on "
        "where fresh storage for the callee locals is taken"]
    chk.cov["trusted_base"] = ["Lean 4.33.0 kernel", "axioms propext/Classical.choice/Quot.sound only (audited)",
                               "MiniF semantics (validated against gfortran on every accepted case)",
                               "PSyIR->model exporters in harness/", "gfortran 12 as execution oracle"]
    import time
    t0 = time.time()
    chk.lean()
    chk.cov["phase_s"] = {"lean": round(time.time() - t0, 1)}
    n = getattr(chk, "random_cases", 800 if chk.tier == "thorough" else 60)     # (attribute: test hook, never set by run.py)
    cases = []
    for path in sorted(glob.glob(os.path.join(common.ROOT, "corpus", "C07", "*.json"))):
        p = json.load(open(path))
        cases.append((p["src"], p.get("modvar", "integer :: g" in p["src"]), "corpus"))
    for src, kind in c07_sec.family(chk.rng, chk.tier == "thorough"):      # systematic array-section family
        cases.append((src, False, kind))
    for _ in range(n):
        c = c07_gen.gen_case(chk.rng)
        cases.append((c.src, c.modvar, c.kind))
    # real code + gfortran (parallel: gfortran dominates)
    results = [evaluate(c[0], c[1], with_gf=False) for c in cases]     # fparser is not thread-safe
    chk.cov["phase_s"]["psyclone"] = round(time.time() - t0, 1)
    # model
    lines, idx = [], []
    for k, r in enumerate(results):
        if "callsx" in r and "unsupported" not in r:
            idx.append(k)
            lines.append(sx(["inline", r["callsx"]] + r.get("fuse", [])))
            lines.append(sx(["run", r["prog"], [], [list(q) for q in c07_gen.queries(r["names"], r["modvar"])]]))
    out = common.driver("C07", lines)
    # index map of array-section actuals (any rank): model `updateIdx` vs the indices InlineTrans produced
    ilines, iidx = [], []
    for k, r in enumerate(results):
        if r.get("status") == "ok" and r.get("idxrefs"):
            for e in r["idxrefs"]:
                if e["ks"] is not None and e.get("real") is not None:
                    iidx.append((k, e))
                    ilines.append(sx(["idxmap", e["aidx"], e["los"], e["ks"]]))
    cidx = [(k, fr, ai) for k, r in enumerate(results) if r.get("checkidx") and r.get("status") in ("ok", "refuse")
            for fr, ai in r["checkidx"]]
    iout = common.driver("C07", ilines + [sx(["checkidx", fr, ai]) for _, fr, ai in cidx]) if ilines or cidx else []
    cout, iout = iout[len(ilines):], iout[:len(ilines)]
    chk_model = {}
    for (k, fr, ai), mo in zip(cidx, cout):
        if not mo.startswith("("):
            raise common.Infra("C07 driver: " + mo)
        m = parse_sx(mo)
        chk_model.setdefault(k, "ok")
        if chk_model[k] == "ok" and m[0] == "refuse":
            chk_model[k] = m[1]                      # the first refused argument decides
    chk_bad = {}
    for k, mv in chk_model.items():
        r = results[k]
        if r["status"] == "ok":
            rv = "ok"
        elif r["cls"] in ("unknownType", "rank", "stride"):
            rv = r["cls"]
        else:
            continue                                  # refused by an earlier check of validate
        if rv != mv:
            chk_bad[k] = (mv, rv)
    idx_bad = {}
    for (k, e), mo in zip(iidx, iout):
        if not mo.startswith("("):
            raise common.Infra("C07 driver: " + mo)
        m = parse_sx(mo)
        want = m[1:] if m[0] == "ok" else None
        if want != e["real"]:
            idx_bad.setdefault(k, (e, mo))
    chk.cov["phase_s"]["driver"] = round(time.time() - t0, 1)
    risky = {id(results[k]) for j, k in enumerate(idx)
             if out[2 * j].startswith("(ok") and parse_sx(out[2 * j])[2:5] != [1, 1, 1]}
    run_gf_all(results, risky)                                         # batched, threaded: gfortran dominates
    chk.cov["phase_s"]["gfortran"] = round(time.time() - t0, 1)
    dist = {"accepted": 0, "refused": 0, "unsupported": 0, "invalid_original": 0, "in_proved_domain": 0,
            "index_map_refs": len(iidx), "index_map_cases": len({k for k, _ in iidx}),
            "index_map_rank3_refs": len([1 for _, e in iidx if len(e["aidx"]) == 3]), "checkidx_cases": len(chk_model),
            "known_class": {}, "known_class_failing": {}, "refusal": {}, "kind": {}, "gfortran_pairs": 0}
    model = {}
    for j, k in enumerate(idx):
        model[k] = (out[2 * j], out[2 * j + 1])
    failing_known = {}
    for k, (case, r) in enumerate(zip(cases, results)):
        src, modvar, kind = case
        dist["kind"][kind] = dist["kind"].get(kind, 0) + 1
        verdict = property_verdict(r)
        if k in idx_bad:
            e, mo = idx_bad[k]
            chk.correspondence_broken("index map: _update_actual_indices differs from the model (updateIdx) on x("
                                      + sx(e["ks"]) + ") bound to actual " + sx(e["aidx"]), {"src": src}, mo, sx(e["real"]))
        if k in chk_bad:
            chk.correspondence_broken("validate (array-section argument checks, model checkIdx) differs from the real code",
                                      {"src": src}, chk_bad[k][0], chk_bad[k][1])
        if k not in model:
            dist["unsupported"] += 1
            chk.case({"src": src}, nontrivial=(k in {kk for kk, _ in iidx}), agreed=k not in idx_bad and k not in chk_bad)
            if verdict:
                payload = {"kind": "failing-input", "src": src, "observed": verdict[0], "expected": verdict[1],
                           "note": "outside the modelled subset: " + r.get("unsupported", "")}
                if r.get("whole_explicit") and r.get("status") == "ok" and r.get("out_src") and r.get("gf_inl"):
                    c = "C07-explicit-shape-whole-array"     # known class (decided on the ORIGINAL program, see whole_explicit)
                    dist["known_class_failing"][c] = dist["known_class_failing"].get(c, 0) + 1
                    failing_known.setdefault(c, payload)
                else:
                    chk.violation(payload)
            continue
        mo, mrun = model[k]
        if not mo.startswith("("):
            raise common.Infra("C07 driver: " + mo + " on " + sx(r["callsx"])[:300])
        m = parse_sx(mo)
        agreed = True
        cls = None
        if m[0] == "refuse":
            if not (r["status"] == "refuse" and r["cls"] == m[1]):
                agreed = False
                chk.correspondence_broken("validate: model refuses, real code differs", {"src": src},
                                          mo, [r["status"], r.get("cls")])
        else:
            flags = m[2:5]
            cls = finding_class(r["callsx"], m[1], flags)
            if r["status"] != "ok":
                agreed = False
                chk.correspondence_broken("validate: model accepts, real code refuses/crashes", {"src": src},
                                          "ok", [r["status"], r.get("cls")])
            elif "inlined" not in r:
                dist["unsupported"] += 1
            else:
                # every name the caller cannot see (merged callee locals, renamed or not) is compared up to renaming
                base = set(r["callsx"][1]) | set(r["callsx"][2])
                a1, a2 = canon_stmt(m[1], base), canon_stmt(r["inlined"], base)
                if a1 != a2:
                    agreed = False
                    chk.correspondence_broken("apply: inlined statements differ from the model (up to fresh names)",
                                              {"src": src}, sx(a1), sx(a2))
        if r["status"] == "ok":
            dist["accepted"] += 1
        elif r["status"] == "refuse":
            dist["refused"] += 1
            dist["refusal"][r["cls"]] = dist["refusal"].get(r["cls"], 0) + 1
        # execution: Lean CALL semantics / inlined model vs gfortran
        go, gi = r.get("gf_orig"), r.get("gf_inl")
        if r["status"] == "ok" and go and go[0] != "ok":
            dist["invalid_original"] += 1
        if r["status"] == "ok" and go and go[0] == "ok" and mrun.startswith("(("):
            vals = parse_sx(mrun)
            if not minif.overflowed(vals[0]) and cls != ["illegal"]:
                dist["gfortran_pairs"] += 1
                if parse_out(go[1]) != vals[0]:
                    agreed = False
                    chk.correspondence_broken("CALL semantics (execC) differs from gfortran on the original program",
                                              {"src": src}, vals[0], parse_out(go[1]))
                if agreed and gi and gi[0] == "ok" and not minif.overflowed(vals[1]) and parse_out(gi[1]) != vals[1]:
                    agreed = False
                    chk.correspondence_broken("model of the inlined program differs from gfortran on the real inlined program",
                                              {"src": src}, vals[1], parse_out(gi[1]))
        nontriv = r["status"] == "ok" and len(r.get("inlined_nodes", [])) >= 2
        chk.case({"src": src}, nontrivial=nontriv, agreed=agreed and k not in idx_bad)
        if cls:
            for c in cls:
                dist["known_class"][c] = dist["known_class"].get(c, 0) + 1
        elif r["status"] == "ok":
            dist["in_proved_domain"] += 1
        # the property itself
        if verdict:
            payload = {"kind": "failing-input", "src": src, "modvar": modvar, "observed": verdict[0], "expected": verdict[1],
                       "model_flags(legal,wellscoped,stable)": m[2:5] if m[0] == "ok" else None}
            if cls and cls != ["illegal"] and agreed:
                for c in cls:
                    dist["known_class_failing"][c] = dist["known_class_failing"].get(c, 0) + 1
                    failing_known.setdefault(c, payload)
            elif cls == ["illegal"]:
                pass      # generator produced a call outside Fortran's rules; not an input of the property
            else:
                chk.violation(payload)
    chk.cov["distribution"] = dist
    known_ids = set()
    for e in common.known_findings("C07"):
        known_ids.add(e["id"])
        if replay(dict(e["witness"], quiet=True)) == 1:
            chk.known(e["what"])
    # a failing class that is not a listed finding is new
    for c, payload in failing_known.items():
        if c not in known_ids:
            chk.violation(dict(payload, note="class " + c + " is not a listed known finding"))


def replay(payload):
    quiet = payload.get("quiet")
    if "src" not in payload:
        print("replay file holds no failing input:", json.dumps(payload.get("broken", payload), indent=1)[:3000])
        return 1
    src = payload["src"]
    r = evaluate(src, payload.get("modvar", False))
    v = property_verdict(r)
    if not quiet:
        print(src)
        print("InlineTrans:", r.get("status"), r.get("cls", ""))
        if r.get("out_src"):
            m = re.search(r"subroutine main\(\).*?end subroutine main", r["out_src"], re.S)
            print(m.group(0) if m else r["out_src"])
        print("original:", r.get("gf_orig"))
        print("inlined :", r.get("gf_inl"))
        print("property:", ("VIOLATED  observed " + v[0] + "  expected " + v[1]) if v else "holds")
    return 1 if v else 0
