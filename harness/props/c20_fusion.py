"""C20 loop-fusion family: invokes of 2-4 LFRic built-ins that share fields/scalars in all read/write roles,
every candidate history of pairwise `LFRicLoopFuseTrans` applications, and — for every ACCEPTED history — the
real fused PSy layer (generated text for the program structure, zero-initialisations and bounds; lowered PSyIR
for the statements) exported as a small program  [init s | loop lo ub [s1; s2; ...]]  over the variables of the
invoke.  The property is evaluated by executing that program per DoF and comparing with the documented formulas
applied built-in by built-in in invoke order (each completes over all DoFs before the next starts)."""
import itertools
import os
import re
import tempfile

import common
from props import c20_extract as X

FIELDS = ["f1", "f2", "f3"]
SCALARS = ["a", "b", "asum", "bsum"]
POOL = ["x_plus_y", "inc_x_plus_y", "a_times_x", "inc_a_times_x", "setval_c", "setval_x", "ax_plus_y", "inc_ax_plus_y",
        "inc_x_times_y", "x_minus_y", "inc_a_plus_x", "ax_plus_by", "sum_x", "x_innerproduct_y", "x_innerproduct_x"]
HDR = ("program c20_fuse\n use constants_mod, only: r_def\n use field_mod, only: field_type\n implicit none\n"
       " type(field_type) :: f1, f2, f3\n real(r_def) :: a, b, asum, bsum\n")

# systematic core: (built-in, args) lists covering the scalar/field dependence shapes between adjacent loops
CORE = [
    [("x_innerproduct_y", ["asum", "f1", "f2"]), ("inc_a_times_x", ["b", "f1"]), ("inc_a_times_x", ["asum", "f1"])],
    [("sum_x", ["asum", "f1"]), ("inc_a_times_x", ["asum", "f2"])],
    [("sum_x", ["asum", "f1"]), ("setval_c", ["f2", "b"]), ("a_times_x", ["f3", "asum", "f2"])],
    [("sum_x", ["asum", "f1"]), ("inc_a_plus_x", ["a", "f2"]), ("setval_x", ["f3", "f2"]), ("inc_a_times_x", ["asum", "f3"])],
    [("inc_a_times_x", ["asum", "f1"]), ("sum_x", ["asum", "f2"])],
    [("setval_c", ["f1", "a"]), ("x_plus_y", ["f3", "f1", "f2"]), ("sum_x", ["asum", "f3"])],
    [("inc_a_times_x", ["b", "f1"]), ("x_innerproduct_x", ["asum", "f1"]), ("inc_x_plus_y", ["f2", "f1"])],
    [("sum_x", ["asum", "f1"]), ("x_innerproduct_y", ["bsum", "f1", "f2"])],
    [("inc_x_plus_y", ["f1", "f2"]), ("inc_x_times_y", ["f2", "f1"]), ("x_minus_y", ["f3", "f1", "f2"])],
    [("x_innerproduct_y", ["asum", "f1", "f2"]), ("setval_c", ["f3", "b"]), ("sum_x", ["bsum", "f3"]), ("ax_plus_by", ["f1", "asum", "f2", "bsum", "f3"])],
]


def random_scenario(rng, metas):
    k = rng.choice([2, 3, 3, 4])
    calls = []
    for _ in range(k):
        name = rng.choice(POOL)
        fields = FIELDS[:]
        rng.shuffle(fields)
        scalars = SCALARS[:]
        rng.shuffle(scalars)
        args = []
        for kind, _, access in metas[name]:
            if kind == "field":
                args.append(fields.pop())
            elif access == "gh_sum":
                v = rng.choice([x for x in ("asum", "bsum") if x in scalars])
                scalars.remove(v)
                args.append(v)
            else:
                args.append(scalars.pop())     # an argument may appear only once per call
        calls.append((name, args))
    return calls


def histories(k):
    """All sequences of adjacent merges (index of the left loop in the current schedule), every length >= 1."""
    out = []

    def rec(prefix, nloops):
        if nloops < 2:
            return
        for p in range(nloops - 1):
            h = prefix + [p]
            out.append(h)
            rec(h, nloops - 1)
    rec([], k)
    return out


def invoke_text(calls, case_names):
    return ", ".join(f"{case_names[n]}({', '.join(a)})" for n, a in calls)


_INFO = {}


def parse_scenarios(scenarios, case_names):
    key = repr(scenarios)
    if key in _INFO:
        return _INFO[key]
    X._cfg()
    from psyclone.parse.algorithm import parse
    src = HDR + "".join(f" call invoke({invoke_text(c, case_names)})\n" for c in scenarios) + "end program c20_fuse\n"
    with tempfile.TemporaryDirectory(prefix="c20_fu_") as d:
        path = os.path.join(d, "c20_fuse.f90")
        open(path, "w").write(src)
        with X._ParseCache():
            _, info = parse(path, api="dynamo0.3")
    _INFO[key] = info
    return info


def _program_from(text, sched, fmap, smap):
    """Generated subroutine text + lowered built-ins -> [["init", stmt] | ["loop", lo, ub, [stmts]]] or a reason."""
    from psyclone.domain.lfric import LFRicLoop
    from psyclone.domain.lfric.lfric_builtins import LFRicBuiltIn
    from psyclone.psyir.backend.fortran import FortranWriter
    fw = FortranWriter()
    for k in sched.walk(LFRicBuiltIn):
        k.lower_to_language_level()
    loops = sched.walk(LFRicLoop)
    code = [l.strip() for l in text.splitlines() if l.strip() and not l.strip().startswith("!")]
    bounds = {}
    for l in code:
        m = re.fullmatch(r"(loop\d+_(?:start|stop)) = (.*)", l)
        if m:
            bounds[m.group(1)] = X.classify_bound(m.group(2))
    prog, i, li = [], 0, 0
    while i < len(code):
        l = code[i]
        m = re.fullmatch(r"(\w+) = ([-+0-9.eEdD]+(?:_\w+)?)", l)
        if m and m.group(1) in smap:
            prog.append(["init", ["sassign", smap[m.group(1)], X.lit_ast(m.group(2))]])
        m = re.fullmatch(r"DO df = (loop\d+_start), (loop\d+_stop), 1", l)
        if m:
            j = code.index("END DO", i)
            body_text = code[i + 1:j]
            if li >= len(loops):
                return "more DO loops in the text than LFRicLoops in the schedule"
            stmts = loops[li].loop_body.children
            li += 1
            if len(stmts) != len(body_text):
                return "loop body text and lowered statements differ in length"
            body = []
            for st, tx in zip(stmts, body_text):
                if X._norm_f(fw._visit(st).strip().splitlines()[-1]) != X._norm_f(tx):
                    return f"statement text '{tx}' differs from the lowered PSyIR"
                body.append(X.export_stmt(st, fmap, smap, "df"))
            lo, ub = bounds.get(m.group(1), ["other", 0]), bounds.get(m.group(2), ["other", 0])
            prog.append(["loop", lo, ub, body, body_text])
            i = j
        elif re.match(r"DO ", l):
            return "unexpected loop: " + l
        i += 1
    if li != len(loops):
        return "fewer DO loops in the text than LFRicLoops in the schedule"
    return prog


def partition_of(k, history):
    groups = [[i] for i in range(k)]
    for p in history:
        groups[p:p + 2] = [groups[p] + groups[p + 1]]
    return tuple(tuple(g) for g in groups)


def fused_programs(scenarios, case_names, only=None, every_history=False):
    """-> list of dicts {scenario index, calls, history, same_space, accepted, program | refusal}.
    Phase 1 applies every candidate history (acceptance only).  Phase 2 generates and exports the fused PSy
    layer: for every accepted history when `every_history` (thorough tier, replay), otherwise once per distinct
    accepted partition of the built-ins into loops (fusion appends the second body to the first, so the
    generated code depends on the partition only; the other accepted histories share the exported program).
    `only`: optional {scenario index: [history]} restriction (replay)."""
    cfg = X._cfg()
    from psyclone.psyGen import PSyFactory
    from psyclone.domain.lfric.transformations import LFRicLoopFuseTrans
    info = parse_scenarios(scenarios, case_names)
    old = cfg.distributed_memory
    cfg.distributed_memory = False
    fmap = {f + "_data": i for i, f in enumerate(FIELDS)}
    smap = {s: i for i, s in enumerate(SCALARS)}
    ft = LFRicLoopFuseTrans()

    def run_batches(cand, generate):
        recs = []
        nbatch = max((len(v) for v in cand.values()), default=0)
        for b in range(nbatch):
            psy = PSyFactory("dynamo0.3", distributed_memory=False).create(info)
            applied = {}
            for si, hs in cand.items():
                if b >= len(hs):
                    continue
                h, same = hs[b]
                sched = psy.invokes.invoke_list[si].schedule
                rec = {"scenario": si, "calls": scenarios[si], "history": h, "same_space": same, "accepted": True,
                       "partition": partition_of(len(scenarios[si]), h)}
                for p in h:
                    try:
                        ft.apply(sched[p], sched[p + 1], {"same_space": same})
                    except Exception as err:   # noqa: BLE001  a refusal ends this history
                        rec["accepted"] = False
                        rec["refusal"] = str(err)[-160:]
                        break
                recs.append(rec)
                if rec["accepted"]:
                    applied[si] = rec
            if not applied or not generate:
                continue
            text = str(psy.gen)
            subs = dict((m.group(1).lower(), m.group(0)) for m in
                        re.finditer(r"SUBROUTINE (\w+)\(.*?END SUBROUTINE \1", text, re.S))
            for si, rec in applied.items():
                inv = psy.invokes.invoke_list[si]
                rec["program"] = _program_from(subs.get(inv.name.lower(), ""), inv.schedule, fmap, smap)
        return recs

    try:
        cand = {}
        for si, calls in enumerate(scenarios):
            hs = [(h, True) for h in histories(len(calls))] + [([0], False)]
            if only is not None:
                hs = [(h, True) for h in only.get(si, [])]
            cand[si] = hs
        if every_history or only is not None:
            return run_batches(cand, True)
        recs = run_batches(cand, False)
        reps = {}
        for r in recs:
            if r["accepted"]:
                reps.setdefault(r["scenario"], {}).setdefault(r["partition"], (r["history"], r["same_space"]))
        gen = run_batches({si: list(d.values()) for si, d in reps.items()}, True)
        progs = {(g["scenario"], g["partition"]): g.get("program", "representative history refused on replay")
                 for g in gen}
        for r in recs:
            if r["accepted"]:
                r["program"] = progs.get((r["scenario"], r["partition"]), "no program generated")
        return recs
    finally:
        cfg.distributed_memory = old


def rename_doc(doc, args):
    """doc AST over argument positions -> over the invoke's variables."""
    def var(pos):
        n = args[pos]
        return ("fld", FIELDS.index(n)) if n in FIELDS else ("scal", SCALARS.index(n))

    def rec(e):
        if e[0] in ("fld", "scal"):
            k, i = var(e[1])
            return [k, i]
        if e[0] in ("lit", "unk"):
            return e
        return [e[0]] + [rec(x) for x in e[1:]]
    if doc[0] == "randomFill":
        return [doc[0], var(doc[1])[1]]
    return [doc[0], var(doc[1])[1], rec(doc[2])]


def scalar_dependences(prog):
    """(readers-before, readers-after) of a reduction variable inside one fused loop body."""
    def uses(e, t):
        if e[0] == "scal":
            return e[1] == t
        return any(uses(x, t) for x in e[1:] if isinstance(x, list))
    before = after = 0
    for item in prog:
        if item[0] != "loop":
            continue
        body = item[3]
        for j, s in enumerate(body):
            if s[0] != "sassign":
                continue
            for i, o in enumerate(body):
                if i == j or o[0] == "rand":
                    continue
                if uses(o[2], s[1]) :
                    if i < j:
                        before += 1
                    else:
                        after += 1
    return before, after
