"""C24 — generated algorithm layer and PSy layer agree on invoke arguments.

Real code: `psyclone.generator.generate(file, api="dynamo0.3")` on generated algorithm files; both generated layers are
read back from their Fortran text (props/c24_real.py).  Model: Lean `C24.generate` through the driver.

Checked per invoke (a) the PROPERTY ITSELF, model-free: same routine name, same number of arguments, every actual is
an expression written in the invoke, every kernel argument's PSy-layer symbols trace (through the routine's
assignments: proxies, data pointers, vector components, quadrature proxies, stencil maps) to dummies whose actual
arguments are exactly the expressions written at that position of that kernel in the invoke, literals handed over
unchanged, dummy names pairwise distinct and never overwritten; (b) CORRESPONDENCE with the model: actual list,
dummy list up to renaming (same equality pattern, real name starts with the model's root), per-argument symbol.

Which positions of a kernel call carry which algorithm argument is not written down here: it is CALIBRATED per
kernel by running the real code on `invoke(K(za..), K(zb..))` with plain distinct names, where the answer is
unambiguous; the assumption is that the layout of a kernel call depends on the kernel only.
"""
import re

import common
from common import driver, sx, parse_sx
from props import c24_gen as G
from props import c24_real as R

CLEAN_REFUSALS = {"GenerationError", "ParseError", "NotImplementedError"}


class CalibrationViolation(Exception):
    """The real code breaks the property already on invoke(K(zza0..), K(zzb0..)) with plain distinct names."""

    def __init__(self, case, detail):
        super().__init__(detail)
        self.case, self.detail = case, detail


# ------------------------------------------------------------------------------------------ generator
def gen_kernel(rng, pools, force=None):
    if force is not None:
        kname, builtin = force
    elif rng.random() < 0.4:
        kname, builtin = rng.choice(G.BUILTINS), True
    else:
        kname, builtin = rng.choice(G.KERNELS)[2], False
    sig = R.signature(kname, builtin)
    args, seen = [], []
    for role, kind in sig:
        e = pools.pick(kind, avoid=seen if role == "data" else ())
        if role == "data" and not e["lit"]:
            seen.append(e["canon"])
        args.append(dict(e, role=role, kind=kind))
    mod = None if builtin else [m for _, m, t in G.KERNELS if t == kname][0]
    mark_codeblocks(args, rng.random())
    return {"kname": kname, "builtin": builtin, "module": mod, "args": args}


def mark_codeblocks(args, salt):
    """PSyIR path only: fparser2 reads a kernel call holding a REAL literal as a structure constructor and the
    %-component arguments of such a call reach `_add_arg` as CodeBlocks, which are always passed: each of them is a
    spelling class of its own."""
    if any(a["lit"] and a["kind"] == "rscalar" for a in args):
        for j, a in enumerate(args):
            if not a["lit"] and not a["dirconst"] and "%" in a["canon"]:
                a["cls"] = f"codeblock:{salt}:{j}"


def _label_src(rng, name):
    q = rng.choice(["'", '"'])
    return G.noisy(rng, "name") + rng.choice(["=", " = "]) + q + G.noisy(rng, name).replace(" ", "") + q


def gen_file(rng, malformed=False):
    clash = rng.random() < 0.08
    pools = G.Pools(rng, clash=clash)
    ninv = rng.choice([1, 1, 2, 2, 3, 4])
    invokes, labels = [], []
    for _ in range(ninv):
        nk = rng.choice([1, 1, 2, 2, 3, 4])
        kernels = [gen_kernel(rng, pools) for _ in range(nk)]
        name = name_src = None
        if rng.random() < 0.4:
            name = rng.choice(["mine", "step_1", "compute", "a_b", "x"]) + str(len(labels))
            if rng.random() < 0.15:
                name = "invoke_" + name          # already prefixed: used as it is
            labels.append(name)
            name_src = _label_src(rng, name)
        invokes.append({"name": name, "name_src": name_src, "kernels": kernels})
    if malformed:
        kind = rng.choice(["litdir", "dup", "arity", "label", "label"])
        k = rng.choice(rng.choice(invokes)["kernels"])
        if kind == "litdir":
            k2 = gen_kernel(rng, pools, force=("testkern_stencil_xory1d_type", False))
            for a in k2["args"]:
                if a["role"] == "direction":
                    a.update(G.lit(rng.choice(["1", "2"])), role="direction", cls=None)
            rng.choice(invokes)["kernels"].append(k2)
        elif kind == "dup":
            data = [a for a in k["args"] if a["role"] == "data" and not a["lit"] and a["kind"] == "field"]
            if len(data) >= 2:
                src = dict(data[0])
                data[1].update(canon=src["canon"], root=src["root"], src=G.noisy(rng, src["canon"]))
                data[1]["cls"] = G.spelling_class(data[1]["src"])
        elif kind == "arity":
            k["args"].append(dict(pools.pick("field"), role="data", kind="field"))
            k["arity_broken"] = True
        else:
            # labels whose routine name coincides with another invoke's: invoke_<idx>, invoke_<idx>_<kernel>,
            # and the pair  x / invoke_x
            inv = rng.choice(invokes)
            j = rng.randrange(len(invokes))
            other = invokes[j]
            how = rng.choice(["idx", "idxkern", "pair", "digits"])
            if how == "idx":
                name = f"invoke_{j}"
            elif how == "idxkern":
                kn = other["kernels"][0]["kname"] if not other["kernels"][0]["builtin"] else "testkern_type"
                name = f"invoke_{j}_{kn}"
            elif how == "digits":
                name = "invoke_7up"
            else:
                base = next((i["name"] for i in invokes if i["name"] and i is not inv), None) or "zz"
                name = base[len("invoke_"):] if base.startswith("invoke_") else "invoke_" + base
                if base == "zz":
                    name = "invoke_zz"
            if name not in [i["name"] for i in invokes]:
                inv["name"], inv["name_src"] = name, _label_src(rng, name)
    unit = "program" if rng.random() < 0.8 else "module"
    text = G.render_file(rng, invokes, unit)
    # the PSyIR path turns a kernel call with a signed literal / literal expression into CodeBlocks (always passed)
    # or stops with TypeError: such files go through the default path only
    litexpr = any(a["lit"] and ("*" in a["canon"] or a["canon"].startswith("-"))
                  for i in invokes for k in i["kernels"] for a in k["args"])
    return {"text": text, "dm": rng.random() < 0.25, "invokes": invokes, "clash": clash, "litexpr": litexpr}


# ------------------------------------------------------------------------------------------ calibration
def layout(kname, builtin):
    """user kernel: {call position: sorted list of algorithm-argument indices}; built-in: template string"""
    st = R.setup()
    key = (kname, builtin)
    if key in st["layouts"]:
        return st["layouts"][key]
    sig = R.signature(kname, builtin)
    mod = None if builtin else [m for _, m, t in G.KERNELS if t == kname][0]

    def mk(prefix):
        args = []
        for j, (role, kind) in enumerate(sig):
            nm = f"{prefix}{j}"
            args.append(dict(G.var(nm, nm), role=role, kind=kind))
        return {"kname": kname, "builtin": builtin, "module": mod, "args": args}
    ka, kb = mk("zza"), mk("zzb")
    decl = {"field": "type(field_type)", "vec": "type(field_type)", "rscalar": "real(r_def)", "iscalar": "integer(i_def)",
            "extent": "integer(i_def)", "direction": "integer(i_def)", "qr": "type(quadrature_xyoz_type)",
            "op": "type(operator_type)"}
    lines = ["program cal", "use constants_mod, only: i_def, r_def", "use field_mod, only: field_type",
             "use operator_mod, only: operator_type", "use quadrature_xyoz_mod, only: quadrature_xyoz_type"]
    if not builtin:
        lines.append(f"use {mod}, only: {kname}")
    lines.append("implicit none")
    for k in (ka, kb):
        for a in k["args"]:
            lines.append(f"{decl[a['kind']]} :: {a['canon']}" + ("(3)" if a["kind"] == "vec" else ""))
    lines.append("call invoke(" + ", &\n ".join(
        k["kname"] + "(" + ", ".join(a["canon"] for a in k["args"]) + ")" for k in (ka, kb)) + ")")
    lines.append("end program cal")
    text = "\n".join(lines) + "\n"
    ccase = {"text": text, "dm": False, "invokes": [{"name": None, "name_src": None, "kernels": [ka, kb]}]}
    res = R.run_generate(text, False)
    if res[0] != "ok":
        raise common.Infra(f"calibration of {kname} failed: {res[1:]}")
    calls, _, _ = R.read_alg(res[1])
    rts = R.read_psy(res[2])
    if len(calls) != 1 or len(rts) != 1 or len(rts[0].loops) != 2:
        raise CalibrationViolation(ccase, f"{kname} called twice with plain names: {len(calls)} rewritten calls, "
                                          f"{len(rts)} PSy routines, {[len(r.loops) for r in rts]} kernel loops")
    rt = rts[0]
    bnames = {a["canon"]: j for j, a in enumerate(kb["args"])}
    if calls[0][1] != rt.dummies or set(bnames) - set(rt.dummies):
        raise CalibrationViolation(ccase, f"{kname} called twice with plain distinct names: the algorithm call passes "
                                          f"{calls[0][1]} but the PSy routine declares {rt.dummies}")
    loop = rt.loops[1]
    if builtin:
        if loop[0] != "assign":
            raise CalibrationViolation(ccase, f"built-in {kname}: no assignment loop")
        lay = ("template", [_templ(rt, side, bnames) for side in loop[1:]])
        seen = set(re.findall(r"#(\d+)#", "".join(lay[1])))
        if seen != {str(j) for j in range(len(sig))}:
            raise CalibrationViolation(ccase, f"built-in {kname}: only arguments {sorted(seen)} of {len(sig)} reach the statement {loop[1:]}")
    else:
        if loop[0] != "call":
            raise CalibrationViolation(ccase, f"{kname}: no kernel call in second loop")
        pos, covered = {}, set()
        for p, actual in enumerate(loop[2]):
            t = rt.trace_text(actual)
            if t and t <= set(bnames):
                pos[p] = sorted(bnames[x] for x in t)
                covered |= set(pos[p])
        if covered != set(range(len(sig))):
            raise CalibrationViolation(ccase, f"{kname} with plain names: only arguments {sorted(covered)} of {len(sig)} "
                                              f"reach the kernel call {loop[2]}")
        lay = ("positions", pos)
    st["layouts"][key] = lay
    return lay


def _templ(rt, text, bnames):
    """statement side with every symbol that traces to exactly one calibration argument replaced by #j#"""
    def rep(m):
        t = rt.trace(m.group(1))
        if len(t) == 1 and next(iter(t)) in bnames:
            return f"#{bnames[next(iter(t))]}#"
        return m.group(0)
    return R.IDENT.sub(rep, text)


# ------------------------------------------------------------------------------------------ property on the real output
def full_label(label):
    return label if label.startswith("invoke_") else "invoke_" + label


def expected_name(inv, idx, testing=False):
    """routine name, worked out here from the documented rules (independent of the model)"""
    single_builtin = len(inv["kernels"]) == 1 and inv["kernels"][0]["builtin"]
    if inv["name"] is not None and not (testing and single_builtin):
        return full_label(inv["name"])
    if len(inv["kernels"]) == 1 and not inv["kernels"][0]["builtin"]:
        return f"invoke_{idx}_{inv['kernels'][0]['kname']}"
    return f"invoke_{idx}"


def check_invoke(inv, idx, call, rt, testing=False):
    """The property, evaluated on the text of the two generated layers.  Returns a list of (reason, detail)."""
    bad = []
    cname, actuals = call
    written = {G.norm(a["canon"]) for k in inv["kernels"] for a in k["args"] if not a["lit"] and not a["dirconst"]}
    if cname != rt.name:
        bad.append(("routine-name", f"algorithm calls {cname}, PSy layer defines {rt.name}"))
    if not testing and cname != expected_name(inv, idx):
        bad.append(("routine-name", f"expected {expected_name(inv, idx)}, found {cname}"))
    if len(actuals) != len(rt.dummies):
        bad.append(("list-length", f"{len(actuals)} actual arguments for {len(rt.dummies)} dummies"))
        return bad
    for a in actuals:
        if a not in written:
            bad.append(("actual-not-written", f"the algorithm call passes '{a}', which is not an argument expression of the invoke"))
    for t in written:
        if t not in actuals:
            bad.append(("actual-missing", f"'{t}' is written in the invoke but not passed"))
    dup = sorted({d for d in rt.dummies if rt.dummies.count(d) > 1})
    if dup:
        bad.append(("duplicate-dummy", f"dummy argument(s) {dup} declared more than once in the argument list"))
    over = sorted(d for d in set(rt.dummies) if d in rt.assigned or rt.declared.get(d, 0) > 1)
    if over:
        bad.append(("dummy-overwritten", f"dummy argument(s) {over} are assigned to / declared again inside the routine"))
    for d1 in set(rt.dummies):          # one dummy, two different actuals
        texts = {actuals[i] for i, d in enumerate(rt.dummies) if d == d1}
        if len(texts) > 1:
            bad.append(("dummy-two-actuals", f"dummy {d1} receives {sorted(texts)}"))
    if len(rt.loops) != len(inv["kernels"]):
        bad.append(("kernel-count", f"{len(rt.loops)} kernel loops for {len(inv['kernels'])} kernels"))
        return bad
    pos_of = {}
    for i, d in enumerate(rt.dummies):
        pos_of.setdefault(d, []).append(i)
    for ki, (k, loop) in enumerate(zip(inv["kernels"], rt.loops)):
        lay = layout(k["kname"], k["builtin"])
        args = k["args"]
        if lay[0] == "template":
            if loop[0] != "assign":
                bad.append(("kernel-order", f"kernel {ki} ({k['kname']}) is not an assignment loop"))
                continue
            for side, templ in zip(loop[1:], lay[1]):
                want = re.sub(r"#(\d+)#", lambda m: "<" + G.norm(args[int(m.group(1))]["canon"]) + ">", templ)

                def rep(m):
                    t = rt.trace(m.group(1))
                    if t:
                        return "<" + "|".join(sorted({actuals[i] for d in t for i in pos_of[d]})) + ">"
                    return m.group(0)
                got = R.IDENT.sub(rep, side)
                if _strip(got) != _strip(want):
                    bad.append(("dataflow", f"kernel {ki} ({k['kname']}): statement computes {got}, the invoke says {want}"))
            continue
        if loop[0] != "call" or not loop[1].startswith(k["kname"].replace("_type", "")):
            bad.append(("kernel-order", f"kernel {ki} ({k['kname']}) found {loop[:2]}"))
            continue
        for p, js in lay[1].items():
            if p >= len(loop[2]):
                bad.append(("dataflow", f"kernel {ki}: call has no position {p}"))
                continue
            actual = loop[2][p]
            traced = rt.trace_text(actual)
            got = {actuals[i] for d in traced for i in pos_of[d]}
            if len(js) == 1:
                a = args[js[0]]
                if a["lit"] or a["dirconst"]:
                    if actual != G.norm(a["canon"]):
                        bad.append(("literal", f"kernel {ki} arg {js[0]}: '{a['canon']}' reaches the kernel as '{actual}'"))
                elif got != {G.norm(a["canon"])}:
                    bad.append(("dataflow", f"kernel {ki} ({k['kname']}) arg {js[0]} '{a['canon']}': call position {p} "
                                            f"'{actual}' comes from {sorted(got)}"))
            else:
                # shared infrastructure (stencil dofmaps are shared between fields on the same space): the
                # stencil extent / direction expressions written here must be among the sources
                need = {G.norm(args[j]["canon"]) for j in js
                        if args[j]["role"] != "data" and not args[j]["lit"] and not args[j]["dirconst"]}
                if not need <= got:
                    bad.append(("dataflow", f"kernel {ki} ({k['kname']}) args {js}: call position {p} '{actual}' comes from "
                                            f"{sorted(got)}, expected to include {sorted(need)}"))
    return bad


def _strip(s):
    s = s.replace("<", "").replace(">", "")
    return re.sub(r"\((-[\d.]+\w*)\)", r"\1", s)      # (-1.0_r_def) == -1.0_r_def


def evaluate(case):
    """run the real code and evaluate the property; returns dict(status, obs=[per-invoke observation], bad=[...])"""
    testing = case.get("testing", False)
    res = R.run_generate(case["text"], case["dm"], testing)
    if res[0] == "error":
        return {"status": "refused", "error": res[1], "message": res[2], "bad": []}
    calls, left, uses = R.read_alg(res[1])
    rts = R.read_psy(res[2])
    bad = []
    if left:
        bad.append(("invoke-left", f"{left} invoke call(s) were not rewritten"))
    if len(calls) != len(case["invokes"]) or len(rts) != len(case["invokes"]):
        bad.append(("invoke-count", f"{len(case['invokes'])} invokes, {len(calls)} rewritten calls, {len(rts)} PSy routines"))
        return {"status": "ok", "bad": bad, "obs": []}
    names = [r.name for r in rts]
    dupn = sorted({n for n in names if names.count(n) > 1})
    if dupn:
        bad.append(("routine-name-clash", f"the PSy module defines {dupn} more than once (routines {names}); the calls "
                                          f"{[c[0] for c in calls]} cannot tell them apart"))
    obs = []
    for idx, (inv, call, rt) in enumerate(zip(case["invokes"], calls, rts)):
        b = check_invoke(inv, idx, call, rt, testing)
        bad += [(r, f"invoke {idx}: {d}") for r, d in b]
        if not any(u.startswith("use") and call[0] in re.split(r"[,:]", u) for u in uses):
            bad.append(("use-missing", f"invoke {idx}: {call[0]} is not imported in the algorithm layer"))
        obs.append({"name": call[0], "actuals": call[1], "dummies": rt.dummies, "rt": rt})
    return {"status": "ok", "bad": bad, "obs": obs}


# ------------------------------------------------------------------------------------------ model
class Intern:
    def __init__(self):
        self.ids = {}

    def __call__(self, s):
        return self.ids.setdefault(s, len(self.ids) + 1)

    def rev(self):
        return {v: k for k, v in self.ids.items()}


ROLE = {"data": 0, "extent": 1, "direction": 2, "qr": 3}
PROXIED = ("field", "vec", "op", "qr")


def label_form(label, strs):
    """shape of a (lower-case) label, see C24.LabelForm; labels starting with 'invoke' without '_' are not generated"""
    if label is None:
        return [0]
    if not label.startswith("invoke_"):
        return [1, strs(label)]
    rest = label[len("invoke_"):]
    if rest.isdigit():
        return [3, int(rest)]
    m = re.match(r"(\d+)_(.+)$", rest)
    if m:
        return [4, int(m.group(1)), strs(m.group(2))]
    if rest[:1].isdigit():
        return [5, strs(rest)]
    return [2, strs(rest)]


def internals_of(inv, texts, roots):
    """the part of the string relation the model needs: which `<name>_proxy`, `map_/ndf_/undf_<space>` strings are
    roots of arguments of this invoke"""
    rootstrs = {a["root"] for k in inv["kernels"] for a in k["args"] if not a["lit"] and not a["dirconst"]}
    proxied = sorted({texts(G.norm(a["canon"])) for k in inv["kernels"] for a in k["args"]
                      if a["kind"] in PROXIED and not a["lit"] and not a["dirconst"]})
    table = []
    for r in sorted(rootstrs):
        for k in range(0, 4):
            rendered = r if k == 0 else f"{r}_{k}"
            if rendered + "_proxy" in rootstrs:
                table.append([roots(r), k, roots(rendered + "_proxy")])
    sp = []
    for k in inv["kernels"]:
        if not k["builtin"]:
            for fs in R.spaces(k["kname"]):
                for pre in ("map_", "ndf_", "undf_"):
                    if pre + fs in rootstrs and roots(pre + fs) not in sp:
                        sp.append(roots(pre + fs))
    return [proxied, table, sp]


def model_line(case, texts, roots, strs, classes):
    decls = []
    for inv in case["invokes"]:
        ks = []
        for k in inv["kernels"]:
            slots = []
            for a in k["args"]:
                if a["lit"]:
                    slots.append([ROLE[a["role"]], 0, texts(G.norm(a["canon"])), 0, 0])
                elif a["dirconst"]:
                    slots.append([ROLE[a["role"]], 2, texts(a["canon"]), 0, 0])
                else:
                    slots.append([ROLE[a["role"]], 1, texts(G.norm(a["canon"])), roots(a["root"]),
                                  classes(a.get("cls") or G.spelling_class(a["src"]))])
            ks.append(slots)
        heads = [0 if k["builtin"] else strs(k["kname"]) for k in inv["kernels"]]
        decls.append([label_form(inv["name"], strs), heads, ks, internals_of(inv, texts, roots)])
    return sx(decls)


def rname_str(n, strs_rev):
    if n[0] == "L":
        return "invoke_" + strs_rev[n[1]]
    if n[0] == "I":
        return f"invoke_{n[1]}"
    if n[0] == "K":
        return f"invoke_{n[1]}_{strs_rev[n[2]]}"
    return "invoke_" + strs_rev[n[1]]


def compare_model(inv, mo, ob, texts, roots, strs, testing=False):
    """None or a description of the first difference between model output and real output (one invoke).
    mo = [nameA, nameB, actuals, actualsB, dummies, kcalls, clashes]"""
    tr, rr = texts.rev(), roots.rev()
    mname = rname_str(mo[1] if testing else mo[0], strs.rev())
    if mname != ob["name"]:
        return f"routine name: model {mname}, real {ob['name']}"
    mact = [tr[t] for t in (mo[3] if testing else mo[2])]
    if mact != ob["actuals"]:
        return f"actual list: model {mact}, real {ob['actuals']}"
    mdum = [tuple(d) for d in mo[4]]
    real = ob["dummies"]
    if len(mdum) != len(real):
        return f"dummy list length: model {len(mdum)}, real {len(real)}"
    m2r, r2m = {}, {}
    for m, r in zip(mdum, real):
        if m2r.setdefault(m, r) != r or r2m.setdefault(r, m) != m:
            return f"dummy names: model {mdum}, real {real} (different equality pattern)"
        if not r.startswith(rr[m[0]]):
            return f"dummy name {r} does not start with the model's root {rr[m[0]]}"
    rt = ob["rt"]
    # dummies the routine declares again / overwrites  <->  model `clashes`
    over = sorted(d for d in set(real) if d in rt.assigned or rt.declared.get(d, 0) > 1)
    mover = sorted({m2r.get(tuple(c), str(c)) for c in mo[6]})
    if over != mover:
        return f"dummies re-declared / overwritten inside the routine: model {mover}, real {over}"
    if mover:
        return None        # data flow through an overwritten dummy is not comparable
    # per kernel argument: the symbol the model hands to the kernel is the dummy the real call position traces to
    for ki, (k, mk) in enumerate(zip(inv["kernels"], mo[5])):
        lay = layout(k["kname"], k["builtin"])
        if lay[0] != "positions" or ki >= len(rt.loops) or rt.loops[ki][0] != "call":
            continue
        for p, js in lay[1].items():
            if len(js) != 1 or p >= len(rt.loops[ki][2]):
                continue
            ma = mk[js[0]]
            actual = rt.loops[ki][2][p]
            if ma[0] == "S":
                want = m2r.get((ma[1], ma[2]))
                got = rt.trace_text(actual)
                if got != {want}:
                    return f"kernel {ki} arg {js[0]}: model symbol {want}, real call position traces to {sorted(got)}"
            elif ma[0] in ("L", "D"):
                if actual != tr[ma[1]]:
                    return f"kernel {ki} arg {js[0]}: model passes {tr[ma[1]]}, real passes {actual}"
    return None


def roles_shared(inv):
    by = {}
    for k in inv["kernels"]:
        for a in k["args"]:
            if not a["lit"] and not a["dirconst"]:
                by.setdefault(G.norm(a["canon"]), set()).add(a["role"])
    return sorted(t for t, r in by.items() if len(r) > 1)


def classify(reason, detail, inv, mo, testing):
    """id of the known finding whose class the failing input belongs to: the committed model reproduces the
    behaviour on this invoke AND the finding's classifier accepts it"""
    if inv is None or mo is None:
        return None
    if mo[6]:          # model: a concatenated internal name coincides with a dummy of this invoke
        if reason in ("dummy-overwritten", "dataflow", "literal"):
            return "C24-psy-internal-name-clash"
    if testing:
        if mo[3] != mo[2] and reason in ("list-length", "actual-missing", "actual-not-written", "dataflow",
                                        "dummy-two-actuals", "literal"):
            return "C24-psyir-path-component-repeat"
        if mo[1] != mo[0] and reason == "routine-name":
            return "C24-psyir-path-named-builtin"
    return None


# ------------------------------------------------------------------------------------------ run
def corpus_cases():
    import glob
    import json
    import os
    out = []
    for p in sorted(glob.glob(os.path.join(common.ROOT, "corpus", "C24", "*.json"))):
        out.append(json.load(open(p)))
    return out


def payload_of(case, reason, detail, extra=None):
    inv = [{"name": i["name"], "name_src": i["name_src"],
            "kernels": [{"kname": k["kname"], "builtin": k["builtin"], "module": k["module"],
                         "args": [{x: a.get(x) for x in ("lit", "dirconst", "canon", "root", "src", "role", "kind", "cls")}
                                  for a in k["args"]]} for k in i["kernels"]]} for i in case["invokes"]]
    p = {"kind": "failing-input", "text": case["text"], "dm": case["dm"], "invokes": inv,
         "testing": case.get("testing", False), "observed": detail, "reason": reason,
         "expected": "every rewritten call names exactly one PSy routine, the one generated from its invoke; call and "
                     "routine agree position by position; every kernel argument's data comes from the expression "
                     "written at its position in the invoke; no dummy argument is declared twice or overwritten"}
    if extra:
        p.update(extra)
    return p


def run(chk):
    chk.cov["rule"] = ("LFRic algorithm files with 1-4 invokes of 1-4 kernel calls (9 bundled test kernels incl. stencil, "
                       "xory1d, quadrature, field-vector and operator kernels; 9 built-ins), arguments drawn from pools with "
                       "repetition across kernels/invokes/roles, random case and blanks, indexed / %-component / nested "
                       "component / literal / literal-expression forms, symbolically equal index spellings, names clashing "
                       "with PSy-layer internals (symbol-table made and concatenated ones), named and unnamed invokes, "
                       "program or module-subroutine units, 25% distributed memory; every file through BOTH algorithm paths "
                       "(default alg_gen.Alg and PSyIR-based LFRIC_TESTING); plus a malformed stream (literal stencil "
                       "direction, argument repeated in one kernel, wrong arity, clashing invoke labels). non-trivial = "
                       "accepted file with >= 2 kernel calls in total, a repeated text and a non-plain argument; distinct by "
                       "canonical JSON")
    chk.assumptions += [
        "the layout of a generated kernel call depends on the kernel only (calibrated on invoke(K(za..),K(zb..)))",
        "fparser2 reads the two generated layers correctly; white space and case are not significant in Fortran",
        "kernel loops are generated in the order of the kernel calls of the invoke (no transformations applied)",
        "function-space names entering the model are those of the kernel metadata (w0..w3 in the palette); any_space "
        "names of built-ins (ndf_aspc1_<arg>) are not generated as argument names",
        "labels starting with 'invoke' but not 'invoke_' are not generated; quadrature objects are not reused in "
        "another role; kernel metadata objects are memoised per kernel (input parsing)",
        "PSyIR path: files with a literal-expression argument are run through the default path only (TypeError there)"]
    chk.cov["trusted_base"] = ["Lean 4.33.0 kernel", "axioms propext/Classical.choice/Quot.sound only (audited)",
                               "harness/props/c24*.py (generator, fparser2-based reader of the generated text, tracing, "
                               "calibration, interning of strings incl. the <name>_proxy / map_<space> string relation)",
                               "fparser2 (parsing of generated Fortran)"]
    chk.lean()
    try:
        _run(chk)
    except CalibrationViolation as cv:
        chk.violation(payload_of(cv.case, "calibration", cv.detail))
    finally:
        R.cleanup()


CRASHES = ("TypeError", "SymbolError")


def _run(chk):
    R.setup()
    n = 55 if chk.tier != "thorough" else 400
    cases = [dict(c, corpus=True) for c in corpus_cases()]
    for i in range(n):
        cases.append(gen_file(chk.rng, malformed=(i % 6 == 5)))
    dist = {"accepted": 0, "refused": 0, "crashed": 0, "invokes": 0, "kernels": 0, "errors": {}, "dm": 0, "named": 0,
            "role_shared_invokes": 0, "psyir": {"files": 0, "accepted": 0, "errors": {}},
            "forms": {"plain": 0, "indexed": 0, "component": 0, "literal": 0, "dirconst": 0}, "known_class_hits": {}}
    reported = set()
    interns, lines = [], []
    for case in cases:
        t4 = (Intern(), Intern(), Intern(), Intern())
        interns.append(t4)
        lines.append(model_line(case, *t4))
    model_out = driver("C24", lines)

    def report(case, reason, detail, idx, mos, testing):
        inv = case["invokes"][idx] if idx is not None and idx < len(case["invokes"]) else None
        mo = mos[idx] if (mos and idx is not None and idx < len(mos)) else None
        fid = classify(reason, detail, inv, mo, testing)
        if fid:
            dist["known_class_hits"][fid] = dist["known_class_hits"].get(fid, 0) + 1
            return
        key = (reason, testing)
        if key in reported or len(chk.violations) >= 4:
            return
        reported.add(key)
        chk.violation(payload_of(dict(case, testing=testing), reason, detail))

    for case, (texts, roots, strs, classes), mline in zip(cases, interns, model_out):
        mos = parse_sx(mline) if mline not in ("refused", "crashed") else None
        key = {"text": case["text"], "dm": case["dm"]}
        nk = sum(len(i["kernels"]) for i in case["invokes"])
        arity = any(k.get("arity_broken") for i in case["invokes"] for k in i["kernels"])
        for testing in (False, True):
            if testing and (case.get("corpus") or case.get("litexpr")):
                continue
            ev = evaluate(dict(case, testing=testing))
            tag = "psyir" if testing else "default"
            if testing:
                dist["psyir"]["files"] += 1
            if ev["status"] == "refused":
                err = ev["error"]
                if testing:
                    dist["psyir"]["errors"][err] = dist["psyir"]["errors"].get(err, 0) + 1
                else:
                    dist["errors"][err] = dist["errors"].get(err, 0) + 1
                    dist["crashed" if err in CRASHES else "refused"] += 1
                if err in CRASHES:
                    agreed = mline == "crashed"
                elif err in CLEAN_REFUSALS:
                    agreed = mline == "refused" or arity
                else:
                    agreed = False
                if testing:
                    agreed = True      # refusals / aborts of the (temporary, switched-off) PSyIR path are only recorded
                if not testing:
                    chk.case(key, nontrivial=False, agreed=agreed)
                if not agreed:
                    chk.correspondence_broken(f"[{tag} path] real code raises {err} ({ev['message'][:120]}); model: "
                                              f"{'accepts' if mos is not None else mline}", key, mline[:300], err)
                continue
            agreed = True
            if mos is None or arity:
                agreed = False
                chk.correspondence_broken(f"[{tag} path] real code accepts a file the model says is {mline if mos is None else 'of wrong arity'}",
                                          key, mline[:200], "accepted")
            if testing:
                dist["psyir"]["accepted"] += 1
            else:
                dist["accepted"] += 1
                dist["dm"] += case["dm"]
            for idx, inv in enumerate(case["invokes"]):
                if not testing:
                    dist["invokes"] += 1
                    dist["kernels"] += len(inv["kernels"])
                    dist["named"] += inv["name"] is not None
                    dist["role_shared_invokes"] += bool(roles_shared(inv))
                    for k in inv["kernels"]:
                        for a in k["args"]:
                            f = ("literal" if a["lit"] else "dirconst" if a["dirconst"] else
                                 "component" if "%" in a["canon"] else "indexed" if "(" in a["canon"] else "plain")
                            dist["forms"][f] += 1
                if agreed and mos is not None and idx < len(ev.get("obs", [])) and idx < len(mos):
                    diff = compare_model(inv, mos[idx], ev["obs"][idx], texts, roots, strs, testing)
                    if diff:
                        agreed = False
                        chk.correspondence_broken(f"[{tag} path] generated code differs from the model: " + diff, key,
                                                  str(mos[idx])[:400],
                                                  str(ev["obs"][idx]["actuals"]) + str(ev["obs"][idx]["dummies"]))
            if not testing:
                alltexts = [G.norm(a["canon"]) for i in case["invokes"] for k in i["kernels"] for a in k["args"] if not a["lit"]]
                nontriv = (nk >= 2 and len(set(alltexts)) < len(alltexts) and any("%" in t or "(" in t for t in alltexts))
                chk.case(key, nontrivial=nontriv, agreed=agreed)
            for reason, detail in ev["bad"]:
                m = re.match(r"invoke (\d+):", detail)
                report(case, reason, detail, int(m.group(1)) if m else None, mos, testing)
    chk.cov["distribution"] = dist
    if chk.tier == "thorough":
        gfortran_stage(chk, [c for c in cases if not c.get("corpus")], dist)
    # known findings: replay each witness against the real code
    for e in common.known_findings("C24"):
        w = e["witness"]
        ev = evaluate({"text": w["text"], "dm": w.get("dm", False), "invokes": w["invokes"],
                       "testing": w.get("testing", False)})
        if ev["status"] == "ok" and any(r == w["reason"] for r, _ in ev["bad"]):
            chk.known(e["what"])


def gfortran_stage(chk, cases, dist, limit=30):
    """thorough tier: gfortran checks the explicit interface of every rewritten call against the PSy routine"""
    from props import c24_fexec as FX
    fx = FX.Fexec(R.setup()["kdir"])
    g = {"files": 0, "clean": 0, "other_errors": 0, "known_class": 0}
    try:
        for case in cases:
            if g["files"] >= limit:
                break
            res = R.run_generate(case["text"], case["dm"])
            if res[0] != "ok":
                continue
            g["files"] += 1
            out = fx.check(res[1], res[2])
            rel = [(l, m) for l, m in out if not l.startswith("other-")]
            if not out:
                g["clean"] += 1
            elif not rel:
                g["other_errors"] += 1
            elif case.get("clash"):
                g["known_class"] += 1      # names of concatenated PSy internals (C24-psy-internal-name-clash)
            else:
                chk.violation(payload_of(case, "gfortran", "; ".join(f"{l}: {m}" for l, m in rel[:4])))
                break
    finally:
        fx.close()
    dist["gfortran"] = g


def replay(payload):
    R.setup()
    try:
        if payload.get("reason") == "gfortran":
            from props import c24_fexec as FX
            res = R.run_generate(payload["text"], payload["dm"])
            if res[0] != "ok":
                print("real code refuses the file:", res[1:])
                return 0
            fx = FX.Fexec(R.setup()["kdir"])
            try:
                rel = [(l, m) for l, m in fx.check(res[1], res[2]) if not l.startswith("other-")]
            finally:
                fx.close()
            print(payload["text"], "\nexpected:", payload["expected"], "\nobserved (gfortran):", rel or "compiles")
            return 1 if rel else 0
        if payload.get("kind") != "failing-input":
            print("no failing input stored in this replay file:", payload.get("note", ""))
            return 1 if payload.get("broken") else 0
        case = {"text": payload["text"], "dm": payload["dm"], "invokes": payload["invokes"],
                "testing": payload.get("testing", False)}
        print(payload["text"])
        try:
            ev = evaluate(case)
        except CalibrationViolation as cv:
            print("expected:", payload["expected"])
            print("observed:", cv.detail)
            return 1
        if payload["reason"] == "calibration":
            print("observed: the plain-name invoke is now handled consistently")
            return 0
        if ev["status"] == "refused":
            print("real code refuses the file:", ev["error"], ev["message"])
            return 0
        for i, o in enumerate(ev.get("obs", [])):
            print(f"invoke {i}: call actuals {o['actuals']}\n          PSy dummies  {o['dummies']}")
        hit = [(r, d) for r, d in ev["bad"] if r == payload["reason"]]
        print("expected:", payload["expected"])
        print("observed:", hit or [d for _, d in ev["bad"]] or "property holds")
        return 1 if hit else 0
    finally:
        R.cleanup()
