"""C24 — generated algorithm layer and PSy layer agree on invoke arguments.

Real code: `psyclone.generator.generate(file, api="dynamo0.3")` on generated algorithm files; both generated layers are
read back from their Fortran text (props/c24_real.py).  Model: Lean `C24.generate` through the driver.

Checked per invoke (a) the PROPERTY ITSELF, model-free: same routine name, same number of arguments, every actual is
an expression written in the invoke, every kernel argument's PSy-layer symbols trace (through the routine's
assignments: proxies, data pointers, vector components, quadrature proxies, stencil maps) to dummies whose actual
arguments are exactly the expressions written at that position of that kernel in the invoke, literals handed over
unchanged, dummy names pairwise distinct and never overwritten; (b) CORRESPONDENCE with the model: actual list,
dummy list up to renaming (same equality pattern, real name starts with the model's root), per-argument symbol.

Which positions of a kernel call carry which algorithm argument is not written down here: it is CALIBRATED per
kernel by running the real code on `invoke(K(za..), K(zb..))` with plain distinct names, where the answer is
unambiguous; the assumption is that the layout of a kernel call depends on the kernel only.
"""
import re

import common
from common import driver, sx, parse_sx
from props import c24_gen as G
from props import c24_real as R

CLEAN_REFUSALS = {"GenerationError", "ParseError", "NotImplementedError"}


class CalibrationViolation(Exception):
    """The real code breaks the property already on invoke(K(zza0..), K(zzb0..)) with plain distinct names."""

    def __init__(self, case, detail):
        super().__init__(detail)
        self.case, self.detail = case, detail


# ------------------------------------------------------------------------------------------ generator
def gen_kernel(rng, pools, force=None):
    if force is not None:
        kname, builtin = force
    elif rng.random() < 0.4:
        kname, builtin = rng.choice(G.BUILTINS), True
    else:
        kname, builtin = rng.choice(G.KERNELS)[2], False
    sig = R.signature(kname, builtin)
    args, seen = [], []
    for role, kind in sig:
        e = pools.pick(kind, avoid=seen if role == "data" else ())
        if role == "data" and not e["lit"]:
            seen.append(e["canon"])
        args.append(dict(e, role=role, kind=kind))
    mod = None if builtin else [m for _, m, t in G.KERNELS if t == kname][0]
    return {"kname": kname, "builtin": builtin, "module": mod, "args": args}


def gen_file(rng, malformed=False):
    pools = G.Pools(rng)
    ninv = rng.choice([1, 1, 2, 2, 3, 4])
    invokes, labels = [], []
    for _ in range(ninv):
        nk = rng.choice([1, 1, 2, 2, 3, 4])
        kernels = [gen_kernel(rng, pools) for _ in range(nk)]
        name = name_src = None
        if rng.random() < 0.4:
            name = rng.choice(["mine", "step_1", "compute", "a_b", "x"]) + str(len(labels))
            labels.append(name)
            q = rng.choice(["'", '"'])
            name_src = G.noisy(rng, "name") + rng.choice(["=", " = "]) + q + G.noisy(rng, name).replace(" ", "") + q
        invokes.append({"name": name, "name_src": name_src, "kernels": kernels})
    if malformed:
        kind = rng.choice(["litdir", "dup", "arity"])
        k = rng.choice(rng.choice(invokes)["kernels"])
        if kind == "litdir":
            k2 = gen_kernel(rng, pools, force=("testkern_stencil_xory1d_type", False))
            for a in k2["args"]:
                if a["role"] == "direction":
                    a.update(G.lit(rng.choice(["1", "2"])), role="direction")
            rng.choice(invokes)["kernels"].append(k2)
        elif kind == "dup":
            data = [a for a in k["args"] if a["role"] == "data" and not a["lit"] and a["kind"] == "field"]
            if len(data) >= 2:
                src = dict(data[0])
                data[1].update(canon=src["canon"], root=src["root"], src=G.noisy(rng, src["canon"]))
        else:
            k["args"].append(dict(pools.pick("field"), role="data", kind="field"))
            k["arity_broken"] = True
    unit = "program" if rng.random() < 0.8 else "module"
    text = G.render_file(rng, invokes, unit)
    return {"text": text, "dm": rng.random() < 0.25, "invokes": invokes}


# ------------------------------------------------------------------------------------------ calibration
def layout(kname, builtin):
    """user kernel: {call position: sorted list of algorithm-argument indices}; built-in: template string"""
    st = R.setup()
    key = (kname, builtin)
    if key in st["layouts"]:
        return st["layouts"][key]
    sig = R.signature(kname, builtin)
    mod = None if builtin else [m for _, m, t in G.KERNELS if t == kname][0]

    def mk(prefix):
        args = []
        for j, (role, kind) in enumerate(sig):
            nm = f"{prefix}{j}"
            args.append(dict(G.var(nm, nm), role=role, kind=kind))
        return {"kname": kname, "builtin": builtin, "module": mod, "args": args}
    ka, kb = mk("zza"), mk("zzb")
    decl = {"field": "type(field_type)", "vec": "type(field_type)", "rscalar": "real(r_def)", "iscalar": "integer(i_def)",
            "extent": "integer(i_def)", "direction": "integer(i_def)", "qr": "type(quadrature_xyoz_type)",
            "op": "type(operator_type)"}
    lines = ["program cal", "use constants_mod, only: i_def, r_def", "use field_mod, only: field_type",
             "use operator_mod, only: operator_type", "use quadrature_xyoz_mod, only: quadrature_xyoz_type"]
    if not builtin:
        lines.append(f"use {mod}, only: {kname}")
    lines.append("implicit none")
    for k in (ka, kb):
        for a in k["args"]:
            lines.append(f"{decl[a['kind']]} :: {a['canon']}" + ("(3)" if a["kind"] == "vec" else ""))
    lines.append("call invoke(" + ", &\n ".join(
        k["kname"] + "(" + ", ".join(a["canon"] for a in k["args"]) + ")" for k in (ka, kb)) + ")")
    lines.append("end program cal")
    text = "\n".join(lines) + "\n"
    ccase = {"text": text, "dm": False, "invokes": [{"name": None, "name_src": None, "kernels": [ka, kb]}]}
    res = R.run_generate(text, False)
    if res[0] != "ok":
        raise common.Infra(f"calibration of {kname} failed: {res[1:]}")
    calls, _, _ = R.read_alg(res[1])
    rts = R.read_psy(res[2])
    if len(calls) != 1 or len(rts) != 1 or len(rts[0].loops) != 2:
        raise CalibrationViolation(ccase, f"{kname} called twice with plain names: {len(calls)} rewritten calls, "
                                          f"{len(rts)} PSy routines, {[len(r.loops) for r in rts]} kernel loops")
    rt = rts[0]
    bnames = {a["canon"]: j for j, a in enumerate(kb["args"])}
    if calls[0][1] != rt.dummies or set(bnames) - set(rt.dummies):
        raise CalibrationViolation(ccase, f"{kname} called twice with plain distinct names: the algorithm call passes "
                                          f"{calls[0][1]} but the PSy routine declares {rt.dummies}")
    loop = rt.loops[1]
    if builtin:
        if loop[0] != "assign":
            raise CalibrationViolation(ccase, f"built-in {kname}: no assignment loop")
        lay = ("template", [_templ(rt, side, bnames) for side in loop[1:]])
        seen = set(re.findall(r"#(\d+)#", "".join(lay[1])))
        if seen != {str(j) for j in range(len(sig))}:
            raise CalibrationViolation(ccase, f"built-in {kname}: only arguments {sorted(seen)} of {len(sig)} reach the statement {loop[1:]}")
    else:
        if loop[0] != "call":
            raise CalibrationViolation(ccase, f"{kname}: no kernel call in second loop")
        pos, covered = {}, set()
        for p, actual in enumerate(loop[2]):
            t = rt.trace_text(actual)
            if t and t <= set(bnames):
                pos[p] = sorted(bnames[x] for x in t)
                covered |= set(pos[p])
        if covered != set(range(len(sig))):
            raise CalibrationViolation(ccase, f"{kname} with plain names: only arguments {sorted(covered)} of {len(sig)} "
                                              f"reach the kernel call {loop[2]}")
        lay = ("positions", pos)
    st["layouts"][key] = lay
    return lay


def _templ(rt, text, bnames):
    """statement side with every symbol that traces to exactly one calibration argument replaced by #j#"""
    def rep(m):
        t = rt.trace(m.group(1))
        if len(t) == 1 and next(iter(t)) in bnames:
            return f"#{bnames[next(iter(t))]}#"
        return m.group(0)
    return R.IDENT.sub(rep, text)


# ------------------------------------------------------------------------------------------ property on the real output
def expected_name(inv, idx):
    if inv["name"] is not None:
        return "invoke_" + inv["name"]
    if len(inv["kernels"]) == 1 and not inv["kernels"][0]["builtin"]:
        return f"invoke_{idx}_{inv['kernels'][0]['kname']}"
    return f"invoke_{idx}"


def check_invoke(inv, idx, call, rt):
    """The property, evaluated on the text of the two generated layers.  Returns a list of (reason, detail)."""
    bad = []
    cname, actuals = call
    written = {G.norm(a["canon"]) for k in inv["kernels"] for a in k["args"] if not a["lit"] and not a["dirconst"]}
    if cname != rt.name:
        bad.append(("routine-name", f"algorithm calls {cname}, PSy layer defines {rt.name}"))
    if cname != expected_name(inv, idx):
        bad.append(("routine-name", f"expected {expected_name(inv, idx)}, found {cname}"))
    if len(actuals) != len(rt.dummies):
        bad.append(("list-length", f"{len(actuals)} actual arguments for {len(rt.dummies)} dummies"))
        return bad
    for a in actuals:
        if a not in written:
            bad.append(("actual-not-written", f"the algorithm call passes '{a}', which is not an argument expression of the invoke"))
    for t in written:
        if t not in actuals:
            bad.append(("actual-missing", f"'{t}' is written in the invoke but not passed"))
    dup = sorted({d for d in rt.dummies if rt.dummies.count(d) > 1})
    if dup:
        bad.append(("duplicate-dummy", f"dummy argument(s) {dup} declared more than once in the argument list"))
    over = sorted(d for d in set(rt.dummies) if d in rt.assigned or rt.declared.get(d, 0) > 1)
    if over:
        bad.append(("dummy-overwritten", f"dummy argument(s) {over} are assigned to / declared again inside the routine"))
    for d1 in set(rt.dummies):          # one dummy, two different actuals
        texts = {actuals[i] for i, d in enumerate(rt.dummies) if d == d1}
        if len(texts) > 1:
            bad.append(("dummy-two-actuals", f"dummy {d1} receives {sorted(texts)}"))
    if len(rt.loops) != len(inv["kernels"]):
        bad.append(("kernel-count", f"{len(rt.loops)} kernel loops for {len(inv['kernels'])} kernels"))
        return bad
    pos_of = {}
    for i, d in enumerate(rt.dummies):
        pos_of.setdefault(d, []).append(i)
    for ki, (k, loop) in enumerate(zip(inv["kernels"], rt.loops)):
        lay = layout(k["kname"], k["builtin"])
        args = k["args"]
        if lay[0] == "template":
            if loop[0] != "assign":
                bad.append(("kernel-order", f"kernel {ki} ({k['kname']}) is not an assignment loop"))
                continue
            for side, templ in zip(loop[1:], lay[1]):
                want = re.sub(r"#(\d+)#", lambda m: "<" + G.norm(args[int(m.group(1))]["canon"]) + ">", templ)

                def rep(m):
                    t = rt.trace(m.group(1))
                    if t:
                        return "<" + "|".join(sorted({actuals[i] for d in t for i in pos_of[d]})) + ">"
                    return m.group(0)
                got = R.IDENT.sub(rep, side)
                if _strip(got) != _strip(want):
                    bad.append(("dataflow", f"kernel {ki} ({k['kname']}): statement computes {got}, the invoke says {want}"))
            continue
        if loop[0] != "call" or not loop[1].startswith(k["kname"].replace("_type", "")):
            bad.append(("kernel-order", f"kernel {ki} ({k['kname']}) found {loop[:2]}"))
            continue
        for p, js in lay[1].items():
            if p >= len(loop[2]):
                bad.append(("dataflow", f"kernel {ki}: call has no position {p}"))
                continue
            actual = loop[2][p]
            traced = rt.trace_text(actual)
            got = {actuals[i] for d in traced for i in pos_of[d]}
            if len(js) == 1:
                a = args[js[0]]
                if a["lit"] or a["dirconst"]:
                    if actual != G.norm(a["canon"]):
                        bad.append(("literal", f"kernel {ki} arg {js[0]}: '{a['canon']}' reaches the kernel as '{actual}'"))
                elif got != {G.norm(a["canon"])}:
                    bad.append(("dataflow", f"kernel {ki} ({k['kname']}) arg {js[0]} '{a['canon']}': call position {p} "
                                            f"'{actual}' comes from {sorted(got)}"))
            else:
                # shared infrastructure (stencil dofmaps are shared between fields on the same space): the
                # stencil extent / direction expressions written here must be among the sources
                need = {G.norm(args[j]["canon"]) for j in js
                        if args[j]["role"] != "data" and not args[j]["lit"] and not args[j]["dirconst"]}
                if not need <= got:
                    bad.append(("dataflow", f"kernel {ki} ({k['kname']}) args {js}: call position {p} '{actual}' comes from "
                                            f"{sorted(got)}, expected to include {sorted(need)}"))
    return bad


def _strip(s):
    s = s.replace("<", "").replace(">", "")
    return re.sub(r"\((-[\d.]+\w*)\)", r"\1", s)      # (-1.0_r_def) == -1.0_r_def


def evaluate(case):
    """run the real code and evaluate the property; returns dict(status, invokes=[per-invoke observation], bad=[...])"""
    res = R.run_generate(case["text"], case["dm"], case.get("testing", False))
    if res[0] == "error":
        return {"status": "refused", "error": res[1], "message": res[2], "bad": []}
    calls, left, uses = R.read_alg(res[1])
    rts = R.read_psy(res[2])
    bad = []
    if left:
        bad.append(("invoke-left", f"{left} invoke call(s) were not rewritten"))
    if len(calls) != len(case["invokes"]) or len(rts) != len(case["invokes"]):
        bad.append(("invoke-count", f"{len(case['invokes'])} invokes, {len(calls)} rewritten calls, {len(rts)} PSy routines"))
        return {"status": "ok", "bad": bad, "obs": []}
    if len({r.name for r in rts}) != len(rts):
        bad.append(("routine-name", "two PSy routines with the same name"))
    obs = []
    for idx, (inv, call, rt) in enumerate(zip(case["invokes"], calls, rts)):
        b = check_invoke(inv, idx, call, rt)
        bad += [(r, f"invoke {idx}: {d}") for r, d in b]
        if not any(u.startswith("use") and call[0] in re.split(r"[,:]", u) for u in uses):
            bad.append(("use-missing", f"invoke {idx}: {call[0]} is not imported in the algorithm layer"))
        obs.append({"actuals": call[1], "dummies": rt.dummies, "rt": rt})
    return {"status": "ok", "bad": bad, "obs": obs}


# ------------------------------------------------------------------------------------------ model
class Intern:
    def __init__(self):
        self.ids = {}

    def __call__(self, s):
        return self.ids.setdefault(s, len(self.ids) + 1)

    def rev(self):
        return {v: k for k, v in self.ids.items()}


ROLE = {"data": 0, "extent": 1, "direction": 2, "qr": 3}


def model_line(inv, texts, roots):
    ks = []
    for k in inv["kernels"]:
        slots = []
        for a in k["args"]:
            if a["lit"]:
                slots.append([ROLE[a["role"]], 0, texts(G.norm(a["canon"])), 0])
            elif a["dirconst"]:
                slots.append([ROLE[a["role"]], 2, texts(a["canon"]), 0])
            else:
                slots.append([ROLE[a["role"]], 1, texts(G.norm(a["canon"])), roots(a["root"])])
        ks.append(slots)
    return sx(ks)


def compare_model(inv, mo, ob, texts, roots):
    """None or a description of the first difference between model output and real output"""
    tr, rr = texts.rev(), roots.rev()
    mact = [tr[t] for t in mo[0]]
    if mact != ob["actuals"]:
        return f"actual list: model {mact}, real {ob['actuals']}"
    mdum = [tuple(d) for d in mo[1]]
    real = ob["dummies"]
    if len(mdum) != len(real):
        return f"dummy list length: model {len(mdum)}, real {len(real)}"
    m2r, r2m = {}, {}
    for m, r in zip(mdum, real):
        if m2r.setdefault(m, r) != r or r2m.setdefault(r, m) != m:
            return f"dummy names: model {mdum}, real {real} (different equality pattern)"
        if not r.startswith(rr[m[0]]):
            return f"dummy name {r} does not start with the model's root {rr[m[0]]}"
    # per kernel argument: the symbol the model hands to the kernel is the dummy the real call position traces to
    rt = ob["rt"]
    for ki, (k, mk) in enumerate(zip(inv["kernels"], mo[2])):
        lay = layout(k["kname"], k["builtin"])
        if lay[0] != "positions" or ki >= len(rt.loops) or rt.loops[ki][0] != "call":
            continue
        for p, js in lay[1].items():
            if len(js) != 1 or p >= len(rt.loops[ki][2]):
                continue
            ma = mk[js[0]]
            actual = rt.loops[ki][2][p]
            if ma[0] == "S":
                want = m2r.get((ma[1], ma[2]))
                got = rt.trace_text(actual)
                if got != {want}:
                    return f"kernel {ki} arg {js[0]}: model symbol {want}, real call position traces to {sorted(got)}"
            elif ma[0] in ("L", "D"):
                if actual != tr[ma[1]]:
                    return f"kernel {ki} arg {js[0]}: model passes {tr[ma[1]]}, real passes {actual}"
    return None


def model_refusal_reason(inv):
    for k in inv["kernels"]:
        seen = set()
        for a in k["args"]:
            if a["role"] == "direction" and a["lit"]:
                return "literal-direction"
            if a["role"] == "data" and not a["lit"]:
                t = G.norm(a["canon"])
                if t in seen:
                    return "repeated-in-kernel"
                seen.add(t)
    return None


# ------------------------------------------------------------------------------------------ known findings
def roles_shared(inv):
    by = {}
    for k in inv["kernels"]:
        for a in k["args"]:
            if not a["lit"] and not a["dirconst"]:
                by.setdefault(G.norm(a["canon"]), set()).add(a["role"])
    return sorted(t for t, r in by.items() if len(r) > 1)


def classify(reason, detail, inv, mo):
    """id of the known finding whose class the failing input belongs to (model reproduces it AND classifier accepts)"""
    if reason == "duplicate-dummy" and inv is not None and roles_shared(inv) and mo is not None:
        mdum = [tuple(d) for d in mo[1]]
        if len(set(mdum)) < len(mdum):
            return "C24-same-expression-two-roles"
    return None


# ------------------------------------------------------------------------------------------ run
def corpus_cases():
    import glob
    import json
    import os
    out = []
    for p in sorted(glob.glob(os.path.join(common.ROOT, "corpus", "C24", "*.json"))):
        out.append(json.load(open(p)))
    return out


def payload_of(case, reason, detail, extra=None):
    inv = [{"name": i["name"], "name_src": i["name_src"],
            "kernels": [{"kname": k["kname"], "builtin": k["builtin"], "module": k["module"],
                         "args": [{x: a[x] for x in ("lit", "dirconst", "canon", "root", "src", "role", "kind")}
                                  for a in k["args"]]} for k in i["kernels"]]} for i in case["invokes"]]
    p = {"kind": "failing-input", "text": case["text"], "dm": case["dm"], "invokes": inv,
         "observed": detail, "reason": reason,
         "expected": "algorithm call and PSy routine agree position by position and every kernel argument's data "
                     "comes from the expression written at its position in the invoke"}
    if extra:
        p.update(extra)
    return p


def run(chk):
    chk.cov["rule"] = ("LFRic algorithm files with 1-4 invokes of 1-4 kernel calls (9 bundled test kernels incl. stencil, "
                       "xory1d, quadrature, field-vector and operator kernels; 9 built-ins), arguments drawn from pools with "
                       "repetition across kernels/invokes/roles, random case and blanks, indexed / %-component / nested "
                       "component / literal / literal-expression forms, names clashing with PSy-layer internals, named and "
                       "unnamed invokes, program or module-subroutine units, 25% distributed memory; plus a malformed stream "
                       "(literal stencil direction, argument repeated in one kernel, wrong arity). non-trivial = accepted file "
                       "with >= 2 kernel calls in total and at least one repeated or non-plain argument; distinct by canonical JSON")
    chk.assumptions += [
        "the layout of a generated kernel call depends on the kernel only (calibrated on invoke(K(za..),K(zb..)))",
        "fparser2 reads the two generated layers correctly; white space and case are not significant in Fortran",
        "kernel loops are generated in the order of the kernel calls of the invoke (no transformations applied)",
        "algorithm variables named <other argument>_proxy are not generated (known finding C24-proxy-name-clash, replayed separately)",
        "quadrature objects are not reused in another role; kernel metadata objects are memoised per kernel (input parsing)"]
    chk.cov["trusted_base"] = ["Lean 4.33.0 kernel", "axioms propext/Classical.choice/Quot.sound only (audited)",
                               "harness/props/c24*.py (generator, fparser2-based reader of the generated text, tracing, calibration)",
                               "fparser2 (parsing of generated Fortran)"]
    chk.lean()
    try:
        _run(chk)
    except CalibrationViolation as cv:
        chk.violation(payload_of(cv.case, "calibration", cv.detail))
    finally:
        R.cleanup()


def _run(chk):
    R.setup()
    n = 90 if chk.tier != "thorough" else 600
    cases = [dict(c, corpus=True) for c in corpus_cases()]
    for i in range(n):
        cases.append(gen_file(chk.rng, malformed=(i % 8 == 7)))
    dist = {"accepted": 0, "refused": 0, "invokes": 0, "kernels": 0, "errors": {}, "dm": 0, "named": 0,
            "role_shared_invokes": 0, "forms": {"plain": 0, "indexed": 0, "component": 0, "literal": 0, "dirconst": 0}}
    reported = set()
    interns, lines = [], []
    for case in cases:
        texts, roots = Intern(), Intern()
        interns.append((texts, roots))
        lines += [model_line(inv, texts, roots) for inv in case["invokes"]]
    model_out = driver("C24", lines)
    at = 0
    for case, (texts, roots) in zip(cases, interns):
        mos = [None if m == "refused" else parse_sx(m) for m in model_out[at:at + len(case["invokes"])]]
        at += len(case["invokes"])
        ev = evaluate(case)
        model_ref = [r for r in (model_refusal_reason(i) for i in case["invokes"]) if r]
        lean_ref = any(m is None for m in mos)
        arity = any(k.get("arity_broken") for i in case["invokes"] for k in i["kernels"])
        key = {"text": case["text"], "dm": case["dm"]}
        nk = sum(len(i["kernels"]) for i in case["invokes"])
        if bool(model_ref) != lean_ref:
            chk.correspondence_broken("harness refusal predicate and Lean model differ", key, str(mos), str(model_ref))
        if ev["status"] == "refused":
            dist["refused"] += 1
            dist["errors"][ev["error"]] = dist["errors"].get(ev["error"], 0) + 1
            agreed = (lean_ref or arity) and ev["error"] in CLEAN_REFUSALS
            if not agreed and ev["error"] in ("TypeError", "SymbolError"):
                # crash variant of the known finding: the expression used in two roles is registered first as a
                # stencil extent (plain Symbol) and then needed as a DataSymbol
                hit = [i for i, inv in enumerate(case["invokes"])
                       if roles_shared(inv) and mos[i] is not None and len({tuple(d) for d in mos[i][1]}) < len(mos[i][1])]
                if hit:
                    k = dist.setdefault("known_class_hits", {})
                    k["C24-same-expression-two-roles(crash)"] = k.get("C24-same-expression-two-roles(crash)", 0) + 1
                    chk.case(key, nontrivial=False, agreed=True)
                    continue
            chk.case(key, nontrivial=False, agreed=agreed)
            if not agreed:
                chk.correspondence_broken(f"real code raises {ev['error']} ({ev['message'][:120]}) on an invoke the model accepts",
                                          key, "accepted", ev["error"])
            continue
        dist["accepted"] += 1
        dist["dm"] += case["dm"]
        agreed = True
        if lean_ref or arity:
            agreed = False
            chk.correspondence_broken("real code accepts an invoke the model refuses", key, str(model_ref or 'arity'), "accepted")
        for idx, inv in enumerate(case["invokes"]):
            dist["invokes"] += 1
            dist["kernels"] += len(inv["kernels"])
            dist["named"] += inv["name"] is not None
            dist["role_shared_invokes"] += bool(roles_shared(inv))
            for k in inv["kernels"]:
                for a in k["args"]:
                    f = ("literal" if a["lit"] else "dirconst" if a["dirconst"] else
                         "component" if "%" in a["canon"] else "indexed" if "(" in a["canon"] else "plain")
                    dist["forms"][f] += 1
            if agreed and idx < len(ev.get("obs", [])) and mos[idx] is not None:
                diff = compare_model(inv, mos[idx], ev["obs"][idx], texts, roots)
                if diff:
                    agreed = False
                    chk.correspondence_broken("generated argument lists differ from C24.generate: " + diff, key,
                                              str(mos[idx])[:400], str(ev["obs"][idx]["actuals"]) + str(ev["obs"][idx]["dummies"]))
        alltexts = [G.norm(a["canon"]) for i in case["invokes"] for k in i["kernels"] for a in k["args"] if not a["lit"]]
        nontriv = (nk >= 2 and len(set(alltexts)) < len(alltexts)
                   and any("%" in t or "(" in t for t in alltexts))
        chk.case(key, nontrivial=nontriv, agreed=agreed)
        for reason, detail in ev["bad"]:
            m = re.match(r"invoke (\d+):", detail)
            idx = int(m.group(1)) if m else None
            inv = case["invokes"][idx] if idx is not None else None
            mo = mos[idx] if idx is not None else None
            fid = classify(reason, detail, inv, mo)
            if fid:
                dist.setdefault("known_class_hits", {}).setdefault(fid, 0)
                dist["known_class_hits"][fid] += 1
                continue
            if reason in reported or len(chk.violations) >= 3:
                continue
            reported.add(reason)
            chk.violation(payload_of(case, reason, detail))
    chk.cov["distribution"] = dist
    if chk.tier == "thorough":
        gfortran_stage(chk, [c for c in cases if not c.get("corpus")], dist)
    # known findings: replay each witness against the real code
    for e in common.known_findings("C24"):
        w = e["witness"]
        ev = evaluate({"text": w["text"], "dm": w.get("dm", False), "invokes": w["invokes"],
                       "testing": w.get("testing", False)})
        if ev["status"] == "ok" and any(r == w["reason"] for r, _ in ev["bad"]):
            chk.known(e["what"])


def gfortran_stage(chk, cases, dist, limit=30):
    """thorough tier: gfortran checks the explicit interface of every rewritten call against the PSy routine"""
    from props import c24_fexec as FX
    fx = FX.Fexec(R.setup()["kdir"])
    g = {"files": 0, "clean": 0, "other_errors": 0, "known_class": 0}
    try:
        for case in cases:
            if g["files"] >= limit:
                break
            res = R.run_generate(case["text"], case["dm"])
            if res[0] != "ok":
                continue
            g["files"] += 1
            out = fx.check(res[1], res[2])
            rel = [(l, m) for l, m in out if not l.startswith("other-")]
            if not out:
                g["clean"] += 1
            elif not rel:
                g["other_errors"] += 1
            elif any(roles_shared(i) for i in case["invokes"]) and any("Duplicate symbol" in m for _, m in rel):
                # known class; gfortran rejects the SUBROUTINE statement, the other messages are its consequences
                g["known_class"] += 1
            else:
                chk.violation(payload_of(case, "gfortran", "; ".join(f"{l}: {m}" for l, m in rel[:4])))
                break
    finally:
        fx.close()
    dist["gfortran"] = g


def replay(payload):
    R.setup()
    try:
        if payload.get("reason") == "gfortran":
            from props import c24_fexec as FX
            res = R.run_generate(payload["text"], payload["dm"])
            if res[0] != "ok":
                print("real code refuses the file:", res[1:])
                return 0
            fx = FX.Fexec(R.setup()["kdir"])
            try:
                rel = [(l, m) for l, m in fx.check(res[1], res[2]) if not l.startswith("other-")]
            finally:
                fx.close()
            print(payload["text"], "\nexpected:", payload["expected"], "\nobserved (gfortran):", rel or "compiles")
            return 1 if rel else 0
        if payload.get("kind") != "failing-input":
            print("no failing input stored in this replay file:", payload.get("note", ""))
            return 1 if payload.get("broken") else 0
        case = {"text": payload["text"], "dm": payload["dm"], "invokes": payload["invokes"],
                "testing": payload.get("testing", False)}
        print(payload["text"])
        try:
            ev = evaluate(case)
        except CalibrationViolation as cv:
            print("expected:", payload["expected"])
            print("observed:", cv.detail)
            return 1
        if payload["reason"] == "calibration":
            print("observed: the plain-name invoke is now handled consistently")
            return 0
        if ev["status"] == "refused":
            print("real code refuses the file:", ev["error"], ev["message"])
            return 0
        for i, o in enumerate(ev.get("obs", [])):
            print(f"invoke {i}: call actuals {o['actuals']}\n          PSy dummies  {o['dummies']}")
        hit = [(r, d) for r, d in ev["bad"] if r == payload["reason"]]
        print("expected:", payload["expected"])
        print("observed:", hit or [d for _, d in ev["bad"]] or "property holds")
        return 1 if hit else 0
    finally:
        R.cleanup()
