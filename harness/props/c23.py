"""C23 — LFRic shared-DoF increments are only parallelised over colours.

Real PSyclone (colouring / OpenMP / OpenACC transformations on LFRic invokes) against the Lean model
`C23.runSkip` on random histories; the property (`Safe`) is evaluated directly on the real schedule
after every accepted step and generation is attempted at the end."""
import json
import os
import time

import common
from common import driver, sx, parse_sx
from . import c23_lfric as L
from . import c23_tables

# ---- kernel / invoke universe -----------------------------------------------------------
CONT = ["w0", "w1", "w2", "w2h", "any_w2", "w2trace"]
ANY = ["any_space_1", "any_space_2", "any_space_7"]
DISC = ["w3", "wtheta", "w2v", "w2broken", "any_discontinuous_space_1", "any_discontinuous_space_3"]


def random_kernel(rng, idx):
    """Valid LFRic metadata: INC/READINC/WRITE only on continuous or any_space fields, WRITE/READWRITE on
    discontinuous fields, operators READ/WRITE/READWRITE; at least one written argument."""
    kind = rng.choice(["inc", "readinc", "inc", "readinc", "cwrite", "disc", "disc", "op_inc", "op_readinc", "op",
                       "inc_any", "readinc_any", "two", "domain"])
    args = []
    operates_on = "cell_column"
    stencil_ok = not kind.startswith("op")
    if kind in ("inc", "readinc"):
        args.append(("field", kind.upper(), rng.choice(CONT)))
    elif kind in ("inc_any", "readinc_any"):
        args.append(("field", kind[:-4].upper(), rng.choice(ANY)))
    elif kind == "cwrite":
        args.append(("field", "WRITE", rng.choice(CONT + ANY)))
    elif kind == "disc":
        args.append(("field", rng.choice(["WRITE", "READWRITE"]), rng.choice(DISC)))
    elif kind in ("op_inc", "op_readinc"):
        d = rng.choice(["w3", "wtheta", "w2v"])
        args.append(("op", rng.choice(["WRITE", "READWRITE"]), rng.choice(DISC[:4] + CONT[:3]), d))
        args.append(("field", kind[3:].upper(), rng.choice(CONT + ANY)))
    elif kind == "op":
        args.append(("op", rng.choice(["WRITE", "READWRITE"]), rng.choice(DISC[:4] + CONT[:3]),
                     rng.choice(DISC[:4] + CONT[:3])))
    elif kind == "two":
        args.append(("field", rng.choice(["WRITE", "READWRITE"]), rng.choice(DISC)))
        args.append(("field", rng.choice(["INC", "READINC"]), rng.choice(CONT + ANY)))
    elif kind == "domain":
        operates_on = "domain"
        args.append(("field", rng.choice(["WRITE", "READWRITE"]), rng.choice(DISC[:2])))
    # read-only extras (a third of them read through a stencil, some are field vectors)
    for _ in range(rng.randint(0, 2)):
        if operates_on == "domain":
            args.append(("field", "READ", rng.choice(DISC[:2])))
        elif stencil_ok and rng.random() < 0.4:
            args.append(("field", "READ", rng.choice(CONT + ANY + DISC), rng.choice(L.STENCILS),
                         rng.choice(["variable", "literal"]), 1))
        else:
            args.append(("field", "READ", rng.choice(CONT + ANY + DISC), None, None, rng.choice([1, 1, 1, 3])))
    if rng.random() < 0.15:
        args.append(("rscalar", "READ"))
    rng.shuffle(args)
    return {"name": f"k{idx}_{kind}", "operates_on": operates_on, "args": args}


def random_calls(rng, kernels):
    n = rng.choice([1, 1, 2, 2, 3])
    calls = [("kern", rng.randrange(len(kernels))) for _ in range(n)]
    if rng.random() < 0.5:
        b = rng.choice(list(L.BUILTINS))
        calls.insert(rng.randrange(len(calls) + 1), ("builtin", b, rng.choice(["w0", "w3", "w2", "any_space_1"])))
    return calls


FIXED_KERNELS = [
    {"name": "kf_inc_w0", "operates_on": "cell_column", "args": [("field", "INC", "w0"), ("field", "READ", "w3")]},
    {"name": "kf_readinc_w0", "operates_on": "cell_column", "args": [("field", "READINC", "w0"), ("field", "READ", "w3")]},
    {"name": "kf_op_readinc", "operates_on": "cell_column",
     "args": [("op", "WRITE", "w3", "w3"), ("field", "READINC", "w1")]},
    {"name": "kf_w_w3", "operates_on": "cell_column", "args": [("field", "WRITE", "w3"), ("field", "READ", "w0")]},
    {"name": "kf_readinc_any", "operates_on": "cell_column",
     "args": [("field", "READ", "w3"), ("field", "READINC", "any_space_1")]},
]
for _i, _st in enumerate(L.STENCILS):
    FIXED_KERNELS.append({"name": f"kf_sten_{_st}", "operates_on": "cell_column",
                          "args": [("field", "INC" if _i % 2 == 0 else "READINC", ["w1", "w0", "any_space_1"][_i % 3]),
                                   ("field", "READ", "w2", _st, "variable" if _i % 2 == 0 else "literal", 1)]})
FIXED_KERNELS.append({"name": "kf_vec_inc", "operates_on": "cell_column",
                      "args": [("field", "INC", "w2", None, None, 3), ("field", "READ", "w3", "region", "variable", 1)]})
FIXED_INVOKES = [[("kern", 0), ("kern", 1)], [("kern", 2), ("builtin", "setval_c", "w0")],
                 [("kern", 3), ("kern", 4), ("builtin", "X_innerproduct_Y", "w3")],
                 [("kern", 5), ("kern", 6), ("kern", 7)], [("kern", 8), ("kern", 9), ("kern", 10)], [("kern", 11)]]


# ---- histories ---------------------------------------------------------------------------
def random_step(rng, sched, bias):
    """A step [name, targets] chosen on the current real schedule; mostly sensible targets."""
    from psyclone.psyir.nodes import Loop
    nodes = L.statement_nodes(sched)
    name = rng.choice(L.TRANS if rng.random() > bias else ["colour", "omp_parallel_do", "omp_do", "acc_loop", "omp_parallel", "gen_omp_do", "gen_omp_parallel_do"])
    if name in L.LOOP_TRANS:
        loops = [i for i, n in enumerate(nodes) if isinstance(n, Loop)]
        if loops and rng.random() < 0.85:
            return [name, [rng.choice(loops)], random_options(rng, name)]
        return [name, [rng.randrange(len(nodes))], random_options(rng, name)]
    a = rng.randrange(len(nodes))
    tg = [a]
    par, pos = nodes[a].parent, nodes[a].position
    for d in range(1, rng.choice([0, 0, 1, 2, 3]) + 1):
        if pos + d < len(par.children):
            tg.append(next(i for i, x in enumerate(nodes) if x is par.children[pos + d]))
    r = rng.random()
    if r < 0.06:
        tg.append(rng.randrange(len(nodes)))          # possibly not a sibling / duplicate
    elif r < 0.09 and len(tg) > 1:
        tg.reverse()
    elif r < 0.11:
        tg = [len(nodes) + rng.randrange(3)]          # out of range
    return [name, tg, random_options(rng, name) if rng.random() < 0.5 else None]


def step_sx(step):
    name, tg = step[0], step[1]
    o = (step[2] if len(step) > 2 else None) or {}
    if name == "colour":
        return ["c", tg[0]]
    tc = 0 if o.get("node-type-check") is False else 1
    if name in L.PAR_LOOP_TRANS:
        t = {"omp_parallel_do": 0, "omp_do": 1, "acc_loop": 2, "gen_omp_do": 3, "gen_omp_parallel_do": 4}[name]
        return ["p", t, 1 if o.get("sequential") else 0, 1 if o.get("gang") else 0, 1 if o.get("vector") else 0,
                o.get("collapse") or 0, tc, tg[0]]
    return ["r", {"omp_parallel": 0, "acc_parallel": 1, "acc_kernels": 2}[name], tc,
            0 if o.get("disable_loop_check") else 1] + list(tg)


def random_options(rng, name):
    """Option dictionaries: default most of the time for the random stream, every documented option otherwise."""
    o = {}
    if name == "colour":
        return None
    if name in L.PAR_LOOP_TRANS:
        if name == "acc_loop":
            bits = rng.randrange(8)                      # all 2^3 combinations of sequential / gang / vector
            o.update(sequential=bool(bits & 1), gang=bool(bits & 2), vector=bool(bits & 4))
            if rng.random() < 0.3:
                o["independent"] = rng.random() < 0.5
        else:
            if rng.random() < 0.2:
                o["sequential"] = True
            if rng.random() < 0.3:
                o["reprod"] = rng.random() < 0.5
            if rng.random() < 0.3:
                o["omp_schedule"] = rng.choice(["static", "dynamic", "guided", "auto", "runtime", "static,4"])
        if rng.random() < 0.2:
            o["collapse"] = rng.choice([2, 2, 3, 1])
        if rng.random() < 0.1:
            o["node-type-check"] = False
    else:
        if rng.random() < 0.15:
            o["node-type-check"] = False
        if name in ("acc_parallel", "acc_kernels") and rng.random() < 0.3:
            o["default_present"] = rng.random() < 0.5
        if name == "acc_kernels" and rng.random() < 0.3:
            o["disable_loop_check"] = True
    return o or None


def forest_in_sx(sched):
    """Initial real schedule as protocol input (loops carry the function-space *id* of loop.field_space)."""
    from psyclone.psyir.nodes import Loop, Directive
    from psyclone.psyGen import Kern, HaloExchange, GlobalSum

    def forest(s):
        out = []
        for c in s.children:
            if isinstance(c, Kern):
                k = L.kern_abs(c)
                out.append(["k", k[1]] + k[2])
            elif isinstance(c, HaloExchange):
                out.append(["h"])
            elif isinstance(c, GlobalSum):
                out.append(["g"])
            elif isinstance(c, Loop):
                fs = L.fs_id(c.field_space.orig_name) if c.field_space is not None else 99
                out.append(["l", L.LT[c.loop_type], fs, forest(c.loop_body)])
            elif isinstance(c, Directive):
                out.append(["d", L.dir_kind(c), forest(c.dir_body)])
            else:
                out.append(["o"])
        return out
    return forest(sched)


def forest_out(sched):
    """Real schedule in the shape of the driver's output."""
    def conv(f):
        out = []
        for n in f:
            if n[0] == "halo":
                out.append(["h"])
            elif n[0] == "gsum":
                out.append(["g"])
            elif n[0] == "kern":
                out.append(["k", n[1]] + n[2])
            elif n[0] == "loop":
                out.append(["l", n[1], n[2], conv(n[3])])
            elif n[0] == "dir":
                out.append(["d", n[1], conv(n[2])])
            else:
                out.append(["o"])
        return out
    return conv(L.abstract(sched))


def run_history_real(info, dm, steps=None, rng=None, nsteps=0, bias=0.0, gen=True, complete=False, invoke=0, share=False):
    """Run a history (given, or drawn step by step from rng) on a fresh real invoke.
    Returns dict(init, steps, results, final, unsafe, gen, ...).  With `share` the history is run the way a script runs
    it: one options dictionary OBJECT per distinct option content, reused by every step with those options
    (L.OptionsPool); the model still sees what the caller wrote into each dictionary."""
    pool = L.OptionsPool() if share else None
    psy = L.make_psy(info, dm)
    sched = psy.invokes.invoke_list[invoke].schedule
    init = forest_in_sx(sched)
    out = {"crashes": [], "da_assumption": L.da_assumption(sched), "init": init, "steps": [], "results": [], "messages": [], "unsafe": None, "unsafe_after": None}
    todo = list(steps) if steps is not None else None
    k = 0
    while (todo if todo is not None else k < nsteps):
        st = todo.pop(0) if todo is not None else random_step(rng, sched, bias)
        k += 1
        res, msg = L.apply_step(sched, st, pool)
        if msg and msg.startswith("CRASH"):
            # PSyclone raised something other than TransformationError (e.g. GenerationError from the generic dependence
            # analysis on a coloured inter-grid kernel, or while formatting a refusal message).  Nothing was accepted, the
            # model has no notion of a crash: the step is dropped from the history and the history ends here.
            out["crashes"].append([st, msg])
            break
        out["steps"].append(st)
        out["results"].append(1 if res == "ok" else 0)
        out["messages"].append(msg)
        if res == "ok" and out["unsafe"] is None:
            why = L.unsafe_reason(sched)
            if why:
                out["unsafe"], out["unsafe_after"] = why, len(out["steps"])
    if complete:
        # complete the history so that generation has a chance: enclose orphan worksharing / acc loop directives
        for _ in range(6):
            st = completion_step(sched)
            if st is None:
                break
            res, msg = L.apply_step(sched, st, pool)
            if msg and msg.startswith("CRASH"):
                out["crashes"].append([st, msg])
                break
            out["steps"].append(st)
            out["results"].append(1 if res == "ok" else 0)
            out["messages"].append(msg)
            if res != "ok":
                break
    out["options_mutated"] = list(pool.mutations) if pool is not None else []
    out["final"] = forest_out(sched)
    out["unsafe_final"] = L.unsafe_reason(sched)
    out["colours_in_omp"] = colours_in_omp(sched)
    out["gen"] = None
    if gen:
        out["gen"] = generation(psy, sched)
    return out


def completion_step(sched):
    from psyclone.psyir import nodes as N
    nodes = L.statement_nodes(sched)
    for i, n in enumerate(nodes):
        if type(n) is N.OMPDoDirective and not n.ancestor(N.OMPParallelDirective):
            return ["omp_parallel", [i]]
        if isinstance(n, N.ACCLoopDirective) and not n.ancestor((N.ACCParallelDirective, N.ACCKernelsDirective)):
            return ["acc_parallel", [i]]
    return None


def colours_in_omp(sched):
    from psyclone.psyir.nodes import OMPParallelDirective
    from psyclone.domain.lfric import LFRicLoop
    for lp in sched.walk(LFRicLoop):
        if lp.loop_type == "colours" and lp.ancestor(OMPParallelDirective):
            return "loop over colours inside an OpenMP parallel region"
    return None


def generation(psy, sched):
    """'ok' if code generation succeeds (after adding the enter-data directive OpenACC needs), else 'fail'."""
    from psyclone.psyir.nodes import ACCDirective
    try:
        if sched.walk(ACCDirective):
            from psyclone.transformations import ACCEnterDataTrans
            ACCEnterDataTrans().apply(sched)
        str(psy.gen)
        return "ok"
    except Exception as e:   # any failure to generate means no code was produced
        return "fail: " + type(e).__name__ + ": " + str(e)[-160:].replace("\n", " ")


def model_line(init, steps):
    return sx([init, [step_sx(s) for s in steps]])


# ---- the check ---------------------------------------------------------------------------
def case_src(case):
    """Source description of a case: bundled algorithm file or synthesised kernels+calls."""
    if case.get("alg_file"):
        return {"alg_file": case["alg_file"]}
    return {"kernels": case["kernels"], "calls": case["calls"]}


def judge(chk, case, real, mo, dist):
    """Compare one history; returns a violation payload or None."""
    m = parse_sx(mo) if mo.startswith("(") else None
    agreed = (m is not None and m[0] == real["results"] and m[3] == real["final"]
              and (m[2] == 1) == (real["unsafe_final"] is None))      # model's safe1 == Safe evaluated on the real schedule
    gen_ok = real["gen"] == "ok"
    if m is not None and agreed and gen_ok and m[1] == 0:
        agreed = False   # model says generation must refuse, real generation succeeded
    nontrivial = sum(real["results"]) >= 1
    share = bool(case.get("share"))
    chk.case({"init": real["init"], "steps": real["steps"], "dm": case["dm"], "share": share}, nontrivial=nontrivial,
             agreed=agreed)
    dist["shared_options_histories"] += 1 if share else 0
    dist["caller_options_modified"] += len(real["options_mutated"])
    dist["accepted_steps"] += sum(real["results"])
    dist["refused_steps"] += len(real["results"]) - sum(real["results"])
    dist["gen_ok" if gen_ok else "gen_fail"] += 1
    dist["crash_instead_of_refusal"] += len(real["crashes"])
    dist["da_assumption_broken"] += 1 if real["da_assumption"] else 0
    for st, r in zip(real["steps"], real["results"]):
        dist.setdefault(st[0] + (":ok" if r else ":refused"), 0)
        dist[st[0] + (":ok" if r else ":refused")] += 1
    # the property itself on the real code
    bad = None
    if gen_ok and real["unsafe_final"]:
        bad = real["unsafe_final"]
    elif gen_ok and real["colours_in_omp"]:
        bad = real["colours_in_omp"]
    src = case_src(case)
    if bad:
        return dict(src, kind="failing-input", invoke=case.get("invoke", 0), dm=case["dm"], steps=real["steps"], share=share,
                    options_modified_by_apply=real["options_mutated"],
                    observed="all steps with result 1 accepted %s, code generated; %s" % (real["results"], bad),
                    expected="the parallelisation of the uncoloured loop is refused (or generation refuses)",
                    schedule=real["final"], da_assumption=real["da_assumption"],
                    model_agrees=agreed, model_says_unsafe=(m is not None and m[2] == 0), results=real["results"])
    if not agreed or real["da_assumption"] or real["options_mutated"]:
        what = "real transformations differ from C23.runSkip" if not agreed else \
            ("assumption on the generic dependence analysis broken: " + "; ".join(real["da_assumption"][:2])
             if real["da_assumption"] else
             "frame condition broken (the model's steps depend only on the options the caller wrote): "
             + "; ".join(real["options_mutated"][:2]))
        chk.correspondence_broken(what, dict(src, init=real["init"], steps=real["steps"], dm=case["dm"],
                                             invoke=case.get("invoke", 0), share=share),
                                  mo, {"results": real["results"], "final": real["final"], "gen": real["gen"],
                                       "messages": real["messages"], "da_assumption": real["da_assumption"],
                                       "options_mutated": real["options_mutated"]})
    return None


ACC_COMBOS = [dict(sequential=bool(b & 1), gang=bool(b & 2), vector=bool(b & 4)) for b in range(8)]
SWEEP = ([("acc_loop", o) for o in ACC_COMBOS]
         + [(n, o) for n in ("omp_parallel_do", "omp_do", "gen_omp_do", "gen_omp_parallel_do")
            for o in (None, {"sequential": True})])


def sweep_steps(info, dm, invoke, name, opts, coloured):
    """Systematic sweep: `name` with options `opts` applied to every loop of the fresh schedule, last loop first (wrapping a
    later node does not shift the pre-order indices of earlier ones).  With `coloured`, every loop over cells on a
    continuous space is coloured first and the transformation is then applied to every colours AND colour loop."""
    from psyclone.psyir.nodes import Loop
    psy = L.make_psy(info, dm)
    sched = psy.invokes.invoke_list[invoke].schedule
    steps = []
    if coloured:
        nodes = L.statement_nodes(sched)
        for i, n in reversed(list(enumerate(nodes))):
            if isinstance(n, Loop) and n.loop_type == "":
                st = ["colour", [i], None]
                if L.apply_step(sched, st)[0] == "ok":
                    steps.append(st)
    nodes = L.statement_nodes(sched)
    return steps + [[name, [i], opts] for i, n in reversed(list(enumerate(nodes))) if isinstance(n, Loop)]


SHARED_OPTS = [{"reprod": True}, {"reprod": False}]


def shared_pair_steps(info, dm, invoke, name1, name2, opts, parity):
    """Systematic two-transformation script with ONE shared options dictionary: the colourable loops over cells at
    positions of the given parity are coloured; `name1` is applied (with the shared dictionary) to every loop of the
    coloured nests, then `name2` (SAME dictionary object, see L.OptionsPool) to every loop that is not yet below a
    worksharing directive; always last loop first, so that wrapping a node does not shift the indices still to come
    (the indices of the second phase are read off the live schedule after the first phase)."""
    from psyclone.psyir.nodes import Loop
    psy = L.make_psy(info, dm)
    sched = psy.invokes.invoke_list[invoke].schedule
    pool = L.OptionsPool()
    steps = []
    nodes = L.statement_nodes(sched)
    cells = [i for i, n in enumerate(nodes) if isinstance(n, Loop) and n.loop_type == ""]
    for i in reversed(cells[parity::2]):
        st = ["colour", [i], None]
        if L.apply_step(sched, st)[0] == "ok":
            steps.append(st)
    nodes = L.statement_nodes(sched)
    first = [[name1, [i], dict(opts)] for i, n in reversed(list(enumerate(nodes)))
             if isinstance(n, Loop) and n.loop_type in ("colour", "colours")]
    for st in first:
        L.apply_step(sched, st, pool)
    nodes = L.statement_nodes(sched)
    second = [[name2, [i], dict(opts)] for i, n in reversed(list(enumerate(nodes)))
              if isinstance(n, Loop) and n.loop_type not in ("colour", "colours") and not L.is_parallel_loop(n)]
    return steps + first + second


def n_invokes_of(info, dm=False):
    return len(L.make_psy(info, dm).invokes.invoke_list)


def run(chk):
    chk.cov["rule"] = ("(1) systematic sweep: every invoke x dm on/off x each of the 5 loop-parallelising transformations "
                       "(DynamoOMPParallelLoopTrans, Dynamo0p3OMPLoopTrans, ACCLoopTrans, generic OMPLoopTrans, generic "
                       "OMPParallelLoopTrans) applied to every uncoloured loop, then regions added and code generated; "
                       "(2) random histories of <=6 transformations (those 5 + Dynamo0p3ColourTrans, OMPParallelTrans, "
                       "ACCParallelTrans, ACCKernelsTrans) with random targets, 40% of them run script-style with ONE options "
                       "dictionary object per distinct option content shared by all steps; (3) systematic shared-options scripts: "
                       "every ordered pair (T1,T2) of the 5 loop-parallelising transformations, alternate loops coloured, T1 on "
                       "every colour/colours loop then T2 on every remaining loop, all with the SAME options dictionary object "
                       "(synthesised invokes in quick; all invokes, both dm settings, both parities in thorough).  Invokes: synthesised LFRic kernels "
                       "(gh_inc/gh_readinc/gh_write/gh_readwrite/gh_read on continuous, any_space and discontinuous spaces, "
                       "operators, field vectors, all six stencil types with variable and literal extents, domain kernels, "
                       "built-ins) and bundled test algorithms of tests/test_files/dynamo0p3 chosen to cover every feature "
                       "class of the bundled gh_inc/gh_readinc kernels (stencils, vectors, operators, CMA, basis/quadrature/"
                       "evaluators, mesh and reference-element properties, inter-grid); distributed memory on and off; "
                       "non-trivial = at least one accepted step; distinct by canonical JSON")
    chk.assumptions += [
        "options: every documented option of the transformations is varied (sequential/gang/vector in all 8 combinations, "
        "independent, collapse, reprod, OpenMP schedule, node-type-check, default_present, disable_loop_check); only "
        "options={'force': True} is excluded (it is by nature an override of the checks)",
        "an `acc loop` is parallel unless the directive text it EMITS carries the `seq` clause (read from "
        "ACCLoopDirective.begin_string(), not from the options passed)",
        "frame condition: a step's behaviour depends only on the options the CALLER wrote into the dictionary it passes - "
        "apply()/validate() never leave the caller's dictionary changed.  CHECKED on every shared-options history (dictionary "
        "compared before/after each apply, also for refused steps); a breach is a broken correspondence and the shared-options "
        "scripts turn it into a failing input",
        "targets are statement-level nodes of the invoke schedule (children of Schedules), addressed in pre-order",
        "the generic dependence analysis (DependencyTools.can_loop_be_parallelised) answers False without raising for an LFRic "
        "loop over cells whose kernel has an INC/READINC argument; CHECKED on every case (on the fresh schedule) and by the "
        "systematic sweep - a breach makes ACCLoopTrans / generic OMP transformations accept and is reported as failing input",
        "one kernel per loop (LFRicLoopFuseTrans is outside the quantifier of C23)",
        "'parallel loop' = the loop directly below an OMP DO / PARALLEL DO / ACC LOOP directive; a serial loop replicated inside a "
        "parallel region is not in the statement",
        "clause 2 is stated for OpenMP parallel regions (PSyclone's own tests put the loop over colours inside 'acc parallel')",
        "kernel metadata is valid LFRic metadata (accepted by the real parser)"]
    chk.cov["trusted_base"] = ["Lean 4.33.0 kernel", "axioms propext/Classical.choice/Quot.sound only (audited)",
                               "translator harness/props/c23_tables.py (probe objects passed to PSyLoop.has_inc_arg)",
                               "abstraction of the real schedule and Safe evaluation in harness/props/c23_lfric.py",
                               "fparser2 / LFRic metadata parser"]
    t0 = time.time()
    proof_ok = chk.lean(gen=c23_tables.gen)
    t_lean = time.time() - t0
    L.setup_api()
    rng = chk.rng
    thorough = chk.tier == "thorough"
    n_synth = 50 if thorough else 8
    n_bundled = 60 if thorough else 14
    per_invoke = 400 if thorough else 30
    dist = {"accepted_steps": 0, "refused_steps": 0, "gen_ok": 0, "gen_fail": 0, "crash_instead_of_refusal": 0,
            "da_assumption_broken": 0, "failing_inputs_in_known_finding_class": 0, "shared_options_histories": 0,
            "caller_options_modified": 0}
    found = None
    findings = common.known_findings("C23")
    with L.Workdir() as wd:
        # ---- sources ------------------------------------------------------------------
        sources = []     # (case template, info)
        cdir = os.path.join(common.ROOT, "corpus", "C23")
        corpus = []
        if os.path.isdir(cdir):
            for fn in sorted(os.listdir(cdir)):
                if fn.endswith(".json"):
                    corpus.append(json.load(open(os.path.join(cdir, fn))))
        for j, calls in enumerate(FIXED_INVOKES):
            src = {"kernels": FIXED_KERNELS, "calls": calls}
            sources.append((src, L.parse_source(wd.path, src, f"f{j}")))
        for j in range(n_synth):
            kernels = [random_kernel(rng, i) for i in range(3)]
            src = {"kernels": kernels, "calls": random_calls(rng, kernels)}
            try:
                sources.append((src, L.parse_source(wd.path, src, f"r{j}")))
            except Exception as e:   # the generator only emits valid metadata
                raise common.Infra(f"synthesised invoke rejected by the parser: {e}\n{src}")
        algs = L.catalogue()
        chosen = L.select_bundled(algs, n_bundled, rng)
        skipped = []
        for fn in chosen:
            try:
                info = L.parse_bundled(fn)
                n_invokes_of(info)
            except Exception as e:   # several bundled files are deliberately invalid
                skipped.append(fn)
                continue
            sources.append(({"alg_file": fn}, info))
        chk.cov["bundled_algorithms"] = [fn for fn in chosen if fn not in skipped]
        chk.cov["bundled_skipped_unparsable"] = skipped
        chk.cov["bundled_feature_classes"] = sorted(set().union(*[algs[f] for f in chosen if f not in skipped])) if chosen else []
        if len(chosen) - len(skipped) < min(8, len(chosen)):
            raise common.Infra(f"only {len(chosen) - len(skipped)} of {len(chosen)} bundled LFRic algorithms could be parsed")
        cases, reals = [], []
        # ---- corpus first -------------------------------------------------------------
        for ci, c in enumerate(corpus):
            src = case_src(c)
            info = L.parse_source(wd.path, src, f"c{ci}")
            cases.append(dict(src, dm=c["dm"], invoke=c.get("invoke", 0), share=bool(c.get("share"))))
            reals.append(run_history_real(info, c["dm"], steps=c["steps"], invoke=c.get("invoke", 0), complete=True,
                                          share=bool(c.get("share"))))
        # ---- systematic sweep ---------------------------------------------------------
        n_sweep = 0
        for src, info in sources:
            for inv in range(min(n_invokes_of(info), 2 if not thorough else 8)):
                for dm in (False, True):
                    for name, opts in SWEEP:
                        for coloured in ((False, True) if (opts and opts.get("sequential")) else (False,)):
                            steps = sweep_steps(info, dm, inv, name, opts, coloured)
                            cases.append(dict(src, dm=dm, invoke=inv))
                            reals.append(run_history_real(info, dm, steps=steps, invoke=inv, complete=True))
                            n_sweep += 1
        # ---- systematic scripts with a shared options dictionary -----------------------
        n_shared = 0
        n_fixed = len(FIXED_INVOKES)
        for si, (src, info) in enumerate(sources):
            if not thorough and si >= n_fixed + n_synth:
                break                                     # quick tier: synthesised invokes only
            for inv in range(min(n_invokes_of(info), 1 if not thorough else 4)):
                for dm in ((False, True) if thorough else (bool(si % 2),)):
                    for name1 in L.PAR_LOOP_TRANS:
                        for name2 in L.PAR_LOOP_TRANS:
                            for oi, opts in enumerate(SHARED_OPTS if thorough else SHARED_OPTS[:1]):
                                for parity in ((0, 1) if thorough else (1,)):
                                    steps = shared_pair_steps(info, dm, inv, name1, name2, opts, parity)
                                    cases.append(dict(src, dm=dm, invoke=inv, share=True))
                                    reals.append(run_history_real(info, dm, steps=steps, invoke=inv, complete=True,
                                                                  share=True))
                                    n_shared += 1
        # ---- random histories ---------------------------------------------------------
        for src, info in sources:
            ninv = n_invokes_of(info)
            for _ in range(per_invoke):
                dm = rng.random() < 0.5
                inv = rng.randrange(ninv)
                share = rng.random() < 0.4
                cases.append(dict(src, dm=dm, invoke=inv, share=share))
                reals.append(run_history_real(info, dm, rng=rng, nsteps=rng.randint(1, 6), bias=rng.choice([0.0, 0.6]),
                                              complete=rng.random() < 0.6, invoke=inv, share=share))
        model = driver("C23", [model_line(r["init"], r["steps"]) for r in reals]) if proof_ok or _driver_exists() else None
        for idx, (case, real) in enumerate(zip(cases, reals)):
            mo = model[idx] if model is not None else "no-model"
            payload = judge(chk, case, real, mo, dist)
            if payload and in_known_class(payload, findings):
                dist["failing_inputs_in_known_finding_class"] += 1
            elif payload:
                found = minimise(wd, payload)
                break
    chk.cov["distribution"] = dist
    chk.cov["invokes"] = len(sources)
    chk.cov["sweep_histories"] = n_sweep
    chk.cov["shared_options_script_histories"] = n_shared
    chk.cov["phase_s"] = {"lean_build_and_audit_incl_lock_wait": round(t_lean, 1), "cases": round(time.time() - t0 - t_lean, 1)}
    if found:
        chk.violation(found)
    # known findings (none open: the READINC defect is repaired by the fix patch); replay them if listed
    for e in findings:
        if replay(dict(e["witness"]), quiet=True) == 1:
            chk.known(e["what"])


def seq_generic_omp_steps(payload):
    """accepted steps of the class of finding C23-sequential-generic-omp: a generic OpenMP loop transformation that was
    given options['sequential'] = True"""
    out = []
    for st, ok in zip(payload["steps"], payload.get("results") or [1] * len(payload["steps"])):
        if ok and st[0] in ("gen_omp_do", "gen_omp_parallel_do") and len(st) > 2 and st[2] and st[2].get("sequential"):
            out.append(st)
    return out


def in_known_class(payload, findings):
    """A failing input belongs to a listed finding iff (i) the committed model reproduces it: model and code agree on the
    whole history and the model's own safe1 is false - by theorem C23_holds_partial this can only be due to a step outside
    `Step.seqOk`; and (ii) the finding's classifier accepts it: the history contains an accepted generic-OpenMP step with
    sequential=True and the failure is a clause-1 failure."""
    for e in findings:
        if e.get("classifier") == "accepted generic OMPLoopTrans/OMPParallelLoopTrans step with options['sequential']=True":
            if (payload.get("model_agrees") and payload.get("model_says_unsafe") and seq_generic_omp_steps(payload)
                    and "parallel loop of type" in payload.get("observed", "")):
                return e
    return None


def _driver_exists():
    return os.path.exists(os.path.join(common.LEAN, ".lake", "build", "bin", "drv_c23"))


def minimise(wd, payload):
    """Shrink the failing history: drop steps while the failure persists."""
    steps = payload["steps"]
    src = case_src(payload)
    inv = payload.get("invoke", 0)
    share = bool(payload.get("share"))
    info = L.parse_source(wd.path, src, "min")

    def fails(sts):
        try:
            r = run_history_real(info, payload["dm"], steps=sts, invoke=inv, share=share)
        except Exception:
            return False
        return r["gen"] == "ok" and bool(r["unsafe_final"] or r["colours_in_omp"])
    r = run_history_real(info, payload["dm"], steps=steps, invoke=inv, share=share)
    acc = [s for s, ok in zip(steps, r["results"]) if ok]
    if fails(acc):
        steps = acc
    changed = True
    while changed:
        changed = False
        for i in range(len(steps)):
            cand = steps[:i] + steps[i + 1:]
            # removing a wrapping step shifts later pre-order indices down by one
            cand2 = steps[:i] + [[st[0], [t - 1 if t > steps[i][1][0] else t for t in st[1]]] + list(st[2:]) for st in steps[i + 1:]]
            for c in (cand, cand2):
                if c and fails(c):
                    steps, changed = c, True
                    break
            if changed:
                break
    out = dict(payload, steps=steps)
    if not src.get("alg_file"):
        used = sorted({c[1] for c in payload["calls"] if c[0] == "kern"})
        out["kernels"] = [payload["kernels"][i] for i in used]
        out["calls"] = [["kern", used.index(c[1])] if c[0] == "kern" else list(c) for c in payload["calls"]]
    r = run_history_real(info, payload["dm"], steps=steps, invoke=inv, share=share)
    out["schedule"] = r["final"]
    out["options_modified_by_apply"] = r["options_mutated"]
    out["observed"] = "steps accepted %s, code generated; %s" % (r["results"], r["unsafe_final"] or r["colours_in_omp"])
    return out


def replay_broken(payload):
    """Replay of a 'no-failing-input-found' file: re-run the disagreeing cases through real code and model."""
    L.setup_api()
    still = 0
    for b in payload.get("broken", []):
        if b.get("kind") != "correspondence":
            print("broken proof obligation:", b.get("what"))
            still += 1
            continue
        c = b["case"]
        with L.Workdir() as wd:
            info = L.parse_source(wd.path, case_src(c), "replay")
            r = run_history_real(info, c["dm"], steps=c["steps"], invoke=c.get("invoke", 0), share=bool(c.get("share")))
        mo = driver("C23", [model_line(r["init"], r["steps"])])[0]
        m = parse_sx(mo) if mo.startswith("(") else None
        agreed = m is not None and m[0] == r["results"] and m[3] == r["final"] and not (r["gen"] == "ok" and m[1] == 0)
        agreed = agreed and not r["da_assumption"] and not r["options_mutated"]
        print("caller's options dictionaries:", r["options_mutated"] or "left unchanged")
        print("steps:", r["steps"], "\nreal results:", r["results"], "gen:", r["gen"], "\nreal final:", r["final"], "\nmodel:", mo,
              "\ndependence-analysis assumption:", r["da_assumption"] or "holds", "\n->", "agree" if agreed else "DISAGREE")
        still += 0 if agreed else 1
    return 1 if still else 0


def replay(payload, quiet=False):
    if "kernels" not in payload and "alg_file" not in payload:
        return replay_broken(payload)
    L.setup_api()
    with L.Workdir() as wd:
        info = L.parse_source(wd.path, case_src(payload), "replay")
        r = run_history_real(info, payload["dm"], steps=payload["steps"], invoke=payload.get("invoke", 0),
                             share=bool(payload.get("share")))
    bad = (r["unsafe_final"] or r["colours_in_omp"]) if r["gen"] == "ok" else None
    if not quiet:
        print("source:", json.dumps(case_src(payload)), "invoke:", payload.get("invoke", 0), "dm:", payload["dm"])
        print("steps:", r["steps"], "results:", r["results"])
        print("messages:", r["messages"])
        print("final schedule:", r["final"])
        print("generation:", r["gen"])
        if payload.get("share"):
            print("script style: one options dictionary object per distinct option content, shared by the steps;",
                  "modified by apply():", r["options_mutated"] or "never")
        print("generic dependence analysis on the fresh schedule:", r["da_assumption"] or "answers False without raising")
        print("observed:", bad or "schedule is Safe (or generation refused)")
        print("expected: every parallel loop with an INC/READINC argument on a continuous or unknown space is a 'colour' loop; "
              "no loop over colours inside an OpenMP parallel region")
    return 1 if bad else 0
