"""C12, second case family: extraction regions over LFRic kernels that access MODULE variables
(`get_in_out_parameters(..., collect_non_local_symbols=True)` as used by LFRicExtractTrans;
path `get_non_local_read_write_info` -> `_resolve_calls_and_unknowns`).

A case = 2-3 synthesised kernels, each reading / writing-first / read-writing 1-3 variables of
one shared module, invoked in a given order inside one invoke which is wrapped by the real
LFRicExtractTrans.  The real non-local input/output lists are compared with the Lean model
`RegionData.inputsCalls/outputsCalls` (merge of the callees' own summaries) and the property
itself is evaluated on the inlined callee bodies (`seqs bodies`, the semantic reference) with
the REAL lists: dynamic writes, stored-value independence, replay."""
import atexit
import itertools
import os
import shutil
import tempfile

import common
from common import driver
from props import c12_region as R

SHARED = ["g0", "g1", "g2"]
IDS = {"g0": 0, "g1": 1, "g2": 2, "ga": 3, "f1": 4, "f2": 5}
G = [0, 1, 2, 3]
GA_CELLS = [1, 2, 3, 4, 5]
KN = ["alpha", "beta", "gamma", "delta"]       # kernel names
INIT = {"g0": 2, "g1": -1, "g2": 3, "f1": 7, "f2": 3}

SHARED_MOD = """
module shared_state_mod
  use constants_mod, only: r_def
  implicit none
  real(kind=r_def) :: g0 = 1.0_r_def, g1 = 1.0_r_def, g2 = 1.0_r_def
  real(kind=r_def), dimension(5) :: ga
end module shared_state_mod
"""

KERNEL = """
module {name}_kern_mod
  use argument_mod
  use fs_continuity_mod
  use kernel_mod
  use constants_mod
  implicit none
  type, extends(kernel_type) :: {name}_kern_type
     type(arg_type), dimension(2) :: meta_args =            &
          (/ arg_type(gh_field, gh_real, gh_readwrite, w3), &
             arg_type(gh_field, gh_real, gh_read,      w3)  &
           /)
     integer :: operates_on = cell_column
   contains
     procedure, nopass :: code => {name}_kern_code
  end type {name}_kern_type
contains
  subroutine {name}_kern_code(nlayers, fld1, fld2, ndf_w3, undf_w3, map_w3)
    use shared_state_mod, only: {used}
    implicit none
    integer(kind=i_def), intent(in) :: nlayers
    integer(kind=i_def), intent(in) :: ndf_w3, undf_w3
    integer(kind=i_def), intent(in), dimension(ndf_w3) :: map_w3
    real(kind=r_def), intent(inout), dimension(undf_w3) :: fld1
    real(kind=r_def), intent(in), dimension(undf_w3) :: fld2
    integer(kind=i_def) :: k
{ops}
    do k = 0, nlayers-1
      fld1(map_w3(1)+k) = fld1(map_w3(1)+k) + {scale}*fld2(map_w3(1)+k)
    end do
  end subroutine {name}_kern_code
end module {name}_kern_mod
"""

ALG = """
module demo_alg_mod
contains
  subroutine demo_alg()
    use field_mod, only: field_type
{uses}
    implicit none
    type(field_type) :: f1, f2
    call invoke({calls})
  end subroutine demo_alg
end module demo_alg_mod
"""


# ---------------------------------------------------------------------------
# abstract kernels: {"ops": [op...], "scale": var-or-None}
def lit(c):
    return ["lit", c]


def var(v):
    return ["var", IDS[v]]


def op_fortran(op):
    k = op[0]
    if k == "set":
        return [f"    {op[1]} = {op[2]}.0_r_def"]
    if k == "inc":
        return [f"    {op[1]} = {op[1]} + {op[2]}.0_r_def"]
    if k == "copy":
        return [f"    {op[1]} = {op[2]}"]
    if k == "cset":
        return [f"    if ({op[2]} > 0.0_r_def) then", f"      {op[1]} = {op[3]}.0_r_def", "    end if"]
    if k == "aset":
        return [f"    ga({op[1]}) = {op[2]}.0_r_def"]
    if k == "ainc":
        return [f"    ga({op[1]}) = ga({op[1]}) + {op[2]}.0_r_def"]
    raise ValueError(k)


def op_minif(op):
    k = op[0]
    if k == "set":
        return ["assign", IDS[op[1]], lit(op[2])]
    if k == "inc":
        return ["assign", IDS[op[1]], ["bin", "add", var(op[1]), lit(op[2])]]
    if k == "copy":
        return ["assign", IDS[op[1]], var(op[2])]
    if k == "cset":
        return ["ite", ["bin", "gt", var(op[2]), lit(0)], ["seqs", ["assign", IDS[op[1]], lit(op[3])]], ["skip"]]
    if k == "aset":
        return ["store1", IDS["ga"], lit(op[1]), lit(op[2])]
    if k == "ainc":
        return ["store1", IDS["ga"], lit(op[1]), ["bin", "add", ["idx1", IDS["ga"], lit(op[1])], lit(op[2])]]
    raise ValueError(k)


def op_accesses(op):
    """ordered (var, kind) with kind in read / whole / partial"""
    k = op[0]
    if k == "set":
        return [(op[1], "whole")]
    if k == "inc":
        return [(op[1], "read"), (op[1], "whole")]
    if k == "copy":
        return [(op[2], "read"), (op[1], "whole")]
    if k == "cset":
        return [(op[2], "read"), (op[1], "partial")]
    if k == "aset":
        return [("ga", "partial")]
    if k == "ainc":
        return [("ga", "read"), ("ga", "partial")]
    raise ValueError(k)


def kernel_minif(kern):
    """body of the kernel: the ops, then the field update (one representative element)"""
    scale = var(kern["scale"]) if kern["scale"] else lit(1)
    upd = ["store1", IDS["f1"], lit(1), ["bin", "add", ["idx1", IDS["f1"], lit(1)],
                                          ["bin", "mul", scale, ["idx1", IDS["f2"], lit(1)]]]]
    return ["seqs"] + [op_minif(o) for o in kern["ops"]] + [upd]


def kernel_used(kern):
    used = []
    for o in kern["ops"]:
        for v, _ in op_accesses(o):
            if v not in used:
                used.append(v)
    if kern["scale"] and kern["scale"] not in used:
        used.append(kern["scale"])
    return used


def kernel_fortran(name, kern):
    ops = [l for o in kern["ops"] for l in op_fortran(o)] or ["    ! no module-variable statement"]
    used = kernel_used(kern)
    text = KERNEL.format(name=name, used=", ".join(used) if used else "g0", ops="\n".join(ops),
                         scale=kern["scale"] or "1.0_r_def")
    if not used:
        text = text.replace("    use shared_state_mod, only: g0\n", "")
    return text


def partial_first(kernels, order):
    first = {}
    for k in order:
        acc = [a for o in kernels[k]["ops"] for a in op_accesses(o)]
        if kernels[k]["scale"]:
            acc.append((kernels[k]["scale"], "read"))
        for v, kind in acc:
            first.setdefault(v, kind)
    return {v: ("array element write" if v == "ga" else "write nested in a conditional or a loop body")
            for v, kind in first.items() if kind == "partial"}


def gen_kernel(rng):
    ops = []
    for _ in range(rng.randint(0, 3)):
        x = rng.random()
        v = rng.choice(SHARED)
        w = rng.choice([s for s in SHARED if s != v])
        if x < 0.35:
            ops.append(["set", v, rng.randint(2, 9)])
        elif x < 0.6:
            ops.append(["inc", v, rng.randint(1, 5)])
        elif x < 0.75:
            ops.append(["copy", v, w])
        elif x < 0.85:
            ops.append(["cset", v, w, rng.randint(2, 9)])
        elif x < 0.93:
            ops.append(["aset", rng.choice(GA_CELLS), rng.randint(1, 9)])
        else:
            ops.append(["ainc", rng.choice(GA_CELLS), rng.randint(1, 9)])
    return {"ops": ops, "scale": rng.choice(SHARED + [None])}


# ---------------------------------------------------------------------------
# the real code

_ROOT = []


def _root():
    """one scratch root per process, removed at exit: fparser1 keeps the directory of every
    kernel file it has parsed as an include directory and fails once one of them disappears"""
    if not _ROOT:
        _ROOT.append(tempfile.mkdtemp(prefix="psyverif-c12-"))
        atexit.register(shutil.rmtree, _ROOT[0], ignore_errors=True)
    return _ROOT[0]


class Workdir:
    """scratch directory with the shared module and the kernels of one case set"""

    def __init__(self, kernels):
        self.dir = tempfile.mkdtemp(prefix="set-", dir=_root())
        self.write("shared_state_mod.f90", SHARED_MOD)
        for n, k in enumerate(kernels):
            self.write(f"{KN[n]}_kern_mod.f90", kernel_fortran(KN[n], k))

    def write(self, name, text):
        with open(os.path.join(self.dir, name), "w", encoding="utf-8") as f:
            f.write(text)

    def close(self):
        """nothing: the whole scratch root is removed at process exit (see _root)"""


def real_lists(work, order):
    """non-local (shared_state_mod) and field in/out lists recorded by the real
    LFRicExtractTrans for invoke(k_order[0], k_order[1], ...)"""
    import psyclone
    from psyclone.configuration import Config
    from psyclone.domain.lfric.transformations import LFRicExtractTrans
    from psyclone.parse import ModuleManager
    from psyclone.parse.algorithm import parse
    from psyclone.psyGen import PSyFactory
    from psyclone.psyir.nodes import ExtractNode
    cfg = Config.get()
    old_api, old_dm = cfg.api, cfg.distributed_memory
    old_mm = ModuleManager._instance
    try:
        cfg.api = "lfric"
        tag = "_".join(str(k) for k in order)
        uses = "\n".join(f"    use {KN[k]}_kern_mod, only: {KN[k]}_kern_type" for k in sorted(set(order)))
        calls = ", ".join(f"{KN[k]}_kern_type(f1, f2)" for k in order)
        alg = os.path.join(work.dir, f"alg_{tag}.f90")
        work.write(f"alg_{tag}.f90", ALG.format(uses=uses, calls=calls))
        ModuleManager._instance = None
        mm = ModuleManager.get()
        mm.add_search_path(work.dir)
        infra = os.path.join(os.path.dirname(psyclone.__file__), "tests", "test_files", "dynamo0p3", "infrastructure")
        mm.add_search_path(infra)
        _, info = parse(alg, api="lfric", kernel_paths=[work.dir])
        psy = PSyFactory("lfric", distributed_memory=False).create(info)
        schedule = psy.invokes.invoke_list[0].schedule
        LFRicExtractTrans().apply(schedule.children)
        rw = schedule.walk(ExtractNode)[0]._read_write_info
        ins = sorted(str(s) for m, s in rw.read_list if m == "shared_state_mod")
        outs = sorted(str(s) for m, s in rw.write_list if m == "shared_state_mod")
        loc_in = {str(s) for m, s in rw.read_list if not m}
        loc_out = {str(s) for m, s in rw.write_list if not m}
        for fld, nm in (("f1_data", "f1"), ("f2_data", "f2")):
            if fld in loc_in:
                ins.append(nm)
            if fld in loc_out:
                outs.append(nm)
        return sorted(ins), sorted(outs)
    finally:
        cfg.api, cfg.distributed_memory = old_api, old_dm
        ModuleManager._instance = old_mm


# ---------------------------------------------------------------------------
# evaluation through the Lean drivers

class Cells:
    """duck-typed stand-in for c12_region.Parsed in c12.evaluate"""
    rank = {"g0": 0, "g1": 0, "g2": 0, "ga": 1, "f1": 1, "f2": 1}

    def queries(self):
        per = []
        for n in sorted(self.rank):
            x = IDS[n]
            cells = [(x,)] if self.rank[n] == 0 else [(x, i) for i in (GA_CELLS if n == "ga" else [1])]
            per.append((n, cells))
        return per, [c for _, cs in per for c in cs]


def prefix():
    st = [["assign", IDS[v], lit(INIT[v])] for v in SHARED]
    st += [["store1", IDS["ga"], lit(k), lit(k + 1)] for k in GA_CELLS]
    st += [["store1", IDS["f1"], lit(1), lit(INIT["f1"])], ["store1", IDS["f2"], lit(1), lit(INIT["f2"])]]
    return ["seqs"] + st


def lines_for(kernels, order, real_in, deltas):
    bodies = [kernel_minif(kernels[k]) for k in order]
    concat = ["seqs"] + bodies
    _, flat = Cells().queries()
    pert = [IDS[n] for n in sorted(Cells.rank) if n not in real_in]
    out = [R.line("inout", concat), R.line("calls", G, bodies)]
    out += [R.line("replay", prefix(), concat, pert, d, [list(c) for c in flat]) for d in deltas]
    return out


def conclude(kernels, order, real, out, deltas, evaluate):
    id2n = {v: k for k, v in IDS.items()}
    m0, m1 = common.parse_sx(out[0]), common.parse_sx(out[1])
    shared = set(SHARED + ["ga"])
    real_shared = [[n for n in real[0] if n in shared], [n for n in real[1] if n in shared]]
    model = [sorted(id2n[x] for x in m1[0]), sorted(id2n[x] for x in m1[1])]
    fails = []
    for d, o in zip(deltas, out[2:]):
        for f in evaluate(Cells(), 0, 0, real[0], real[1], d, o):
            if f[0] not in [g[0] for g in fails]:
                fails.append((f[0], dict(f[1], delta=d)))
    return {"real": real_shared, "real_all": real, "model": model, "wfw": m0[2] == 1, "od": m0[3] == 1,
            "fails": fails, "partial": partial_first(kernels, order),
            "reference_inputs": sorted(id2n[x] for x in m0[0] if id2n[x] in shared)}


def check_case(kernels, order, deltas, evaluate, work=None):
    own = work is None
    work = work or Workdir(kernels)
    try:
        real = real_lists(work, order)
    finally:
        if own:
            work.close()
    out = driver("C12", lines_for(kernels, order, real[0], deltas))
    return conclude(kernels, order, real, out, deltas, evaluate)


def orders(n):
    return [list(p) for p in itertools.permutations(range(n))]
