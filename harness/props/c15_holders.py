"""C15 — which attributes hold Symbols / Nodes / DataTypes?  (a checked fact, not a hand-written list)

The model of copying (lean/PsyVerif/Model/Copy.lean) and the exporter of harness/props/c15.py know a
fixed set of HOLDERS: attributes of nodes, symbols, datatypes, interfaces and symbol tables through
which another node / symbol / datatype object is reached (`Reference._symbol` = `NodeRec.sym`,
`ScalarType._precision` = `World.links`, ...).  An attribute that is not in that set is invisible to
the model: `copy.copy` would hand it on to the copy unnoticed.

This module finds the holders by INTROSPECTION of the real objects: the `__dict__` of every object
reachable from the generated trees (nodes, symbol tables, symbols, interfaces, datatypes; through
lists, tuples, dicts, sets and named tuples) is walked recursively, and every attribute through which
a Node, Symbol, DataType, SymbolTable or interface object is reached is recorded as
`<class that the table knows>.<attribute> -> <kind of target>`.
  * `scan(roots)` -> {holder: count};  `unknown(holders)` = those not in `KNOWN` (a broken
    correspondence: the model / exporter must be extended before anything can be claimed);
  * `leaks(copy_root, own_syms, own_nodes)` = the generic form of "the copy is disjoint from and
    internal to itself": NO path of attributes whatsoever leads from the copy to a symbol of the
    original's copied scopes or to a node of the original subtree.  (The hand-written clauses of
    c15.py follow the known holders only; this one follows everything.)
`KNOWN` maps each holder to the field of the Lean model that stands for it (or to the reason why it
needs none)."""
import enum

# holder -> (model field | reason)
KNOWN = {
    # ---- nodes ------------------------------------------------------------------------------
    "Node._children -> Node": "Forest (first-child/next-sibling)",
    "Node._parent -> Node": "Forest (position; the root of a copy has no parent)",
    "Reference._symbol -> Symbol": "NodeRec.sym",
    "Loop._variable -> Symbol": "NodeRec.sym",
    "Routine._return_symbol -> Symbol": "NodeRec.sym",
    "Literal._datatype -> DataType": "NodeRec.tsym (precision symbol of the type)",
    "ScopingNode._symbol_table -> SymbolTable": "NodeRec.table",
    # ---- symbol tables ----------------------------------------------------------------------
    "SymbolTable._symbols -> Symbol": "NodeRec.table (ordered)",
    "SymbolTable._argument_list -> Symbol": "real objects only: reachable_syms 'argument list' (entries are table symbols)",
    "SymbolTable._tags -> Symbol": "real objects only: reachable_syms 'tag' (entries are table symbols)",
    "SymbolTable._node -> Node": "back pointer of NodeRec.table",
    # ---- symbols ----------------------------------------------------------------------------
    "Symbol._interface -> Interface": "World.iface",
    "TypedSymbol._datatype -> DataType": "World.links / World.bounds",
    "TypedSymbol._datatype -> Symbol": "World.links (DataTypeSymbol)",
    "DataSymbol._initial_value -> Node": "World.init",
    "DataTypeSymbol._datatype -> DataType": "World.links / World.bounds",
    "GenericInterfaceSymbol._routines -> Symbol": "World.links",
    # ---- interfaces -------------------------------------------------------------------------
    "ImportInterface._container_symbol -> Symbol": "World.links",
    # ---- datatypes --------------------------------------------------------------------------
    "ScalarType._precision -> Symbol": "World.links",
    "ArrayType._precision -> Symbol": "World.links",
    "ArrayType._intrinsic -> Symbol": "World.links (the DataTypeSymbol of an array of derived type, same object as _datatype)",
    "ArrayType._datatype -> DataType": "World.links / World.bounds",
    "ArrayType._datatype -> Symbol": "World.links (DataTypeSymbol)",
    "ArrayType._shape -> Node": "World.bounds",
    "StructureType._components -> DataType": "World.links / World.bounds of the DataTypeSymbol",
    "StructureType._components -> Symbol": "World.links of the DataTypeSymbol",
    "StructureType._components -> Node": "World.bounds of the DataTypeSymbol (default initialisers)",
    "UnsupportedFortranType._partial_datatype -> DataType": "not followed: the type is written from its text (assumption)",
    "UnsupportedFortranType._partial_datatype -> Symbol": "not followed: the type is written from its text (assumption)",
}

# holders of the PSyKAl layers (second family, real objects only).  Those marked with a finding id are
# handed on by copy.copy and are the listed known findings; the others are re-built or immutable.
# holders that exist only because of a defect (listed known finding); they vanish with the repair
KNOWN_DEFECT = {
    "Node._ast -> Node": "C15-loop-ast-self",
}

KNOWN_PSYKAL = {
    "Kern._arguments -> Arguments": "finding C15-psykal-shared-arguments (NodeRec.attr)",
    "LFRicLoop._kern -> Node": "finding C15-psykal-loop-kern-pointer",
    "Loop._kern -> Node": "finding C15-psykal-loop-kern-pointer",
}


def _classes():
    from psyclone.psyir.nodes import Node
    from psyclone.psyir.symbols import Symbol, DataType, SymbolTable
    from psyclone.psyir.symbols.interfaces import SymbolInterface
    return Node, Symbol, DataType, SymbolTable, SymbolInterface


def kind_of(obj):
    """'Node' | 'Symbol' | 'DataType' | 'SymbolTable' | 'Interface' | None"""
    Node, Symbol, DataType, SymbolTable, SymbolInterface = _classes()
    for cls, name in ((Node, "Node"), (Symbol, "Symbol"), (DataType, "DataType"), (SymbolTable, "SymbolTable"),
                      (SymbolInterface, "Interface")):
        if isinstance(obj, cls):
            return name
    return None


def _atomic(v):
    return v is None or isinstance(v, (str, bytes, int, float, bool, complex, enum.Enum, type)) or callable(v)


def targets(value, depth=0):
    """the PSyIR objects reached from an attribute value through plain containers (not through other objects)"""
    if _atomic(value) or depth > 6:
        return []
    if kind_of(value) is not None:
        return [value]
    out = []
    if isinstance(value, dict):
        for k, v in value.items():
            out += targets(k, depth + 1) + targets(v, depth + 1)
    elif isinstance(value, (list, tuple, set, frozenset)):
        for v in value:
            out += targets(v, depth + 1)
    return out


_owner_cache = {}


def owner_name(obj, attr):
    """the most general class that could define the attribute: the class of KNOWN if there is one for this
    attribute among the bases of the object's class, else the class of the object itself"""
    key = (type(obj), attr)
    if key not in _owner_cache:
        _owner_cache[key] = _owner_name(obj, attr)
    return _owner_cache[key]


def _owner_name(obj, attr):
    for cls in type(obj).__mro__:
        for key in KNOWN:
            if key.startswith(cls.__name__ + "." + attr + " "):
                return cls.__name__
        for key in list(KNOWN_PSYKAL) + list(KNOWN_DEFECT):
            if key.startswith(cls.__name__ + "." + attr + " "):
                return cls.__name__
    return type(obj).__name__


def attrs_of(obj):
    d = getattr(obj, "__dict__", None)
    return d.items() if isinstance(d, dict) else ()


def scan(roots, acc=None, limit=200000):
    """walk everything reachable from `roots`; -> {holder: count}.  Objects that are not PSyIR objects
    (fparser parse trees of CodeBlocks, ...) are not entered."""
    acc = {} if acc is None else acc
    seen = set()
    todo = list(roots)
    while todo and len(seen) < limit:
        obj = todo.pop()
        if id(obj) in seen:
            continue
        seen.add(id(obj))
        for attr, value in attrs_of(obj):
            for t in targets(value):
                holder = f"{owner_name(obj, attr)}.{attr} -> {kind_of(t)}"
                acc[holder] = acc.get(holder, 0) + 1
                if id(t) not in seen:
                    todo.append(t)
    return acc


def unknown(holders, psykal=False):
    table = dict(KNOWN)
    table.update(KNOWN_DEFECT)
    if psykal:
        table.update(KNOWN_PSYKAL)
    return sorted(h for h in holders if h not in table)


def leaks(copy_root, own_syms, own_nodes, limit=200000, skip=(), only=None):
    """-> None, or (path, object): an attribute path from the copy to a symbol of the original's copied
    scopes / a node of the original (subtree or declarations).  Every attribute is followed."""
    own_syms = {id(s): s for s in own_syms}
    own_nodes = {id(n): n for n in own_nodes}
    seen = {id(copy_root)}
    todo = [(copy_root, type(copy_root).__name__)]
    while todo and len(seen) < limit:
        obj, path = todo.pop()
        for attr, value in attrs_of(obj):
            if obj is copy_root and attr == "_parent":
                continue
            if attr in skip:
                continue
            for t in targets(value):
                p = f"{path}.{attr}>{type(t).__name__}"
                if (id(t) in own_syms or id(t) in own_nodes) and (only is None or attr in only):
                    return p, t
                if id(t) in own_syms or id(t) in own_nodes:
                    continue
                if id(t) not in seen:
                    seen.add(id(t))
                    # keep paths short: they are only for the report
                    todo.append((t, p if p.count(">") < 8 else "..." + p[-160:]))
    return None
