"""C23 helpers: synthesise LFRic algorithm/kernel sources, build invokes with the real
PSyclone, abstract the real schedule into the model's tree, apply one history step to
the real schedule, and evaluate the property (`Safe`) directly on the real schedule."""
import copy
import json
import os
import shutil
import tempfile

# ---- fixed universes (ids used in the line protocol and in the Lean spec tables) ------
# Function-space names: id = index.  The *specification-level* continuity of each name is
# fixed here (and, identically, in Props/C23.lean `Spec.fsDisc`): it does not come from PSyclone.
FS_NAMES = (["w3", "wtheta", "w2v", "w2vtrace", "w2broken",               # 0-4 discontinuous
             "w0", "w1", "w2", "w2trace", "w2h", "w2htrace", "any_w2",    # 5-11 continuous
             "wchi"]                                                      # 12 continuous, read only
            + [f"any_space_{i}" for i in range(1, 11)]                    # 13-22 unknown
            + [f"any_discontinuous_space_{i}" for i in range(1, 11)])     # 23-32 discontinuous
SPEC_DISC = [True] * 5 + [False] * 8 + [False] * 10 + [True] * 10
ACCESS_NAMES = ["READ", "WRITE", "READWRITE", "INC", "READINC", "SUM", "UNKNOWN"]
GH = {"READ": "gh_read", "WRITE": "gh_write", "READWRITE": "gh_readwrite", "INC": "gh_inc",
      "READINC": "gh_readinc", "SUM": "gh_sum"}
# loop types
LT = {"": 0, "colours": 1, "colour": 2, "dof": 3, "null": 4}
# directive kinds of the model
D_OMP_PARALLEL, D_OMP_DO, D_OMP_PARALLEL_DO, D_ACC_LOOP, D_ACC_PARALLEL, D_ACC_KERNELS, D_ACC_LOOP_SEQ, D_OTHER = range(8)
# transformations of the model (protocol ids)
TRANS = ["colour", "omp_parallel_do", "omp_do", "omp_parallel", "acc_loop", "acc_parallel", "acc_kernels",
         "gen_omp_do", "gen_omp_parallel_do"]
LOOP_TRANS = {"colour", "omp_parallel_do", "omp_do", "acc_loop", "gen_omp_do", "gen_omp_parallel_do"}
PAR_LOOP_TRANS = ["omp_parallel_do", "omp_do", "acc_loop", "gen_omp_do", "gen_omp_parallel_do"]
STENCILS = ["cross", "region", "x1d", "y1d", "xory1d", "cross2d"]


def fs_id(name):
    name = name.lower()
    return FS_NAMES.index(name) if name in FS_NAMES else 99


# ---- source synthesis -----------------------------------------------------------------
# A kernel spec is {"name": str, "operates_on": "cell_column"|"domain"|"dof"?, "args": [arg]},
# arg = ("field", access, fs) | ("op", access, fs_to, fs_from) | ("rscalar", "READ"|"SUM")
# An invoke spec is a list of calls: ("kern", kernel_index) | ("builtin", name)

BUILTINS = {
    # name: (call text, fields needed)
    "setval_c": "setval_c({0}, 0.0_r_def)",
    "inc_a_plus_X": "inc_a_plus_X(1.0_r_def, {0})",
    "X_plus_Y": "X_plus_Y({0}, {1}, {2})",
    "inc_X_times_Y": "inc_X_times_Y({0}, {1})",
    "X_innerproduct_Y": "X_innerproduct_Y(rsum, {0}, {1})",
    "sum_X": "sum_X(rsum, {0})",
}


def kernel_source(k):
    lines = []
    for a in k["args"]:
        if a[0] == "field":
            sten = a[3] if len(a) > 3 and a[3] else None
            vec = a[5] if len(a) > 5 and a[5] else 1
            fld = "gh_field" if vec == 1 else f"gh_field*{vec}"
            tail = f", stencil({sten})" if sten else ""
            lines.append(f"arg_type({fld}, gh_real, {GH[a[1]]}, {a[2]}{tail})")
        elif a[0] == "op":
            lines.append(f"arg_type(gh_operator, gh_real, {GH[a[1]]}, {a[2]}, {a[3]})")
        else:
            lines.append(f"arg_type(gh_scalar, gh_real, {GH[a[1]]})")
    n = k["name"]
    meta = ", &\n          ".join(lines)
    return f"""module {n}_mod
  use argument_mod
  use fs_continuity_mod
  use kernel_mod
  use constants_mod
  implicit none
  type, extends(kernel_type) :: {n}_type
     type(arg_type), dimension({len(lines)}) :: meta_args = &
       (/ {meta} /)
     integer :: operates_on = {k.get("operates_on", "cell_column")}
   contains
     procedure, nopass :: code => {n}_code
  end type {n}_type
contains
  subroutine {n}_code()
    implicit none
  end subroutine {n}_code
end module {n}_mod
"""


def alg_source(kernels, calls):
    """Each kernel call gets its own fresh actual arguments except that field position 0 of
    every call shares `fshare` when possible?  No: keep all actual arguments distinct per
    (space) so that halo exchanges between loops are produced in a varied way."""
    uses, decls, stmts = [], [], []
    vecs = {}
    nf = no = 0
    used_k = set()
    for c in calls:
        if c[0] == "kern":
            k = kernels[c[1]]
            if c[1] not in used_k:
                used_k.add(c[1])
                uses.append(f"  use {k['name']}_mod, only: {k['name']}_type")
            actual = []

            def fresh(base):
                # one actual argument per function space shared across the invoke (creates halo
                # exchanges between loops); distinct within one call
                name, n = base, 1
                while name in actual:
                    n += 1
                    name = f"{base}_{n}"
                return name
            for i, a in enumerate(k["args"]):
                if a[0] == "field":
                    vec = a[5] if len(a) > 5 and a[5] else 1
                    fname = fresh("f_" + a[2] + (f"_v{vec}" if vec > 1 else ""))
                    actual.append(fname)
                    if vec > 1:
                        vecs[fname] = vec
                    if len(a) > 3 and a[3]:
                        # stencil extent (variable or literal) and, for xory1d, a direction
                        if len(a) > 4 and a[4] == "literal":
                            actual.append("2")
                        else:
                            actual.append(fresh("ext_" + fname))
                        if a[3] == "xory1d":
                            actual.append("x_direction" if (len(a) > 4 and a[4] == "literal") else fresh("dir_" + fname))
                elif a[0] == "op":
                    actual.append(fresh(f"op_{a[2]}_{a[3]}"))
                elif a[1] == "SUM":
                    actual.append("rsum")
                else:
                    actual.append(fresh("rscal"))
            stmts.append(f"{k['name']}_type({', '.join(actual)})")
        else:
            stmts.append(BUILTINS[c[1]].format("f_" + c[2], "f_" + c[2] + "_b", "f_" + c[2] + "_c"))
    names = set()
    for s in stmts:
        for tok in s.replace("(", " ").replace(")", " ").replace(",", " ").split():
            if tok.startswith("f_"):
                names.add(("field", tok))
            elif tok.startswith("op_"):
                names.add(("op", tok))
            elif tok.startswith("ext_") or tok.startswith("dir_"):
                names.add(("int", tok))
    fl = sorted(t + (f"({vecs[t]})" if t in vecs else "") for k, t in names if k == "field")
    ol = sorted(t for k, t in names if k == "op")
    il = sorted(t for k, t in names if k == "int")
    if fl:
        decls.append("  type(field_type) :: " + ", ".join(fl))
    if il:
        decls.append("  integer(i_def) :: " + ", ".join(il))
    if ol:
        decls.append("  type(operator_type) :: " + ", ".join(ol))
    body = ", &\n       ".join(stmts)
    return f"""program c23_alg
  use constants_mod, only: r_def, i_def
  use flux_direction_mod, only: x_direction
  use field_mod, only: field_type
  use operator_mod, only: operator_type
{chr(10).join(uses)}
  implicit none
{chr(10).join(decls)}
  real(r_def) :: rsum, rscal, rscal_2, rscal_3
  call invoke( &
       {body} )
end program c23_alg
"""


class Workdir:
    def __enter__(self):
        self.path = tempfile.mkdtemp(prefix="c23_", dir=os.environ.get("TMPDIR"))
        return self

    def __exit__(self, *a):
        shutil.rmtree(self.path, ignore_errors=True)


def setup_api():
    from psyclone.configuration import Config
    Config.get().api = "lfric"


def parse_invoke(workdir, kernels, calls, tag):
    """Write sources into workdir/<tag>/ and parse them (parse result is dm independent)."""
    from psyclone.parse.algorithm import parse
    d = os.path.join(workdir, tag)
    os.makedirs(d, exist_ok=True)
    for i in {c[1] for c in calls if c[0] == "kern"}:
        with open(os.path.join(d, kernels[i]["name"] + "_mod.f90"), "w") as f:
            f.write(kernel_source(kernels[i]))
    alg = os.path.join(d, "alg.f90")
    with open(alg, "w") as f:
        f.write(alg_source(kernels, calls))
    _, info = parse(alg, api="dynamo0.3", kernel_paths=[d])
    return info


def test_files_dir():
    import common
    return os.path.join(common.REPO, "src", "psyclone", "tests", "test_files", "dynamo0p3")


def parse_bundled(alg_file):
    from psyclone.parse.algorithm import parse
    d = test_files_dir()
    _, info = parse(os.path.join(d, alg_file), api="dynamo0.3", kernel_paths=[d])
    return info


def parse_source(workdir, src, tag):
    """src = {"alg_file": name} (bundled test algorithm) or {"kernels": [...], "calls": [...]} (synthesised)."""
    if src.get("alg_file"):
        return parse_bundled(src["alg_file"])
    return parse_invoke(workdir, src["kernels"], [tuple(c) for c in src["calls"]], tag)


def catalogue():
    """Text scan (no parsing) of the bundled LFRic test files: for every algorithm file the feature classes of the
    INC/READINC kernels it invokes.  Returns {alg_file: set(features)}."""
    import re
    d = test_files_dir()
    feats = {}
    for fn in sorted(os.listdir(d)):
        if not re.search(r"_mod\.[fF]90$", fn):
            continue
        try:
            txt = open(os.path.join(d, fn), errors="replace").read().lower()
        except OSError:
            continue
        m = re.search(r"^\s*module\s+(\w+)", txt, re.M)
        if not m or not re.search(r"gh_inc\b|gh_readinc\b", txt):
            continue
        f = set()
        f.add("readinc" if "gh_readinc" in txt else "inc")
        for st in STENCILS:
            if re.search(r"stencil\(\s*%s\s*\)" % st, txt):
                f.add("stencil_" + st)
        if re.search(r"gh_field\s*\*\s*\d", txt):
            f.add("vector")
        if "gh_operator" in txt:
            f.add("operator")
        if "gh_columnwise_operator" in txt:
            f.add("cma")
        if "meta_funcs" in txt or "gh_shape" in txt:
            f.add("basis")
        for q in ("gh_quadrature_xyoz", "gh_quadrature_face", "gh_quadrature_edge", "gh_evaluator"):
            if q in txt:
                f.add(q)
        if "meta_mesh" in txt:
            f.add("mesh_property")
        if "meta_reference_element" in txt or "meta_ref" in txt:
            f.add("ref_element")
        if "gh_coarse" in txt or "mesh_arg" in txt:
            f.add("intergrid")
        if "any_space_" in txt:
            f.add("any_space")
        if "gh_integer" in txt and "gh_field" in txt:
            f.add("int_data")
        if re.search(r"gh_scalar", txt):
            f.add("scalar")
        feats[m.group(1)] = f
    algs = {}
    for fn in sorted(os.listdir(d)):
        if not re.match(r"\d.*\.[fF]90$", fn):
            continue
        try:
            txt = open(os.path.join(d, fn), errors="replace").read().lower()
        except OSError:
            continue
        fs = set()
        for m in re.finditer(r"^\s*use\s+(\w+)", txt, re.M):
            if m.group(1) in feats:
                fs |= {m.group(1) + ":" + x for x in ()}  # placeholder (kernel identity not needed)
                fs |= feats[m.group(1)]
        if fs:
            if re.search(r"\(\s*\w+\s*,\s*\w+\s*,\s*\d+\s*[,)]", txt):
                fs.add("literal_extent_maybe")
            algs[fn] = fs
    return algs


def select_bundled(algs, limit, rng=None):
    """Greedy cover of all feature classes (deterministic), then random extras up to `limit`."""
    chosen, covered = [], set()
    universe = set().union(*algs.values()) if algs else set()
    names = sorted(algs)
    while covered != universe and len(chosen) < limit:
        best = max(names, key=lambda n: (len(algs[n] - covered), -len(n), n) if n not in chosen else (-1, 0, n))
        if not algs[best] - covered:
            break
        chosen.append(best)
        covered |= algs[best]
    rest = [n for n in names if n not in chosen]
    if rng is not None:
        rng.shuffle(rest)
    chosen += rest[:max(0, limit - len(chosen))]
    return chosen


def make_psy(info, dm):
    from psyclone.configuration import Config
    from psyclone.psyGen import PSyFactory
    Config.get().distributed_memory = dm
    return PSyFactory("dynamo0.3", distributed_memory=dm).create(info)


# ---- abstraction of the real schedule -------------------------------------------------
def dir_kind(node):
    from psyclone.psyir import nodes as N
    if isinstance(node, N.OMPParallelDoDirective):
        return D_OMP_PARALLEL_DO
    if isinstance(node, N.OMPParallelDirective):
        return D_OMP_PARALLEL
    if type(node) is N.OMPDoDirective:
        return D_OMP_DO
    if isinstance(node, N.ACCLoopDirective):
        # read the EMITTED directive text, not the options that were passed to the transformation
        return D_ACC_LOOP_SEQ if acc_loop_is_seq(node) else D_ACC_LOOP
    if isinstance(node, N.ACCParallelDirective):
        return D_ACC_PARALLEL
    if isinstance(node, N.ACCKernelsDirective):
        return D_ACC_KERNELS
    return D_OTHER


def acc_loop_is_seq(directive):
    """True iff the `!$acc loop` line this directive writes carries the `seq` clause."""
    words = directive.begin_string().replace(",", " ").split()
    return "seq" in words[2:]


def statement_nodes(sched):
    """Pre-order list of the nodes the model knows (statement level): everything that is a
    child of a Schedule, not descending into kernels."""
    from psyclone.psyir.nodes import Schedule
    from psyclone.psyGen import Kern
    out = []

    def rec(s):
        for c in s.children:
            out.append(c)
            if isinstance(c, Kern):
                continue
            for sub in c.children:
                if isinstance(sub, Schedule):
                    rec(sub)
    rec(sched)
    return out


def kern_abs(k):
    from psyclone.psyGen import CodedKern
    args = []
    for a in k.arguments.args:
        if a.is_scalar:
            fs = 98
        else:
            fs = fs_id(a.function_space.orig_name)
        args.append([a.access.value, fs])
    return ["kern", 1 if isinstance(k, CodedKern) else 0, args]


def abstract(sched):
    """Nested-list abstraction: a forest = list of nodes;
    node = [halo] | [gsum] | [kern coded ((acc fs) ...)] | [loop type fsdisc forest] | [dir kind forest]"""
    from psyclone.psyir.nodes import Schedule, Loop, Directive
    from psyclone.psyGen import Kern, HaloExchange, GlobalSum
    from psyclone.domain.lfric import LFRicConstants
    disc = LFRicConstants().VALID_DISCONTINUOUS_NAMES

    def forest(s):
        out = []
        for c in s.children:
            if isinstance(c, Kern):
                out.append(kern_abs(c))
            elif isinstance(c, HaloExchange):
                out.append(["halo"])
            elif isinstance(c, GlobalSum):
                out.append(["gsum"])
            elif isinstance(c, Loop):
                fsd = 1 if (c.field_space is not None and c.field_space.orig_name in disc) else 0
                out.append(["loop", LT[c.loop_type], fsd, forest(c.loop_body)])
            elif isinstance(c, Directive):
                out.append(["dir", dir_kind(c), forest(c.dir_body)])
            else:
                out.append(["other"])
        return out
    return forest(sched)


# ---- the property itself, on the real schedule -----------------------------------------
def shared_dof_increment(loop):
    """True iff some coded kernel under `loop` has an INC or READINC argument whose function space is
    continuous or unknown according to the fixed SPEC table (not PSyclone's constants)."""
    from psyclone.psyGen import CodedKern
    from psyclone.core import AccessType
    for k in loop.walk(CodedKern):
        for a in k.arguments.args:
            if a.access in (AccessType.INC, AccessType.READINC) and not a.is_scalar:
                names = [fs.orig_name.lower() for fs in a.function_spaces if fs is not None]
                for name in names:
                    if name not in FS_NAMES or not SPEC_DISC[FS_NAMES.index(name)]:
                        return True
    return False


def is_parallel_loop(loop):
    """The loop is the loop associated with an OpenMP worksharing / OpenACC loop directive."""
    from psyclone.psyir import nodes as N
    p = loop.parent.parent if loop.parent is not None else None
    if isinstance(p, (N.OMPDoDirective, N.OMPParallelDoDirective, N.OMPLoopDirective, N.OMPTaskloopDirective)):
        return True
    if isinstance(p, N.ACCLoopDirective):
        return not acc_loop_is_seq(p)     # `seq` = serial; gang / vector / independent / bare = parallel
    return False


def unsafe_reason(sched):
    """None if the schedule is Safe, else a description of the offending loop."""
    from psyclone.psyir import nodes as N
    from psyclone.domain.lfric import LFRicLoop
    for lp in sched.walk(LFRicLoop):
        if is_parallel_loop(lp) and lp.loop_type != "colour" and shared_dof_increment(lp):
            return (f"parallel loop of type '{lp.loop_type}' (directive {type(lp.parent.parent).__name__}) contains a kernel "
                    f"with INC/READINC access on a continuous or unknown function space but is not a single-colour loop")
    return None


def colours_in_region(sched):
    from psyclone.psyir import nodes as N
    from psyclone.domain.lfric import LFRicLoop
    for lp in sched.walk(LFRicLoop):
        if lp.loop_type == "colours" and lp.ancestor((N.OMPParallelDirective, N.ACCParallelDirective,
                                                       N.ACCKernelsDirective)):
            return f"loop over colours inside {type(lp.ancestor((N.OMPParallelDirective, N.ACCParallelDirective, N.ACCKernelsDirective))).__name__}"
    return None


# ---- one history step on the real schedule ---------------------------------------------
def make_trans(name, opts=None):
    from psyclone import transformations as T
    from psyclone.psyir.transformations import ACCKernelsTrans, OMPLoopTrans
    opts = opts or {}
    sched = opts.get("omp_schedule")
    if name == "omp_parallel_do":
        return T.DynamoOMPParallelLoopTrans(omp_schedule=sched) if sched else T.DynamoOMPParallelLoopTrans()
    if name == "omp_do":
        return T.Dynamo0p3OMPLoopTrans(omp_schedule=sched) if sched else T.Dynamo0p3OMPLoopTrans()
    if name == "gen_omp_do":
        return OMPLoopTrans(omp_schedule=sched) if sched else OMPLoopTrans()
    if name == "gen_omp_parallel_do":
        return T.OMPParallelLoopTrans(omp_schedule=sched) if sched else T.OMPParallelLoopTrans()
    return {"colour": T.Dynamo0p3ColourTrans, "omp_parallel": T.OMPParallelTrans,
            "acc_loop": T.ACCLoopTrans, "acc_parallel": T.ACCParallelTrans,
            "acc_kernels": ACCKernelsTrans}[name]()


def apply_options(opts):
    """The `options` dictionary handed to apply(): everything in opts except constructor arguments.  'force' is never
    passed (excluded by the property)."""
    d = {k: v for k, v in (opts or {}).items() if k != "omp_schedule" and v is not None}
    assert "force" not in d
    return d or None


class OptionsPool:
    """The options dictionaries of a transformation SCRIPT: the caller keeps ONE dictionary object per distinct option
    content and hands that same object to every transformation it applies with those options (the way real scripts do).
    The caller never writes into them, so whatever a transformation writes there leaks into every later step that uses
    the same object.  `mutations` records every apply()/validate() that left the caller's dictionary changed."""

    def __init__(self):
        self.objs = {}
        self.mutations = []

    def get(self, opts):
        d = apply_options(opts)
        if d is None:
            return None, None
        key = json.dumps(d, sort_keys=True)
        return self.objs.setdefault(key, d), json.loads(key)


def apply_step(sched, step, pool=None):
    """step = [trans name, [pre-order indices]] or [name, indices, options].
    Returns ("ok", None) or ("refused", message).  With `pool` the options object is the caller's shared dictionary for
    that option content (see OptionsPool) instead of a fresh one."""
    from psyclone.psyir.transformations import TransformationError
    name, targets = step[0], step[1]
    opts = step[2] if len(step) > 2 else None
    nodes = statement_nodes(sched)
    if any(t >= len(nodes) for t in targets) or not targets:
        return "badtarget", None
    tr = make_trans(name, opts)
    if pool is not None:
        opt_obj, written = pool.get(opts)
        before = copy.deepcopy(opt_obj)
    else:
        opt_obj, written = apply_options(opts), None
    try:
        try:
            if name in LOOP_TRANS:
                tr.apply(nodes[targets[0]], opt_obj)
            else:
                tr.apply([nodes[t] for t in targets], opt_obj)
        finally:
            if pool is not None and opt_obj is not None and opt_obj != before:
                pool.mutations.append(f"{type(tr).__name__}.apply changed the caller's options dictionary from {before} to "
                                      f"{opt_obj} (the caller wrote {written})")
    except TransformationError as e:
        return "refused", str(e.value)[:200]
    except Exception as e:   # noqa: broad on purpose
        # PSyclone crashed instead of raising TransformationError (observed: AttributeError / GenerationError while
        # formatting the message of a refusal in RegionTrans.validate).
        return "refused", "CRASH " + type(e).__name__ + ": " + str(e)[:160]
    return "ok", None


def try_gen(psy):
    from psyclone.errors import GenerationError
    try:
        str(psy.gen)
        return "ok", None
    except GenerationError as e:
        return "refused", str(e.value)[:200]


def da_assumption(sched):
    """The assumption under which the model's ACCLoopTrans / generic OMP verdicts hold: for every loop over cells that is
    not a 'colour' loop and has a shared-DoF increment, the generic dependence analysis answers False and does not raise.
    Returns a list of descriptions of loops for which it is broken."""
    from psyclone.domain.lfric import LFRicLoop
    from psyclone.psyir.tools import DependencyTools
    bad = []
    for lp in sched.walk(LFRicLoop):
        if lp.loop_type in ("colour", "colours", "null") or not shared_dof_increment(lp):
            continue
        try:
            if DependencyTools().can_loop_be_parallelised(lp, test_all_variables=True):
                bad.append(f"can_loop_be_parallelised returned True for the loop of kernel {lp.kernel.name}")
        except Exception as e:   # noqa
            bad.append(f"can_loop_be_parallelised raised {type(e).__name__}({str(e)[:80]}) for the loop of kernel "
                       f"{lp.kernel.name}")
    return bad
