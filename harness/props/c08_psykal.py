"""C08 — correspondence family on REAL PSy-layer loops (PSyKAl kernels and built-ins of the LFRic and GOcean test
algorithms shipped with PSyclone).  For every loop of every invoke schedule:

* `DependencyTools.can_loop_be_parallelised` must answer (the domain-specific `independent_iterations` overrides take
  an InternalError/KeyError of the generic analysis for "no information" and answer True);
* `loop.independent_iterations()` must not be True when the DOMAIN RULE, computed here from the kernel metadata
  alone, says that iterations share data:
    LFRic   a cell loop (type "") over a kernel with a GH_INC argument (continuous function space: neighbouring
            cells share dofs), a dof loop over a reduction built-in, the loop over colours, a "null" loop;
    GOcean  a loop over `j` (outer) / `i` (inner) in which some kernel writes a field that a kernel of the same loop
            accesses with a stencil offset in that direction;
* GOcean only (its kernels describe their accesses with PSyIR subscripts `i±d, j±d`): verdict and message classes of
  `can_loop_be_parallelised` agree with the Lean model `C08.canParallelise` run on a MiniF loop that has the same
  access summary (signatures such as `fld%grid%area_t` are the variables)."""
import glob
import os

import common
import minif
from common import sx, parse_sx
from props import c08_gen

APIS = {"dynamo0.3": "dynamo0p3", "gocean1.0": "gocean1p0"}
# a fixed core (INC / discontinuous / built-ins with and without reduction / stencils / several kernels) + a seeded sample
CORE = {"dynamo0.3": ["1_single_invoke.f90", "1_single_invoke_w3.f90", "4_multikernel_invokes.f90",
                      "15.9.1_X_innerproduct_Y_builtin.f90", "15.1.1_X_plus_Y_builtin.f90", "19.1_single_stencil.f90",
                      "10_operator.f90", "4.8_multikernel_invokes.f90", "24.1_mesh_prop_invoke.f90",
                      "23.1_ref_elem_invoke.f90"],
        "gocean1.0": ["single_invoke.f90", "test31_stencil_not_parallel.f90", "single_invoke_grid_props.f90",
                      "single_invoke_two_kernels_scalars.f90", "single_invoke_write_to_read.f90",
                      "test28_invoke_kernel_stencil.f90", "large_stencil.f90"]}


def test_dir(api):
    return os.path.join(common.REPO, "src", "psyclone", "tests", "test_files", APIS[api])


def pick_files(api, tier, rng):
    allf = sorted(os.path.basename(f) for f in glob.glob(os.path.join(test_dir(api), "*.f90")))
    core = [f for f in CORE[api] if f in allf]
    rest = [f for f in allf if f not in core]
    if tier == "thorough":
        extra = rest if api == "gocean1.0" else rng.sample(rest, min(len(rest), 150))
    else:
        extra = rng.sample(rest, min(len(rest), 10 if api == "gocean1.0" else 6))
    return core + sorted(extra)


def schedule_loops(api, fname):
    """[(invoke name, loop number, loop)] or None when the file is no valid algorithm of this API"""
    from psyclone.configuration import Config
    from psyclone.parse.algorithm import parse
    from psyclone.psyGen import PSyFactory
    from psyclone.psyir.nodes import Loop
    Config.get().api = api
    try:
        _, info = parse(os.path.join(test_dir(api), fname), api=api)
        psy = PSyFactory(api, distributed_memory=False).create(info)
        invokes = list(psy.invokes.invoke_list)
    except Exception:           # negative test inputs, kernels, drivers
        return None
    return [(inv.name, k, lp) for inv in invokes for k, lp in enumerate(inv.schedule.walk(Loop))]


# ---- the domain rules, from kernel metadata only -------------------------------------------------------------
def lfric_rule(loop):
    """(iterations independent?, reason)"""
    lt = loop.loop_type
    if lt in ("null", "colours"):
        return False, "loop type '%s'" % lt
    if lt == "colour":
        return True, "cells of one colour"
    kerns = loop.kernels()
    if lt == "dof":
        red = [k.name for k in kerns if any(a.access.name in ("SUM",) for a in k.arguments.args)]
        return (not red), ("reduction built-in " + ",".join(red)) if red else "built-in without reduction"
    if lt == "":
        inc = [k.name for k in kerns if any(a.access.name in ("INC", "READINC") for a in k.arguments.args)]
        return (not inc), ("GH_INC argument of " + ",".join(inc)) if inc else "only discontinuous/read arguments"
    return False, "unknown loop type " + repr(lt)


def gocean_rule(loop):
    """offsets (in the direction of this loop) with which fields WRITTEN in the loop are accessed in the loop"""
    dim = 1 if loop.loop_type == "outer" else 0          # stencil.depth(i, j): outer loop runs over j
    written, offsets = set(), {}
    for kern in loop.kernels():
        for arg in kern.arguments.args:
            if arg.argument_type != "field":
                continue
            if arg.access.name in ("WRITE", "READWRITE", "INC"):
                written.add(arg.name)
            for dj in (-1, 0, 1):
                for di in (-1, 0, 1):
                    if arg.stencil.depth(di, dj) > 0:
                        offsets.setdefault(arg.name, set()).add((di, dj)[dim])
    bad = sorted(f for f in written if offsets.get(f, set()) - {0})
    return (not bad), ("written field(s) %s accessed with an offset in this direction" % bad) if bad else "pointwise"


# ---- GOcean: MiniF loop with the same access summary ---------------------------------------------------------
class _Lenient(c08_gen.SigNames):
    lenient = True


def _kern_stmts(kern, names):
    from psyclone.core import VariablesAccessInfo
    from psyclone.psyir.nodes import Node
    out = []
    va = VariablesAccessInfo(kern)
    for sig in va.all_signatures:
        ident = names.id(str(sig))
        for acc in va[sig].all_accesses:
            idx = [acc.component_indices[q] for q in acc.component_indices.iterate()]
            if not all(isinstance(e, Node) for e in idx) or len(idx) > 2:
                raise minif.Unsupported("kernel access without PSyIR subscripts")
            subs = [c08_gen.export_expr(e, names) for e in idx]
            kind = acc.access_type.name
            if kind == "READ":
                ref = ["var", ident] if not subs else [f"idx{len(subs)}", ident] + subs
                out.append(["ite", ref, ["skip"], ["skip"]])
            elif kind in ("WRITE", "READWRITE"):      # one write access (a READWRITE access is ONE entry of the list)
                out.append(["assign", ident, ["lit", 0]] if not subs else [f"store{len(subs)}", ident] + subs + [["lit", 0]])
            else:
                raise minif.Unsupported("access type " + kind)
    return out


def export_psy(node, names):
    from psyclone.psyir.nodes import Loop, Schedule
    from psyclone.psyGen import Kern
    if isinstance(node, Schedule):
        parts = []
        for ch in node.children:
            r = export_psy(ch, names)
            parts += r[1:] if r[0] == "seqs" else [r]
        return ["seqs"] + parts
    if isinstance(node, Loop):
        return ["loop", names.id(node.variable.name), c08_gen.export_expr(node.start_expr, names),
                c08_gen.export_expr(node.stop_expr, names), c08_gen.export_expr(node.step_expr, names),
                export_psy(node.loop_body, names)]
    if isinstance(node, Kern):
        return ["seqs"] + _kern_stmts(node, names)
    raise minif.Unsupported(type(node).__name__)


def model_verdicts(loops):
    """[(parallelisable, sorted [(code, name)]) of the Lean model, or None when the loop cannot be exported]"""
    jobs, lines = [], []
    for loop in loops:
        names = _Lenient()
        try:
            lp = export_psy(loop, names)
        except minif.Unsupported:
            jobs.append(None)
            continue
        jobs.append(names)
        lines.append(sx(["par", lp, []]))
    outs = iter(common.driver("C08", lines) if lines else [])
    res = []
    for names in jobs:
        if names is None:
            res.append(None)
            continue
        out = next(outs)
        if not out.startswith("("):
            raise common.Infra("C08 driver (psykal): " + out[:100])
        par = parse_sx(out)
        ids = {v: k for k, v in names.table().items()}
        res.append((bool(par[0]), sorted((m[0], ids.get(m[1], str(m[1]))) for m in par[2])))
    return res


def model_verdict(loop):
    return model_verdicts([loop])[0]


# ---- one loop ------------------------------------------------------------------------------------------------
def examine(api, fname, inv, k, loop):
    from psyclone.psyir.tools import DependencyTools
    dt = DependencyTools()
    rule, why = (lfric_rule if api == "dynamo0.3" else gocean_rule)(loop)
    res = {"kind": "psykal", "api": api, "file": fname, "invoke": inv, "loop": k, "loop_type": loop.loop_type,
           "domain_rule": {"independent": rule, "why": why}}
    if api == "dynamo0.3" and loop.loop_type == "null":
        res["generic"] = ["skipped: no loop variable"]
    else:
        try:
            ok = dt.can_loop_be_parallelised(loop, test_all_variables=True)
            res["generic"] = ["ok", bool(ok), sorted((int(m.code), m.var_names[0].lower() if m.var_names else "")
                                                     for m in dt.get_all_messages())]
        except Exception as err:
            res["generic"] = ["raise", type(err).__name__, str(err)[:160]]
    try:
        res["independent_iterations"] = bool(loop.independent_iterations())
    except Exception as err:
        res["independent_iterations"] = "raise " + type(err).__name__
    if res["independent_iterations"] is True and not rule:
        res["failure"] = {"observed": "independent_iterations() is True",
                          "expected": "False: " + why}
    elif res["generic"][0] == "ok" and res["generic"][1] and not rule:
        res["failure"] = {"observed": "can_loop_be_parallelised is True", "expected": "False: " + why}
    return res


def find_loop(api, fname, inv, k):
    loops = schedule_loops(api, fname)
    for name, q, lp in loops or []:
        if name == inv and q == k:
            return lp
    return None


def replay(payload):
    lp = find_loop(payload["api"], payload["file"], payload["invoke"], payload["loop"])
    if lp is None:
        print("loop not found:", payload["file"], payload["invoke"], payload["loop"])
        return 0
    res = examine(payload["api"], payload["file"], payload["invoke"], payload["loop"], lp)
    print({k: v for k, v in res.items() if k != "failure"})
    if "failure" in res:
        print("observed:", res["failure"]["observed"], "| expected:", res["failure"]["expected"])
        return 1
    if res["generic"][0] == "raise" and payload.get("what") == "raise":
        print("observed: can_loop_be_parallelised raised", res["generic"][1:], "| expected: an answer")
        return 1
    if payload.get("api") == "gocean1.0" and payload.get("what") == "model":
        mv = model_verdict(lp)
        if mv is not None and res["generic"][0] == "ok" and (res["generic"][1], [tuple(x) for x in res["generic"][2]]) != \
                (mv[0], mv[1]):
            print("observed:", res["generic"], "| expected (model):", mv)
            return 1
    print("property holds on this loop")
    return 0


def run_family(chk):
    from psyclone.configuration import Config
    dist = {"files": 0, "loops": 0, "skipped_files": 0, "raised": 0, "model_compared": 0, "by_type": {}}
    old_api = Config.get().api
    pending = []
    try:
        for api in ("gocean1.0", "dynamo0.3"):
            for fname in pick_files(api, chk.tier, chk.rng):
                loops = schedule_loops(api, fname)
                if loops is None:
                    dist["skipped_files"] += 1
                    continue
                dist["files"] += 1
                for inv, k, lp in loops:
                    res = examine(api, fname, inv, k, lp)
                    key = f"{api}:{lp.loop_type or 'cells'}:{'indep' if res['domain_rule']['independent'] else 'dep'}"
                    dist["by_type"][key] = dist["by_type"].get(key, 0) + 1
                    dist["loops"] += 1
                    case = {k2: res[k2] for k2 in ("kind", "api", "file", "invoke", "loop")}
                    agreed = True
                    if res["generic"][0] == "raise":
                        dist["raised"] += 1
                        agreed = False
                        chk.correspondence_broken("can_loop_be_parallelised raised on a PSy-layer loop",
                                                  dict(case, what="raise"), "an answer", res["generic"])
                    if "failure" in res:
                        agreed = False
                        chk.violation(dict(case, loop_type=res["loop_type"], generic=res["generic"],
                                           domain_rule=res["domain_rule"], **res["failure"]))
                    elif res["independent_iterations"] != res["domain_rule"]["independent"]:
                        agreed = False          # over-conservative or raising: not a property failure
                        chk.correspondence_broken("independent_iterations differs from the domain rule",
                                                  dict(case, what="rule"), res["domain_rule"],
                                                  res["independent_iterations"])
                    if api == "gocean1.0" and res["generic"][0] == "ok":
                        pending.append((case, res, lp))
                    chk.case(dict(case, verdict=res["independent_iterations"]), nontrivial=True, agreed=agreed)
        # GOcean: the Lean model on a MiniF loop with the same access summary (one driver call)
        for (case, res, lp), mv in zip(pending, model_verdicts([p[2] for p in pending])):
            if mv is None:
                continue
            dist["model_compared"] += 1
            real = (res["generic"][1], [tuple(x) for x in res["generic"][2]])
            if real != (mv[0], mv[1]):
                chk.correspondence_broken("can_loop_be_parallelised differs from C08.canParallelise on a GOcean "
                                          "PSy-layer loop", dict(case, what="model"), mv, real)
            if mv[0] != res["domain_rule"]["independent"]:
                chk.correspondence_broken("C08.canParallelise differs from the GOcean domain rule",
                                          dict(case, what="model-rule"), mv, res["domain_rule"])
    finally:
        Config.get().api = old_api
    return dist
