"""C15, second family: copies of PSyKAl (LFRic / GOcean) invoke schedules and of their sub-trees,
checked on the REAL objects only (the Lean model has no PSyKAl node attributes).

For a set of bundled algorithm files the PSy object is built (no distributed memory), a node of an
invoke schedule is copied and the clauses of the property are evaluated:
  equal       `c == node`;
  disjoint    no node object shared; no KernelArguments / argument object / option dict shared;
  internal    node-valued attributes of the copy (`Loop._kern`, `argument._call`) point into the copy;
  independent after edits of one side through the public API (opencl options, argument access,
              module-inline flag, renaming a symbol of the copy's table) the observable state of the
              other side (`view()`, opencl options, argument names and accesses of its kernels) is
              unchanged.
Failures are grouped into classes (one known finding per class)."""
import os

import common

FILES = [
    ("dynamo0.3", "dynamo0p3/1_single_invoke.f90"),
    ("dynamo0.3", "dynamo0p3/1.2_multi_invoke.f90"),
    ("dynamo0.3", "dynamo0p3/4_multikernel_invokes.f90"),
    ("dynamo0.3", "dynamo0p3/15.1.1_builtin_and_normal_kernel_invoke_2.f90"),
    ("dynamo0.3", "dynamo0p3/1.1.0_single_invoke_xyoz_qr.f90"),
    ("gocean1.0", "gocean1p0/single_invoke.f90"),
    ("gocean1.0", "gocean1p0/single_invoke_two_kernels.f90"),
    ("gocean1.0", "gocean1p0/single_invoke_three_kernels.f90"),
]

_cache = {}


def build(api, rel):
    """-> list of invoke schedules (fresh PSy object each call: copies must not accumulate state)"""
    from psyclone.configuration import Config
    from psyclone.parse.algorithm import parse
    from psyclone.psyGen import PSyFactory
    Config.get().api = api
    path = os.path.join(common.REPO, "src", "psyclone", "tests", "test_files", rel)
    if not os.path.exists(path):
        return None
    key = (api, rel)
    if key not in _cache:
        _cache[key] = parse(path, api=api)[1]
    psy = PSyFactory(api, distributed_memory=False).create(_cache[key])
    return [inv.schedule for inv in psy.invokes.invoke_list]


def observable(node):
    """what can be seen of a tree without identities"""
    from psyclone.psyGen import Kern
    out = [node.view(colour=False)]
    for k in node.walk(Kern):
        out.append(repr(sorted(getattr(k, "opencl_options", {}).items())))
        out.append(repr(getattr(k, "module_inline", None)))
        args = getattr(k, "arguments", None)
        if args is not None:
            out.append(repr([(a.name, str(a.access)) for a in args.args]))
    return "\n".join(out)


def clauses(node, c):
    """-> list of (class, description) of the clauses that fail right after the copy"""
    from psyclone.psyir.nodes import Node, Loop
    from psyclone.psyGen import Kern
    fails = []
    on, cn = node.walk(Node), c.walk(Node)
    orig_ids = {id(n) for n in on}
    if any(id(n) in orig_ids for n in cn):
        fails.append(("psykal-shared-node", "a node object is shared"))
    try:
        eq = (c == node)
    except Exception as e:   # pylint: disable=broad-except
        eq = f"raised {type(e).__name__}"
    if eq is not True:
        why = ""
        from psyclone.psyir.nodes import ScopingNode
        for a, b in zip(on, cn):
            if isinstance(a, ScopingNode) and isinstance(b, ScopingNode):
                ca = sorted(type(s).__name__ + ":" + s.name for s in a.symbol_table.symbols)
                cb = sorted(type(s).__name__ + ":" + s.name for s in b.symbol_table.symbols)
                diff = [x for x in ca if x not in cb]
                if diff:
                    why = f" (symbols whose class is lost by the copy: {diff[:4]})"
                    break
        fails.append(("psykal-not-equal", f"c == node is {eq}{why}"))
    copy_ids = {id(n) for n in cn}
    for a, b in zip(on, cn):
        if isinstance(b, Loop):
            k = getattr(b, "_kern", None)
            if isinstance(k, Node) and id(k) in orig_ids and id(k) not in copy_ids:
                fails.append(("psykal-loop-kern-pointer", f"{type(b).__name__}._kern of the copy is the ORIGINAL's kernel"))
        if isinstance(b, Kern) and hasattr(b, "arguments"):
            try:
                same = b.arguments is a.arguments
            except Exception:   # pylint: disable=broad-except
                continue
            if same:
                fails.append(("psykal-shared-arguments", f"{type(b).__name__}.arguments is the same object in both trees "
                              "(its arguments' _call is the original kernel)"))
            if getattr(b, "_opencl_options", 0) is getattr(a, "_opencl_options", 1):
                fails.append(("psykal-shared-opencl-options", f"{type(b).__name__}._opencl_options dict is shared"))
    seen, out = set(), []
    for f in fails:
        if f not in seen:
            seen.add(f)
            out.append(f)
    return out


def edit(tree, rng):
    """one public-API edit of `tree`; -> description or None"""
    from psyclone.psyGen import Kern, CodedKern
    from psyclone.core import AccessType
    from psyclone.psyir.nodes import ScopingNode
    kerns = tree.walk(Kern)
    coded = [k for k in kerns if isinstance(k, CodedKern)]
    choice = rng.choice(["opencl", "access", "inline", "rename"])
    try:
        if choice == "opencl" and coded:
            k = rng.choice(coded)
            k.set_opencl_options({"local_size": rng.choice([2, 4, 8, 16])})
            return f"set_opencl_options(local_size) on {k.name}"
        if choice == "access" and kerns:
            k = rng.choice(kerns)
            if k.arguments.args:
                a = rng.choice(k.arguments.args)
                new = rng.choice([x for x in (AccessType.READ, AccessType.WRITE, AccessType.READWRITE) if x != a.access])
                a.access = new
                return f"argument {a.name} of {k.name}: access = {new}"
        if choice == "inline" and coded:
            k = rng.choice(coded)
            k.module_inline = not k.module_inline
            return f"module_inline toggled on {k.name}"
        if choice == "rename":
            scopes = [n for n in tree.walk(ScopingNode) if n.symbol_table.symbols]
            if scopes:
                n = rng.choice(scopes)
                c = [s for s in n.symbol_table.symbols if not (s.is_import or s.is_argument or s.is_unresolved)
                     and type(s).__name__ not in ("ContainerSymbol",)]
                if c:
                    s = rng.choice(c)
                    n.symbol_table.rename_symbol(s, n.symbol_table.next_available_name(s.name + "_r"))
                    return f"renamed {s.name}"
    except Exception as e:   # pylint: disable=broad-except
        return f"refused {choice}: {type(e).__name__}"
    return None


def run_one(api, rel, inv, nodei, side, nedits, rng):
    """-> dict(fails=[(class, text)...], info)"""
    scheds = build(api, rel)
    if scheds is None:
        return None
    sched = scheds[inv % len(scheds)]
    from psyclone.psyir.nodes import Node
    nodes = sched.walk(Node)
    node = nodes[nodei % len(nodes)]
    try:
        c = node.copy()
    except Exception as e:   # pylint: disable=broad-except
        return {"fails": [("psykal-copy-raises", f"copy() of {type(node).__name__} raised {type(e).__name__}: {e}")],
                "node_class": type(node).__name__, "edits": []}
    fails = clauses(node, c)
    edited, other = (node, c) if side == "orig" else (c, node)
    before = observable(other)
    done = []
    for _ in range(nedits):
        d = edit(edited, rng)
        if d:
            done.append(d)
    after = observable(other)
    if before != after:
        la, lb = before.splitlines(), after.splitlines()
        diff = next((f"{x!r} -> {y!r}" for x, y in zip(la, lb) if x != y), "length differs")
        cls = "psykal-shared-opencl-options" if "local_size" in diff else \
            "psykal-shared-arguments" if "AccessType" in diff or "READ" in diff or "WRITE" in diff else "psykal-edit-other"
        fails.append((cls, f"after {done} on the {side} side the observable state of the other side changed: {diff[:200]}"))
    return {"fails": fails, "node_class": type(node).__name__, "edits": done}


def run_family(chk, n_cases, known_ids):
    """second family; -> stats.  A failure class that is not a listed known finding is a violation."""
    rng = chk.rng
    stats = {"cases": 0, "by_api": {}, "node_class": {}, "failure_classes": {}, "files_missing": 0}
    reported = set()
    for j in range(n_cases):
        api, rel = FILES[j % len(FILES)] if j < len(FILES) else rng.choice(FILES)
        inv, nodei = rng.randrange(8), (0 if j < len(FILES) or rng.random() < 0.4 else rng.randrange(400))
        side = "orig" if rng.random() < 0.5 else "copy"
        nedits = rng.randint(1, 6)
        res = run_one(api, rel, inv, nodei, side, nedits, rng)
        if res is None:
            stats["files_missing"] += 1
            continue
        stats["cases"] += 1
        stats["by_api"][api] = stats["by_api"].get(api, 0) + 1
        stats["node_class"][res["node_class"]] = stats["node_class"].get(res["node_class"], 0) + 1
        case = {"family": "psykal", "api": api, "file": rel, "invoke": inv, "node": nodei, "side": side,
                "edits": res["edits"]}
        chk.case(case, nontrivial=len(res["edits"]) >= 1, agreed=True)
        for cls, text in res["fails"]:
            stats["failure_classes"][cls] = stats["failure_classes"].get(cls, 0) + 1
            if cls not in known_ids and cls not in reported and len(reported) < 3:
                reported.add(cls)
                chk.violation({"kind": "failing-input", "family": "psykal", "api": api, "file": rel, "invoke": inv,
                               "node": nodei, "edited_side": side, "nedits": nedits, "class": cls,
                               "observed": text, "expected": "the clause of the property holds",
                               "rng_note": "replay re-evaluates the clauses right after the copy and a fixed edit script"})
    # restore the default API for the generic-PSyIR family
    from psyclone.configuration import Config
    Config.get().api = "dynamo0.3"
    return stats


def replay_psykal(payload):
    import random
    res = None
    for sd in range(1, 7):
        res = run_one(payload["api"], payload["file"], payload["invoke"], payload["node"], payload["edited_side"],
                      payload.get("nedits", 4), random.Random(sd))
        if res and any(f[0] == payload["class"] for f in res["fails"]):
            break
    # the fixed script: every kind of edit once more, deterministically
    print(f"{payload['api']} {payload['file']} invoke {payload['invoke']} node {payload['node']} "
          f"({res['node_class'] if res else '?'}), edits of the {payload['edited_side']} side: {res['edits'] if res else None}")
    hit = [f for f in (res["fails"] if res else []) if f[0] == payload["class"]]
    for cls, text in (res["fails"] if res else []):
        print(" ", cls, ":", text)
    if hit:
        print("observed:", hit[0][1])
        print("expected:", payload["expected"])
        return 1
    print("the clause holds on this input")
    return 0
