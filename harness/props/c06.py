"""C06 — array-syntax and intrinsic lowering preserve semantics.

For every generated statement: (1) the real transformation's accept/refuse decision and its output
(exported to MiniF) are compared with the Lean model (driver C06); (2) THE PROPERTY is evaluated on
the real code: original and transformed program are compiled with gfortran and their output compared.

Outside the property's value domain (signed zeros are excluded, the Lean value domain has one zero), kept here as
a remark and NOT as a finding: Abs2CodeTrans lowers ABS(X) to `if (tmp > 0.0) res = tmp else res = tmp * -1.0`, so
ABS(+0.0) becomes -0.0.  This is observable only through the sign of a zero, e.g. `r(2) = sign(5.0, abs(z))` with
z = 0.0 gives -5.0 instead of 5.0 (the form `IF X < 0.0` of the transformation's docstring would not); the tests
pin the generated text, so it is not patched.  c06_real.outside_domain() skips statements in which the lowered
intrinsic is the 2nd argument of an enclosing SIGN (and statements with a REAL variable in a section bound)."""
import json
import os

import common
import minif
from common import sx, parse_sx
from props import c06_real as R
from props import c06_sr as SR

FRESH = {"hole": "hole__"}


# ---------------------------------------------------------------------------
# generators (text)
class Gen:
    def __init__(self, rng, params):
        self.rng, self.p = rng, params
        self.n, self.k = params["n"], params["k"]

    def sym(self, val):
        """text of an integer expression with value `val`"""
        c = [str(val)] * 3
        for name, v in (("n", self.n), ("k", self.k)):
            if val == v:
                c.append(name)
            if val == v + 1:
                c.append(name + "+1")
            if val == v - 1:
                c.append(name + "-1")
        return self.rng.choice(c)

    def section(self, arr, cnt, st, start=None, allow_full=True):
        """text of a section of `arr` with `cnt` elements and stride `st` (None if impossible)"""
        r = self.rng
        dims = R.ARRAYS[arr]
        d = r.randrange(len(dims))
        lo, hi = dims[d]
        span = (max(cnt, 1) - 1) * st
        starts = [s for s in range(lo, hi + 1) if lo <= s + span <= hi]
        if not starts:
            return None
        s = start if (start is not None and start in starts) else r.choice(starts)
        e = s + (cnt - 1) * st if cnt > 0 else s - st
        if cnt == 0 and not lo <= e <= hi:
            e = s - (1 if st > 0 else -1)
        if allow_full and st == 1 and s == lo and e == hi and r.random() < 0.6:
            rng_txt = ":"
        else:
            rng_txt = f"{self.sym(s)}:{self.sym(e)}" + ("" if st == 1 and r.random() < 0.8 else f":{st}")
        if len(dims) == 1:
            return f"{arr}({rng_txt})"
        olo, ohi = dims[1 - d]
        other = self.sym(r.randint(olo, ohi))
        return f"{arr}({rng_txt},{other})" if d == 0 else f"{arr}({other},{rng_txt})"

    def element(self, arr=None):
        r = self.rng
        arr = arr or r.choice(R.GEN_ARRAYS)
        return f"{arr}(" + ",".join(self.sym(r.randint(lo, hi)) for lo, hi in R.ARRAYS[arr]) + ")"

    def scalar_leaf(self, elements=True):
        r = self.rng
        x = r.random()
        if x < 0.45:
            return r.choice(R.SCALARS)
        if x < 0.7 or not elements:
            v = r.randint(-3, 5)
            return f"({v}.0)" if v < 0 else f"{v}.0"
        return self.element()

    def scalar_expr(self, depth=0, intr=None, elements=True):
        r = self.rng
        if depth >= 2 or (depth > 0 and r.random() < 0.35):
            return self.scalar_leaf(elements)
        kind = r.choice(["+", "-", "*", "abs", "sign", "min", "max", intr or "+"])
        a, b = self.scalar_expr(depth + 1, None, elements), self.scalar_expr(depth + 1, None, elements)
        if kind == "abs":
            return f"abs({a})"
        if kind == "sign":
            # the 2nd argument never contains an intrinsic call or a product: no zero whose sign matters
            return f"sign({a}, {self.plain_expr()})"
        if kind in ("min", "max"):
            extra = [self.scalar_expr(depth + 1, None, elements) for _ in range(r.choice([0, 0, 1, 2]))]
            return f"{kind}(" + ", ".join([a, b] + extra) + ")"
        return f"({a} {kind} {b})"

    def plain_expr(self, depth=0):
        r = self.rng
        if depth >= 1 or r.random() < 0.5:
            return self.scalar_leaf()
        return f"({self.plain_expr(depth + 1)} {r.choice('+-')} {self.plain_expr(depth + 1)})"

    def array_expr(self, cnt, st, lhs=None, depth=0, first=True, flavour="safe"):
        """elementwise expression whose sections have `cnt` elements; the left-most leaf is a section.
        lhs = (array, section text, start): flavours decide how the lhs array is re-used."""
        r = self.rng
        if depth >= 2 or (depth > 0 and r.random() < 0.4):
            x = r.random()
            if not first and x < 0.3:
                return self.scalar_leaf(elements=(flavour != "safe" or lhs is None))
            for _ in range(20):
                arr = r.choice(R.GEN_ARRAYS)
                s_st = st
                if flavour == "stride" and r.random() < 0.5:
                    s_st = r.choice([s for s in (1, 2, -1) if s != st])
                if lhs is not None and arr == lhs[0]:
                    if flavour == "safe" or r.random() < 0.3:
                        return lhs[1]
                    if flavour == "overlap":
                        dims = R.ARRAYS[arr]
                        if len(dims) == 1:
                            txt = self.section(arr, cnt, st, start=lhs[2] + r.choice([-1, 1, 2]), allow_full=False)
                            if txt and txt != lhs[1]:
                                return txt
                        return self.element(arr) if not first else lhs[1]
                    continue
                txt = self.section(arr, cnt, s_st)
                if txt:
                    return txt
            return lhs[1] if lhs else "a(1:%d)" % cnt
        kind = r.choice(["+", "-", "*", "+", "*", "abs", "max", "min", "sign"])
        a = self.array_expr(cnt, st, lhs, depth + 1, first, flavour)
        b = self.array_expr(cnt, st, lhs, depth + 1, False, flavour)
        if kind == "abs":
            return f"abs({a})"
        if kind in ("max", "min", "sign"):
            return f"{kind}({a}, {b})"
        return f"({a} {kind} {b})"

    def lhs_section(self):
        r = self.rng
        for _ in range(50):
            arr = r.choice(R.GEN_ARRAYS)
            cnt = r.choice([0, 1, 2, 3, 3, 4, 4, 5])
            st = r.choice([1, 1, 1, 1, 2, -1])
            dims = R.ARRAYS[arr]
            span = (max(cnt, 1) - 1) * st
            d_lo, d_hi = min(dims, key=lambda d: d[1] - d[0])
            starts = [s for s in range(d_lo, d_hi + 1) if d_lo <= s + span <= d_hi]
            if not starts:
                continue
            start = r.choice(starts)
            txt = self.section(arr, cnt, st, start=start)
            if txt:
                # recover the actual start (section() may have chosen another dimension/start)
                return arr, txt, cnt, st
        return "a", "a(1:3)", 3, 1


def case_aa(g):
    r = g.rng
    flavour = r.choice(["safe", "safe", "safe", "overlap", "overlap", "stride", "badcall", "rank2"])
    if flavour == "rank2":
        a1, a2 = r.sample(["m", "q", "p2"], 2)
        stmt = r.choice([f"{a1}(:,:) = {a2}(:,:) + {a1}(:,:) * 2.0", f"{a1}(1:3,2:4) = {a2}(0:2,2:4) - x" if a2 == "q"
                         else f"{a1} = {a2} * {a2} + y", f"{a1}(:,:) = abs({a2}) + 1.0"])
        if a1 == "q":
            stmt = f"q(:,:) = {a2}(:,:) * 2.0 + q"
        return {"kind": "aa", "flavour": flavour, "stmts": [stmt], "trans": "ArrayAssignment2LoopsTrans", "target": ["assign"]}
    arr, txt, cnt, st = g.lhs_section()
    # start value of the lhs section (needed to build shifted sections): re-derive from the text
    start = None
    if len(R.ARRAYS[arr]) == 1 and ":" in txt and txt != f"{arr}(:)":
        first = txt[len(arr) + 1:].split(":")[0]
        try:
            start = eval(first, {"n": g.n, "k": g.k}) if first else R.ARRAYS[arr][0][0]
        except Exception:
            start = None
    if start is None:
        start = R.ARRAYS[arr][0][0]
    rhs = g.array_expr(cnt, st, (arr, txt, start), flavour=flavour if flavour != "badcall" else "safe")
    if flavour == "badcall":
        rhs = f"{rhs} + sum(b(1:3))"
    if r.random() < 0.1:
        rhs = r.choice(["0.0", "x", "y * 2.0"])
    return {"kind": "aa", "flavour": flavour, "stmts": [f"{txt} = {rhs}"], "trans": "ArrayAssignment2LoopsTrans",
            "target": ["assign"]}


def case_aa_elem(g):
    """array assignment whose rhs (or lhs index expression) reads single ELEMENTS of the lhs array:
    inside the written section (first / middle / last position) or outside it; full-range lhs
    (`a(:)`, `m(:,j)`, explicit declared bounds) and partial ranges; rank 1 and rank 2."""
    r = g.rng
    arr = r.choice(["a", "b", "c", "d", "v", "w", "u", "m", "q", "p2"])
    dims = R.ARRAYS[arr]
    d = r.randrange(len(dims))
    lo, hi = dims[d]
    form = r.choice(["colon", "colon", "declared", "partial", "partial"])
    if form == "partial":
        cnt = r.choice([2, 3, 4])
        s = r.randint(lo, hi - cnt + 1)
        e = s + cnt - 1
        rtxt = f"{g.sym(s)}:{g.sym(e)}"
    else:
        s, e = lo, hi
        rtxt = ":" if form == "colon" else f"{lo}:{hi}"
    cnt = e - s + 1
    where = r.choice(["first", "middle", "last", "outside", "middle"])
    pos = {"first": s, "middle": (s + e) // 2, "last": e}.get(where)
    if pos is None:
        outside = [i for i in range(lo, hi + 1) if not s <= i <= e]
        pos = r.choice(outside) if outside else e
    if len(dims) == 1:
        lhs, elem = f"{arr}({rtxt})", f"{arr}({g.sym(pos)})"
        same = lhs
    else:
        olo, ohi = dims[1 - d]
        fixed = r.randint(olo, ohi)
        ftxt = g.sym(fixed)
        other = fixed if r.random() < 0.7 else r.randint(olo, ohi)     # element in the same or another row/column
        lhs = f"{arr}({rtxt},{ftxt})" if d == 0 else f"{arr}({ftxt},{rtxt})"
        elem = f"{arr}({g.sym(pos)},{g.sym(other)})" if d == 0 else f"{arr}({g.sym(other)},{g.sym(pos)})"
        same = lhs
    shape = r.choice(["sub", "mul", "minmax", "other", "lhsindex"])
    pre = []
    if shape == "sub":
        rhs = f"{same} - {elem}"
    elif shape == "mul":
        rhs = f"{same} * {elem} + {r.choice(R.SCALARS)}"
    elif shape == "minmax":
        rhs = f"max({same}, {elem}) + min({elem}, 2.0)"
    elif shape == "other":
        o = g.section(r.choice([x for x in ["a", "b", "c", "d"] if x != arr]), cnt, 1)
        rhs = f"{o} + {elem} * 2.0" if o else f"{same} + {elem}"
    else:
        # the lhs index expression itself reads an element of the lhs array
        if len(dims) == 2:
            olo, ohi = dims[1 - d]
            val = r.randint(olo, ohi)
            cell = f"{arr}({dims[0][0] + 1},{dims[1][0] + 1})"
            pre = [f"{cell} = {val}.0"]
            lhs = f"{arr}({rtxt},int({cell}))" if d == 0 else f"{arr}(int({cell}),{rtxt})"
            rhs = r.choice([f"{r.choice(R.SCALARS)} + 1.0", "3.0"])
        else:
            cell = f"{arr}({lo + 1})"
            pre = [f"{cell} = {s}.0"]
            lhs = f"{arr}(int({cell}):{e})"
            rhs = r.choice([f"{r.choice(R.SCALARS)} + 1.0", "3.0"])
    return {"kind": "aa", "flavour": "elem-" + form + "-" + (where if shape != "lhsindex" else "lhsindex"),
            "stmts": pre + [f"{lhs} = {rhs}"], "trans": "ArrayAssignment2LoopsTrans", "target": ["assign"]}


def case_aa2(g):
    """rank-2 section assignment (two ranges -> loop nest): safe / overlapping / differently strided / element reads"""
    r = g.rng
    mats = ["m", "q", "p2", "e2"]
    arr = r.choice(mats)
    flavour = r.choice(["safe", "safe", "safe", "overlap", "stride", "elem", "whole"])

    def rng_txt(lo, hi, cnt, st, start=None, full_ok=True):
        span = (cnt - 1) * st
        starts = [s0 for s0 in range(lo, hi + 1) if lo <= s0 + span <= hi]
        s0 = start if start in starts else r.choice(starts)
        e0 = s0 + span
        if full_ok and st == 1 and s0 == lo and e0 == hi and r.random() < 0.5:
            return ":", s0
        return f"{g.sym(s0)}:{g.sym(e0)}" + ("" if st == 1 else f":{st}"), s0

    def sec(a, c1, c2, s1, s2, st1=None, st2=None, full_ok=True):
        (l1, h1), (l2, h2) = R.ARRAYS[a]
        t1, b1 = rng_txt(l1, h1, c1, s1, st1, full_ok)
        t2, b2 = rng_txt(l2, h2, c2, s2, st2, full_ok)
        return f"{a}({t1},{t2})", b1, b2

    if flavour == "whole":
        a2 = r.choice([x for x in mats if x != arr])
        stmt = r.choice([f"{arr} = {a2} * 2.0 + {arr}", f"{arr}(:,:) = abs({a2}) + {arr}(:,:) * x", f"{arr} = max({a2}, {arr}) - y"])
        return {"kind": "aa", "flavour": "rank2-whole", "stmts": [stmt], "trans": "ArrayAssignment2LoopsTrans", "target": ["assign"]}
    c1, c2 = r.choice([1, 2, 3, 4]), r.choice([1, 2, 3, 4])
    s1 = r.choice([1, 1, 1, -1]) if c1 > 2 else r.choice([1, 1, 2, -1])
    s2 = r.choice([1, 1, 1, -1]) if c2 > 2 else r.choice([1, 1, 2, -1])
    lhs, b1, b2 = sec(arr, c1, c2, s1, s2)

    def leaf(first=False):
        x = r.random()
        if not first and x < 0.25:
            return g.scalar_leaf(elements=(flavour != "safe"))
        a = r.choice(mats)
        if a == arr:
            if flavour == "overlap" and r.random() < 0.7:
                t, _, _ = sec(arr, c1, c2, s1, s2, b1 + r.choice([-1, 0, 1]), b2 + r.choice([-1, 1]), full_ok=False)
                return t
            if flavour == "elem" and r.random() < 0.7:
                return g.element(arr)
            return lhs
        if flavour == "stride" and r.random() < 0.5:
            ns1 = r.choice([x for x in (1, 2, -1) if x != s1 and (c1 - 1) * abs(x) <= 3])
            return sec(a, c1, c2, ns1, s2)[0]
        return sec(a, c1, c2, s1, s2)[0]

    a, b = leaf(True), leaf()
    rhs = r.choice([f"{a} + {b}", f"{a} * {b} - x", f"max({a}, {b})", f"abs({a}) + {b} * 2.0", a])
    return {"kind": "aa", "flavour": "rank2-" + flavour, "stmts": [f"{lhs} = {rhs}"], "trans": "ArrayAssignment2LoopsTrans",
            "target": ["assign"]}


def case_aa_cross(g):
    """sections of higher-rank arrays on the rhs whose range sits in a DIFFERENT dimension position than the
    lhs range, the other dimensions being fixed by scalar subscripts (`v(:) = e2(k,:)`, `r(:) = t3(1,3,:)`,
    `m(:,:) = t3(2,:,:)`): the index offset has to come from the declared lower bound of the right dimension.
    Full ranges (`:` / explicit declared bounds) and partial ranges; the rank-3 terms are gfortran-only."""
    r = g.rng
    full = lambda a, d: r.choice([":", ":", f"{R.ARRAYS[a][d][0]}:{R.ARRAYS[a][d][1]}"])
    fixed = lambda a, d: g.sym(r.randint(*R.ARRAYS[a][d]))
    if r.random() < 0.25:
        # rank-2 lhs, rank-3 rhs
        lhs = r.choice(["m(:,:)", "p2(:,:)", "q(:,:)", "e2(:,:)", "m", "e2"])
        lname = lhs.split("(")[0]
        t = f"t3({fixed('t3', 0)},{full('t3', 1)},{full('t3', 2)})"
        o = r.choice([x for x in ["m", "q", "p2", "e2"] if x != lname])
        rhs = r.choice([t, f"{t} * 2.0 + {lhs}", f"{t} + {o}", f"max({t}, {o}(:,:))"])
        return {"kind": "aa", "flavour": "cross-rank3", "stmts": [f"{lhs} = {rhs}"], "trans": "ArrayAssignment2LoopsTrans",
                "target": ["assign"]}
    larr = r.choice(["v", "r", "w", "u"])
    partial = r.random() < 0.3
    if partial:
        lo, hi = R.ARRAYS[larr][0]
        cnt = r.choice([2, 3])
        s0 = r.randint(lo, hi - cnt + 1)
        lhs = f"{larr}({g.sym(s0)}:{g.sym(s0 + cnt - 1)})"
    else:
        cnt = 4
        lhs = f"{larr}({full(larr, 0)})" if r.random() < 0.8 else larr

    def term():
        a = r.choice(["m", "q", "p2", "e2", "e2", "q", "t3"])
        dims = R.ARRAYS[a]
        if a == "t3":
            d = r.choice([1, 2])            # dimensions with 4 elements
        else:
            d = r.randrange(2)
        idx = []
        for p in range(len(dims)):
            if p != d:
                idx.append(fixed(a, p))
            elif partial:
                lo, hi = dims[p]
                s1 = r.randint(lo, hi - cnt + 1)
                idx.append(f"{g.sym(s1)}:{g.sym(s1 + cnt - 1)}")
            else:
                idx.append(full(a, p))
        return f"{a}(" + ",".join(idx) + ")"

    t1, t2 = term(), term()
    rhs = r.choice([t1, f"2.0 * {t1} + {lhs}", f"{t1} + {t2}", f"max({t1}, {t2}) - {r.choice(R.SCALARS)}", f"abs({t1}) * {t2}"])
    return {"kind": "aa", "flavour": "cross-partial" if partial else "cross-full", "stmts": [f"{lhs} = {rhs}"],
            "trans": "ArrayAssignment2LoopsTrans", "target": ["assign"]}


def case_red_cross(g):
    """reductions over cross-dimension sections: `x = sum(v(:) * e2(k,:))`, `x = maxval(t3(1,3,:) + r)`"""
    r = g.rng
    c = case_aa_cross(g)
    while c["flavour"] == "cross-rank3":
        c = case_aa_cross(g)
    lhs, rhs = c["stmts"][0].split(" = ", 1)
    kind = r.choice(["sum", "maxval", "minval"])
    expr = r.choice([f"{lhs} * ({rhs})", f"{lhs} + ({rhs})"]) if "(" in lhs else rhs
    return {"kind": "red", "flavour": "cross", "stmts": [f"{r.choice(R.SCALARS)} = {kind}({expr})"],
            "trans": kind.capitalize() + "2LoopTrans", "target": ["intrinsic", kind.upper(), 0]}


def scalar_target(g):
    r = g.rng
    return r.choice(["x", "y", "z", "r(2)", r.choice(["r(k)", "r(n-1)", "r(3)"]), "m(2,3)", r.choice(["q(1,3)", "q(k,n)"])])


def safe_expr(g, depth=0):
    """scalar expression that cannot evaluate to a negative zero (no `*`, no SIGN, no unary minus)"""
    r = g.rng
    if depth >= 2 or r.random() < 0.4:
        return g.scalar_leaf()
    a, b = safe_expr(g, depth + 1), safe_expr(g, depth + 1)
    kind = r.choice(["+", "-", "min", "max", "abs"])
    if kind == "abs":
        return f"abs({a})"
    return f"{kind}({a}, {b})" if kind in ("min", "max") else f"({a} {kind} {b})"


def case_intr(g):
    r = g.rng
    name = r.choice(["ABS", "SIGN", "MIN", "MAX"])
    trans = {"ABS": "Abs2CodeTrans", "SIGN": "Sign2CodeTrans", "MIN": "Min2CodeTrans", "MAX": "Max2CodeTrans"}[name]
    if name == "SIGN":
        # the second argument must not be a negative zero (outside the documented domain)
        call = f"sign({g.scalar_expr(1)}, {safe_expr(g)})"
        e = r.choice([call, f"({call} + {g.scalar_expr(1)})", f"max({call}, {g.scalar_expr(1)})", f"({call} * 2.0)"])
        return {"kind": "intr", "flavour": name, "stmts": [f"{scalar_target(g)} = {e}"], "trans": trans,
                "target": ["intrinsic", name, 0]}
    for _ in range(30):
        e = g.scalar_expr(intr=name.lower())
        cnt = e.count(name.lower() + "(")
        if cnt:
            break
    else:
        e, cnt = f"{name.lower()}(x, y)" if name != "ABS" else "abs(x)", 1
    return {"kind": "intr", "flavour": name, "stmts": [f"{scalar_target(g)} = {e}"], "trans": trans,
            "target": ["intrinsic", name, r.randrange(cnt)]}


def case_red(g):
    r = g.rng
    kind = r.choice(["sum", "sum", "product", "minval", "maxval"])
    flavour = r.choice(["plain", "plain", "mask", "mask", "ctx", "increment", "two", "stride", "dim", "rank2", "empty", "lhsidx"])
    cnt = r.choice([1, 2, 3, 4, 5]) if kind != "product" else r.choice([1, 2, 3])
    if flavour == "empty":
        cnt = 0
    st = r.choice([1, 1, 1, 2, -1])
    tgt = scalar_target(g)
    if flavour == "lhsidx":
        tgt = "r(int(r(1)))"
        pre = [f"r(1) = {r.choice([1, 2])}.0"]
    else:
        pre = []
    tsym = tgt.split("(")[0]
    for _ in range(20):
        expr = g.array_expr(cnt, st, None, depth=r.choice([0, 1, 2]), flavour="stride" if flavour == "stride" else "free")
        if flavour in ("increment", "lhsidx") or (tsym + "(") not in expr and tsym not in expr.replace("max", "").replace("sign", ""):
            break
    if kind == "product":
        expr = g.section(r.choice(["a", "b", "c", "d"]), cnt, st) or "a(1:2)"
    if flavour == "rank2":
        expr = r.choice(["m", "q(:,:)", "m(:,:) * p2(:,:)", "abs(q)"])
    args = [expr]
    if flavour == "mask" or (flavour in ("stride", "empty") and r.random() < 0.4):
        marr = g.section(r.choice(["a", "b", "c", "d"]), cnt, st)
        if marr:
            args.append("mask=" + r.choice([f"{marr} > 0.0", f"{marr} /= {r.choice(R.SCALARS)}", f"{g.element('b')} > {marr}",
                                            f"abs({marr}) < 2.0"]))
    if flavour == "dim":
        args.insert(1, "dim=1")
    call = f"{kind}(" + ", ".join(args) + ")"
    which = 0
    if flavour == "ctx":
        rhs = r.choice([f"1.0 + {call} * 2.0", f"abs({call}) - y", f"max({call}, 3.0)"])
    elif flavour == "increment":
        inner = f"{kind}(" + ", ".join([f"({expr}) * {tgt}"] + args[1:]) + ")"       # the target inside the reduced expression
        rhs = r.choice([f"{tgt} + {call}", f"{call} * {tgt}", inner if tsym in R.SCALARS else f"{tgt} - {call}"])
    elif flavour == "two":
        other = f"{kind}({g.section(r.choice(['a', 'b', 'c']), 3, 1)})"
        if r.random() < 0.5:
            rhs, which = f"{other} + {call}", 1
        else:
            rhs = f"{call} - {other}"
    else:
        rhs = call
    return {"kind": "red", "flavour": flavour, "stmts": pre + [f"{tgt} = {rhs}"],
            "trans": kind.capitalize() + "2LoopTrans", "target": ["intrinsic", kind.upper(), which]}


def case_red_self(g):
    """reduction whose TARGET is an element of an array that the reduced expression / mask / rest of the
    rhs also reads in a different form (`a(1) = maxval(a)`, `a(1) = a(2) + sum(a)`, target array only in
    the mask ...): the real rule "lhs SYMBOL occurs on the rhs => accumulate in a temporary" is exercised
    with targets inside (first / middle / last) and outside the reduced section, rank 1 and rank 2."""
    r = g.rng
    kind = r.choice(["sum", "sum", "product", "minval", "maxval", "maxval"])
    arr = r.choice(["a", "b", "c", "d", "v", "w", "u", "m", "q", "p2"])
    dims = R.ARRAYS[arr]
    d = r.randrange(len(dims))
    lo, hi = dims[d]
    form = r.choice(["whole", "colon", "partial", "partial"]) if len(dims) == 1 else r.choice(["colon", "partial"])
    if form == "partial" or kind == "product":
        cnt = r.choice([2, 3]) if kind == "product" else r.choice([2, 3, 4])
        s = r.randint(lo, hi - cnt + 1)
        e = s + cnt - 1
        rtxt = f"{g.sym(s)}:{g.sym(e)}"
        form = "partial"
    else:
        s, e, rtxt = lo, hi, ":"
    where = r.choice(["first", "middle", "last", "outside", "middle"])
    pos = {"first": s, "middle": (s + e) // 2, "last": e}.get(where)
    if pos is None:
        outside = [i for i in range(lo, hi + 1) if not s <= i <= e]
        pos = r.choice(outside) if outside else s
    if len(dims) == 1:
        sec = arr if form == "whole" else f"{arr}({rtxt})"
        tgt = f"{arr}({g.sym(pos)})"
        other_elem = f"{arr}({g.sym(r.randint(lo, hi))})"
    else:
        olo, ohi = dims[1 - d]
        fixed = r.randint(olo, ohi)
        sec = f"{arr}({rtxt},{g.sym(fixed)})" if d == 0 else f"{arr}({g.sym(fixed)},{rtxt})"
        trow = fixed if r.random() < 0.7 else r.randint(olo, ohi)
        tgt = f"{arr}({g.sym(pos)},{g.sym(trow)})" if d == 0 else f"{arr}({g.sym(trow)},{g.sym(pos)})"
        other_elem = f"{arr}({g.sym(r.randint(dims[0][0], dims[0][1]))},{g.sym(r.randint(dims[1][0], dims[1][1]))})"
    cnt = e - s + 1
    others = [x for x in ["a", "b", "c", "d"] if x != arr]
    osec = g.section(r.choice(others), cnt, 1) or sec
    shape = r.choice(["plain", "plain", "expr", "mask-self", "mask-only", "ctx-elem", "ctx"])
    args = [sec]
    rhs = None
    if shape == "expr":
        args = [r.choice([f"{sec} + {osec}", f"abs({sec}) * 2.0", f"max({osec}, {sec})"])]
    elif shape == "mask-self":
        args = [sec, f"mask={sec} {r.choice(['>', '/=', '<'])} {r.choice(['0.0', '1.0', other_elem])}"]
    elif shape == "mask-only":
        args = [osec, f"mask={sec} {r.choice(['>', '/='])} {r.choice(['0.0', tgt])}"]
    call = f"{kind}(" + ", ".join(args) + ")"
    if shape == "ctx-elem":
        rhs = r.choice([f"{other_elem} + {call}", f"{call} - {other_elem} * 2.0"])
    elif shape == "ctx":
        rhs = r.choice([f"1.0 + {call} * 2.0", f"max({call}, {r.choice(R.SCALARS)})"])
    return {"kind": "red", "flavour": f"self-{shape}-{where}", "stmts": [f"{tgt} = {rhs or call}"],
            "trans": kind.capitalize() + "2LoopTrans", "target": ["intrinsic", kind.upper(), 0]}


V10, V4 = ["a", "b", "c", "d"], ["v", "r", "w", "u"]


def case_dot(g):
    r = g.rng
    pool = r.choice([V10, V4])
    v1, v2 = r.choice(pool), r.choice(pool)
    if r.random() < 0.6:        # mostly aligned lower bounds
        v2 = r.choice([x for x in pool if R.ARRAYS[x][0][0] == R.ARRAYS[v1][0][0]])
    form = lambda v: r.choice([v, v, f"{v}(:)"])
    a1, a2 = form(v1), form(v2)
    flavour = "vec"
    lbs = [R.ARRAYS[v1][0][0], R.ARRAYS[v2][0][0]]
    if r.random() < 0.3:
        sl = {"m(:,2)": 1, "p2(:,k)": 1, "v": 1, "m(:,3)": 1, "q(:,3)": 0, "w": 0, "q(:,n)": 0, "u": 2, "r(:)": 1}
        a1, a2 = r.choice(list(sl)), r.choice(list(sl))
        lbs, flavour = [sl[a1], sl[a2]], "slice"
    call = f"dot_product({a1}, {a2})"
    tgt = r.choice(["x", "y", "r(2)"]) if pool is V10 else r.choice(["x", "y", "z"])
    rhs = r.choice([call, call, f"1.0 + {call} * 2.0", f"{tgt} + {call}"])
    return {"kind": "dot", "flavour": flavour, "stmts": [f"{tgt} = {rhs}"], "trans": "DotProduct2CodeTrans",
            "target": ["intrinsic", "DOT_PRODUCT", 0], "lbs": lbs}


def case_matmul(g):
    r = g.rng
    if r.random() < 0.3:
        a1, a2, res = r.choice([("m", "p2", "q"), ("m", "q", "p2"), ("q", "m", "p2"), ("p2", "m", "q"), ("m", "m", "p2")])
        lbs = [R.ARRAYS[res][0][0], R.ARRAYS[a1][0][0], R.ARRAYS[a2][0][0], R.ARRAYS[a1][1][0], R.ARRAYS[res][1][0], R.ARRAYS[a2][1][0]]
        aligned = lbs[0] == lbs[1] and lbs[2] == lbs[3] and lbs[4] == lbs[5]
        return {"kind": "matmul", "flavour": "matmat", "stmts": [f"{res} = matmul({a1}, {a2})"], "trans": "Matmul2CodeTrans",
                "target": ["intrinsic", "MATMUL", 0], "aligned": aligned, "names": [res, a1, a2]}
    mat = r.choice(["m", "m", "p2", "q"])
    res, vec = r.sample(V4, 2)
    if r.random() < 0.6:
        cands = [(a, b) for a in V4 for b in V4 if a != b and R.ARRAYS[a][0][0] == R.ARRAYS[mat][0][0]
                 and R.ARRAYS[b][0][0] == R.ARRAYS[mat][1][0]]
        if cands:
            res, vec = r.choice(cands)
    aligned = R.ARRAYS[res][0][0] == R.ARRAYS[mat][0][0] and R.ARRAYS[vec][0][0] == R.ARRAYS[mat][1][0]
    form = lambda v, n: r.choice([v, v, v + "(" + ",".join([":"] * n) + ")"])
    return {"kind": "matmul", "flavour": "matvec", "stmts": [f"{form(res, 1)} = matmul({form(mat, 2)}, {form(vec, 1)})"],
            "trans": "Matmul2CodeTrans", "target": ["intrinsic", "MATMUL", 0], "aligned": aligned,
            "names": [res, mat, vec]}


def case_misc(g):
    r = g.rng
    if r.random() < 0.5:
        arr = r.choice(V10)
        i = g.sym(r.randint(3, 6))
        other = r.choice(V10)
        return {"kind": "misc", "flavour": "access2loop", "stmts": [f"{arr}({i}) = {other}({i}) * 2.0 + {r.choice(R.SCALARS)}"],
                "trans": "ArrayAccess2LoopTrans", "target": ["index", 0]}
    a1, a2 = r.sample(V10, 2)
    return {"kind": "misc", "flavour": "ref2range", "stmts": [f"{a1} = {a2} * 2.0 + {r.choice(R.SCALARS)}",
                                                              f"x = sum({a1}) + maxval({a2})"][:r.choice([1, 2])],
            "trans": "Reference2ArrayRangeTrans", "target": ["refs"]}


CORPUS = [
    {"kind": "aa", "flavour": "overlap", "stmts": ["a(2:10) = a(1:9)"], "trans": "ArrayAssignment2LoopsTrans", "target": ["assign"]},
    {"kind": "aa", "flavour": "stride", "stmts": ["a(1:9:2) = b(1:5)"], "trans": "ArrayAssignment2LoopsTrans", "target": ["assign"]},
    {"kind": "aa", "flavour": "overlap", "stmts": ["a(1:5) = a(1) + b(1:5)"], "trans": "ArrayAssignment2LoopsTrans", "target": ["assign"]},
    {"kind": "aa", "flavour": "safe", "stmts": ["m(2,1:3) = m(3,1:3) + c(0:2) * x"], "trans": "ArrayAssignment2LoopsTrans", "target": ["assign"]},
    {"kind": "aa", "flavour": "overlap", "stmts": ["m(1:3,2) = m(1,1:3)"], "trans": "ArrayAssignment2LoopsTrans", "target": ["assign"]},
    {"kind": "red", "flavour": "two", "stmts": ["x = sum(a) + sum(b)"], "trans": "Sum2LoopTrans", "target": ["intrinsic", "SUM", 1]},
    {"kind": "red", "flavour": "increment", "stmts": ["x = sum(a * x)"], "trans": "Sum2LoopTrans", "target": ["intrinsic", "SUM", 0]},
    {"kind": "red", "flavour": "stride", "stmts": ["x = sum(a(1:9:2) * b(1:5))"], "trans": "Sum2LoopTrans", "target": ["intrinsic", "SUM", 0]},
    {"kind": "red", "flavour": "mask", "stmts": ["x = 1.0 + maxval(a(2:6) + c(1:5), mask=b(3:7) > 0.0) * 2.0"], "trans": "Maxval2LoopTrans",
     "target": ["intrinsic", "MAXVAL", 0]},
    {"kind": "red", "flavour": "empty", "stmts": ["y = minval(a(5:n-1))"], "trans": "Minval2LoopTrans", "target": ["intrinsic", "MINVAL", 0],
     "params_n": 4},
    {"kind": "red", "flavour": "lhsidx", "stmts": ["r(1) = 1.0", "r(int(r(1))) = sum(a(1:3))"], "trans": "Sum2LoopTrans",
     "target": ["intrinsic", "SUM", 0]},
    {"kind": "dot", "flavour": "vec", "stmts": ["x = dot_product(a, c)"], "trans": "DotProduct2CodeTrans",
     "target": ["intrinsic", "DOT_PRODUCT", 0], "lbs": [1, 0]},
    {"kind": "matmul", "flavour": "matvec", "stmts": ["r = matmul(q, v)"], "trans": "Matmul2CodeTrans",
     "target": ["intrinsic", "MATMUL", 0], "aligned": False, "names": ["r", "q", "v"]},
    {"kind": "intr", "flavour": "SIGN", "stmts": ["x = sign(x, y) + sign(y, 0.0)"], "trans": "Sign2CodeTrans", "target": ["intrinsic", "SIGN", 1]},
]


# ---------------------------------------------------------------------------
def model_line(case, ap, names):
    """protocol line for the Lean model + the function that compares its answer with the real output.
    Returns (line, compare) or raises OutOfDomain."""
    from psyclone.psyir import nodes as N
    stmt = ap.orig_stmt
    kind = case["kind"]
    real = None
    if not ap.refused:
        try:
            real = R.ex_stmts(ap.new_stmts, names)
        except (R.OutOfDomain, minif.Unsupported):
            if not (kind == "misc" and case["flavour"] == "ref2range"):
                raise

    def fresh(prefix):
        c = [n for n in ap.new_names if n.startswith(prefix)]
        return names.id(c[0]) if c else names.id(prefix + "__unused")

    if kind == "aa" and isinstance(stmt.lhs, N.ArrayReference) and len(stmt.lhs.indices) == 2 and \
            all(isinstance(x, N.Range) for x in stmt.lhs.indices):
        # two ranges -> loop nest (model transAA2)
        if R.has_bad_call(stmt.rhs):
            raise R.OutOfDomain("non-elemental call in a rank-2 assignment")
        if ap.refused and R.refusal_class(ap.refused).startswith("other:"):
            raise R.OutOfDomain("refusal reason outside the model")
        idxs = sorted((n for n in ap.new_names if n.startswith("idx")),
                      key=lambda n: int(n.split("_")[1]) if "_" in n else -1)      # creation order: outer loop first
        i2 = names.id(idxs[0]) if idxs else names.id("idx__a")
        i1 = names.id(idxs[1]) if len(idxs) > 1 else names.id("idx__b")
        line = ["aa2", i2, i1, R.sec2_of(stmt.lhs, names), R.aexpr2_of(stmt.rhs, names)]

        def cmp2(ans):
            if ans[0] == "refuse":
                return ap.refused is not None and R.refusal_class(ap.refused) == ans[1], ans
            return ap.refused is None and R.block(ans[1]) == real, ans
        return line, cmp2
    if kind == "aa":
        if len(stmt.lhs.walk(N.Range)) != 1 or not isinstance(stmt.lhs, N.ArrayReference):
            raise R.OutOfDomain("lhs")
        lhs = R.sec_of(stmt.lhs, names)
        bad = R.has_bad_call(stmt.rhs)
        rhs = ["sc", ["lit", 0]] if bad else R.aexpr_of(stmt.rhs, names)
        if bad:       # keep the sections of the rest of the expression irrelevant: refusal comes first
            pass
        line = ["aa", fresh("idx"), lhs, rhs, 1 if bad else 0]

        if ap.refused and R.refusal_class(ap.refused).startswith("other:"):
            raise R.OutOfDomain("refusal reason outside the model")

        def cmp(ans):
            if ans[0] == "refuse":
                return ap.refused is not None and R.refusal_class(ap.refused) == ans[1], ans
            return ap.refused is None and R.block(ans[1]) == real, ans
        return line, cmp
    if kind == "intr":
        if ap.refused:
            raise R.OutOfDomain("refused intrinsic")
        call = R.pick(stmt, case["target"])
        args = [R.ex(a, names) for a in call.arguments]
        asg = R.asg_of_sexp(real[-1])
        orig = R.block(minif.export_stmt(R.prep(stmt), names))
        nm = case["flavour"]
        if nm == "ABS":
            line = ["abs", fresh("res_abs"), fresh("tmp_abs"), args[0], asg]
        elif nm == "SIGN":
            line = ["sign", fresh("res_sign"), fresh("tmp_sign"), fresh("res_abs"), fresh("tmp_abs"), args[0], args[1], asg]
        else:
            line = ["minmax", 1 if nm == "MAX" else 0, fresh("res_m"), fresh("tmp_m"), args, asg]

        def cmp(ans):
            return R.block(ans[0]) == real and R.block(ans[1]) == orig, ans
        return line, cmp
    if kind == "red":
        if len(case["stmts"]) > 1 and case["flavour"] != "lhsidx":
            raise R.OutOfDomain("multi")
        call = R.pick(stmt, case["target"])
        argn = [n.lower() if n else None for n in call.argument_names]
        pos = {"array": None, "dim": None, "mask": None}
        for i, a in enumerate(call.arguments):
            pos[argn[i] if argn[i] else ["array", "dim", "mask"][i]] = a
        expr = R.aexpr_of(pos["array"], names)
        if expr[0] == "sc":
            raise R.OutOfDomain("no section")
        mask = R.aexpr_of(pos["mask"], names) if pos["mask"] is not None else ["none"]
        from psyclone.psyir.symbols import DataSymbol, REAL_TYPE
        tree = stmt.copy()
        c2 = R.pick(tree, case["target"])
        hole = N.Reference(DataSymbol(FRESH["hole"], REAL_TYPE))
        if c2 is tree.rhs:
            ctx = ["var", names.id(FRESH["hole"])]
        else:
            c2.replace_with(hole)
            ctx = R.ex(tree.rhs, names)
        if ap.refused and R.refusal_class(ap.refused).startswith("other:"):
            raise R.OutOfDomain("refusal reason outside the model")
        line = ["red", fresh("idx"), fresh("tmp_var"), case["target"][1].lower(), expr, mask,
                1 if pos["dim"] is not None else 0, R.tgt_of(stmt.lhs, names), names.id(FRESH["hole"]), ctx, R.HUGE]

        def cmp(ans):
            if ans[0] == "refuse":
                return ap.refused is not None and R.refusal_class(ap.refused) == ans[1], ans
            return ap.refused is None and R.block(ans[1]) == real, ans
        return line, cmp
    if kind == "dot":
        if ap.refused:
            raise R.OutOfDomain("dot")
        call = R.pick(stmt, case["target"])
        secs = [R.sec_of(a, names) for a in call.arguments]
        line = ["dots", fresh("res_dot"), fresh("i"), secs[0], secs[1], R.asg_of_sexp(real[-1])]
        return line, (lambda ans: (R.block(ans) == real, ans))
    if kind == "matmul":
        if ap.refused:
            raise R.OutOfDomain("matmul")
        if case["flavour"] == "matmat":
            res, a1, a2 = case["names"]
            mat = lambda m: ["mat", names.id(m)] + [x for d in R.ARRAYS[m] for x in d]
            line = ["matmat", fresh("i"), fresh("j"), fresh("ii"), mat(res), mat(a1), mat(a2)]
            return line, (lambda ans: (R.block(ans) == real, ans))
        res, mat, vec = case["names"]
        (l1, u1), (l2, u2) = R.ARRAYS[mat]
        line = ["matvec", fresh("i"), fresh("j"), ["vec", names.id(res)] + list(R.ARRAYS[res][0]),
                ["mat", names.id(mat), l1, u1, l2, u2], ["vec", names.id(vec)] + list(R.ARRAYS[vec][0])]
        return line, (lambda ans: (R.block(ans) == real, ans))
    if kind == "misc" and case["flavour"] == "access2loop":
        if ap.refused:
            raise R.OutOfDomain("refused")
        from psyclone.psyir.symbols import DataSymbol, INTEGER_TYPE
        hole = DataSymbol(FRESH["hole"], INTEGER_TYPE)
        tree = stmt.copy()
        index = R.ex(stmt.lhs.indices[0], names)
        for arr in tree.rhs.walk(N.ArrayReference):
            if not arr.ancestor(N.ArrayReference):
                arr.indices[0].replace_with(N.Reference(hole))
        line = ["acc", fresh("idx"), names.id(stmt.lhs.name), index, R.ex(tree.rhs, names), names.id(FRESH["hole"])]
        orig = R.block(minif.export_stmt(R.prep(stmt), names))
        return line, (lambda ans: (R.block(ans[0]) == real and R.block(ans[1]) == orig, ans))
    if kind == "misc" and case["flavour"] == "ref2range":
        # every plain reference to a rank-1 array becomes the section with the declared bounds
        olds = [r for r in stmt.walk(N.Reference) if type(r) is N.Reference and r.symbol.is_array
                and not (isinstance(r.parent, N.IntrinsicCall) and r.parent.is_inquiry)]
        news = [a for a in ap.new_stmts[-1].walk(N.ArrayReference) if all(isinstance(i, N.Range) for i in a.indices)]
        if not olds or any(len(R.ARRAYS[r.name.lower()]) != 1 for r in olds):
            raise R.OutOfDomain("no rank-1 whole-array reference")
        line = ["ref2ranges"] + [["vec", names.id(r.name)] + list(R.ARRAYS[r.name.lower()][0]) for r in olds]
        got = [R.sec_of(a, names) for a in news]
        return line, (lambda ans: (ans == got, ans))
    raise R.OutOfDomain(kind)


def known_class(case, findings):
    """id of the known finding whose classifier accepts this (failing) case, else None"""
    ids = {f["id"] for f in findings}
    if case["kind"] == "dot" and case.get("lbs") and case["lbs"][0] != case["lbs"][1] and "C06-dotproduct-lower-bounds" in ids:
        return "C06-dotproduct-lower-bounds"
    if case["kind"] == "matmul" and case.get("aligned") is False and "C06-matmul-lower-bounds" in ids:
        return "C06-matmul-lower-bounds"
    return None


def build(case, params):
    p = dict(params)
    if "params_n" in case:
        p["n"] = case["params_n"]
    src, n_init = R.program(p, case["stmts"])
    return src, n_init


def evaluate(case, params):
    """real transformation + (if accepted) the pair of programs to compare"""
    src, n_init = build(case, params)
    ap = R.apply_real(src, n_init, case["trans"], case["target"], nstmts=len(case["stmts"]))
    return src, ap


TOLERATED = (ValueError, IndexError, AttributeError, KeyError, TypeError, NotImplementedError)
TOLERATED_NAMES = ("InternalError", "GenerationError", "SymbolError", "VisitorError", "FortranSyntaxError", "NoMatchError")


def tolerated(err):
    return isinstance(err, TOLERATED) or type(err).__name__ in TOLERATED_NAMES


def psy_batch(batch, params, dropped=None):
    """apply the real transformations of all cases of a batch inside ONE program (last block first,
    so that earlier positions stay valid).  A case on which PSyclone crashes (not a TransformationError)
    is dropped and the batch is redone without it.  Returns (entries, src, out_src) or None if the
    batch has to be evaluated case by case."""
    dropped = dropped if dropped is not None else []
    j = None
    try:
        src, n_init, starts = R.program_multi(params, [c["stmts"] for c in batch])
        psyir, routine = R.parse(src)
        entries = [None] * len(batch)
        for j in reversed(range(len(batch))):
            case = batch[j]
            ap = R.apply_at(psyir, routine, starts[j] + n_init + len(case["stmts"]) - 1, case["trans"], case["target"])
            entries[j] = make_entry(case, params, ap)
        j = None
        return entries, src, R.write(psyir)
    except Exception as err:
        if not tolerated(err):
            raise
        if j is not None and len(dropped) < 4:
            dropped.append((batch[j], type(err).__name__))
            return psy_batch(batch[:j] + batch[j + 1:], params, dropped)
        return None


def make_entry(case, params, ap):
    entry = {"case": case, "params": params, "refused": ap.refused, "cmp": None, "line": None, "real": None,
             "ood": R.outside_domain(ap.orig_stmt, case["target"])}
    if entry["ood"]:
        return entry
    names = minif.Names()
    try:
        line, cmp = model_line(case, ap, names)
        entry["cmp"], entry["line"] = cmp, sx(line)
    except (R.OutOfDomain, minif.Unsupported):
        pass
    try:
        entry["real"] = ap.refused or R.ex_stmts(ap.new_stmts, minif.Names())
    except (R.OutOfDomain, minif.Unsupported):
        entry["real"] = "not exportable"
    return entry


def single(case, params):
    """case-by-case evaluation: (entry, (src, out_src) or None) or None if the case cannot be processed"""
    try:
        src, ap = evaluate(case, params)
    except Exception as err:
        if not tolerated(err):
            raise
        return None
    return make_entry(case, params, ap), (None if ap.refused else (src, ap.out_src))


def run(chk):
    chk.cov["rule"] = ("generated statements (array-section assignments incl. overlapping / strided / empty sections and "
                       "non-unit lower bounds; ABS/SIGN/MIN/MAX calls with 1..4 arguments inside scalar assignments; "
                       "SUM/PRODUCT/MINVAL/MAXVAL with masks, DIM, context expressions; DOT_PRODUCT; MATMUL; constant-index "
                       "access; whole-array references) inside a fixed test program; plus the systematic same_range family of "
                       "props/c06_sr.py: (array of rank 1..3 declared explicit / `lo:` / assumed-shape / allocatable, literal or "
                       "symbolic lower bound, position of the range) x (the same) x range form, as array assignments and as "
                       "SUM/MAXVAL arguments, with same_range / is_*_bound / SymbolicMaths.equal instrumented; non-trivial = the transformation "
                       "accepted the statement and both programs compiled and ran; distinct by statement text+target")
    chk.assumptions += [
        "REAL data restricted to small integer values (exact in single precision); no signed zeros / NaNs",
        "SymbolicMaths.equal: in the same_range family every pair it is asked about is also decided by the Lean linear normal "
        "form C06.linEq (proved sound) and the answers are compared; in the older families the bound expressions (literals, n, n+1, "
        "n-1, k, k+1) are compared syntactically by the model",
        "element-wise semantics in Lean (MiniF) for arrays of rank <= 2; for accesses of rank 3 the same_range decisions are "
        "compared with the model (rank-independent theorems C06_same_range_start_sound / C06_index_expr_sound) and the values "
        "with gfortran only; all arrays are local DataSymbols of ArrayType (no imported / untyped arrays, no structure members)",
        "generated names (idx, tmp_var, res_*, tmp_*) are fresh: guaranteed by SymbolTable.new_symbol"]
    chk.cov["trusted_base"] = ["Lean 4.33.0 kernel", "axioms propext/Classical.choice/Quot.sound only (audited)",
                               "MiniF semantics + PSyIR->MiniF exporter (harness/minif.py, validated against gfortran)",
                               "gfortran 12 as execution oracle for the property evaluation",
                               "harness/props/c06*.py (generator, model-input extraction, comparison)"]
    chk.lean()
    findings = common.known_findings("C06")
    rng = chk.rng
    nb, bs = {"quick": (8, 24), "thorough": (100, 24)}[chk.tier]
    gens = [case_aa] * 4 + [case_aa_elem] * 3 + [case_aa2] * 3 + [case_aa_cross] * 3 + [case_red_cross] + [case_intr] * 4 + [case_red] * 5 + [case_red_self] * 3 + [case_dot] * 2 + [case_matmul] * 2 + [case_misc]
    cparams = R.gen_params(__import__("random").Random(7))
    cparams["n"], cparams["k"] = 4, 2
    batches = [([dict(c) for c in CORPUS], cparams)]
    cdir = os.path.join(common.ROOT, "corpus", "C06")
    if os.path.isdir(cdir):
        groups = {}
        for f in sorted(os.listdir(cdir)):
            d = json.load(open(os.path.join(cdir, f)))
            groups.setdefault(json.dumps(d["params"], sort_keys=True), []).append(d["case"])
        for key, cs in groups.items():
            batches.append((cs, json.loads(key)))
    for _ in range(nb):
        params = R.gen_params(rng)
        g = Gen(rng, params)
        batches.append(([rng.choice(gens)(g) for _ in range(bs)], params))

    dist = {}
    done = []          # (entry, verdict)
    pending = []       # (entries, src, out_src)
    singles = []       # (case, params)
    for batch, params in batches:
        drops = []
        res = psy_batch(batch, params, drops)
        for c, why in drops:
            key = c["kind"] + ":" + c["flavour"] + ":psyclone-crash:" + why
            dist[key] = dist.get(key, 0) + 1
        if res is None:
            singles += [(c, params) for c in batch]
            dist["batches not transformable as a whole"] = dist.get("batches not transformable as a whole", 0) + 1
        else:
            pending.append(res)
    outs = R.run_pairs([(src, out) for _, src, out in pending], checks=False, raw=True)
    for (entries, src, out), ((s0, o0), (s1, o1)) in zip(pending, outs):
        if s0 != "ok" or s1 != "ok":
            singles += [(e["case"], e["params"]) for e in entries]
            dist.setdefault("batch fallbacks", []).append((s0 + ": " + o0[-300:]) if s0 != "ok" else (s1 + ": " + o1[-300:]))
            continue
        b0, b1 = R.split_blocks(o0), R.split_blocks(o1)
        for j, e in enumerate(entries):
            if e["refused"]:
                done.append((e, ("refused", "", "")))
            elif j not in b0 or j not in b1:
                singles.append((e["case"], e["params"]))
            else:
                done.append((e, ("same" if b0[j] == b1[j] else "differ", b0[j], b1[j])))
    dist["evaluated case by case"] = len(singles)
    sres = [(single(c, p), c) for c, p in singles]
    spairs = [r[1] for r, _ in sres if r is not None and r[1] is not None]
    sverd = iter(R.run_pairs(spairs))
    for r, c in sres:
        if r is None:
            key = c["kind"] + ":" + c["flavour"] + ":error"
            dist[key] = dist.get(key, 0) + 1
            continue
        done.append((r[0], ("refused", "", "") if r[1] is None else next(sverd)))

    answers = iter(common.driver("C06", [e["line"] for e, _ in done if e["line"]]))
    reported = set()
    for e, verdict in done:
        case = e["case"]
        if e["ood"]:
            dist["outside the domain: " + e["ood"]] = dist.get("outside the domain: " + e["ood"], 0) + 1
            continue
        key = case["kind"] + ":" + case["flavour"] + (":refused" if e["refused"] else ":accepted")
        dist[key] = dist.get(key, 0) + 1
        agreed, ans = True, None
        if e["line"]:
            raw = next(answers)
            if not raw.startswith("("):
                raise common.Infra(f"C06 driver: {raw} on {e['line']}")
            agreed, ans = e["cmp"](parse_sx(raw))
            dist["model-compared"] = dist.get("model-compared", 0) + 1
        nontriv = verdict[0] in ("same", "differ")
        chk.case({"stmts": case["stmts"], "target": case["target"], "trans": case["trans"]}, nontrivial=nontriv, agreed=agreed)
        dist["verdict:" + verdict[0]] = dist.get("verdict:" + verdict[0], 0) + 1
        if verdict[0] == "differ":
            cls = known_class(case, findings) if agreed else None
            if cls is None:
                sig = (case["kind"], case["flavour"])
                if sig not in reported and len(reported) < 6:
                    reported.add(sig)
                    src1, ap1 = evaluate(case, e["params"])
                    chk.violation({"kind": "failing-input", "case": case, "params": e["params"], "source": src1,
                                   "transformed": ap1.out_src, "expected": str(verdict[1])[:3000], "observed": str(verdict[2])[:3000],
                                   "what": "transformed program prints different values than the original"})
            else:
                dist["known:" + cls] = dist.get("known:" + cls, 0) + 1
        if not agreed:
            chk.correspondence_broken(f"{case['trans']} differs from the Lean model on {case['stmts']}",
                                      {"case": case, "params": e["params"]}, ans, e["real"])
    # systematic same_range family (rank x range position x declaration kind x range form), own test subroutine
    SR.run(chk, findings, dist)
    chk.cov["distribution"] = dist
    # known findings: replay the witnesses
    for f in findings:
        if replay_case(f["witness"]["case"], f["witness"]["params"], quiet=True) == 1:
            chk.known(f["what"])


def replay_case(case, params, quiet=False):
    if case.get("kind") == "sr":
        return SR.replay_case(case, params, quiet=quiet)
    src, ap = evaluate(case, params)
    ood = R.outside_domain(ap.orig_stmt, case["target"])
    if ood:
        if not quiet:
            print("statement:", case["stmts"], "\noutside the property's domain:", ood, "\nproperty: not applicable")
        return 0
    if ap.refused:
        if not quiet:
            print("statement:", case["stmts"], "\ntransformation refused:", ap.refused[:300], "\nproperty: holds (refused)")
        return 0
    verdict = R.run_pairs([(src, ap.out_src)])[0]
    if not quiet:
        print("statement:", case["stmts"], "target:", case["target"], "transformation:", case["trans"])
        print("transformed program:\n" + ap.out_src)
        print("expected (original program output):\n" + verdict[1])
        print("observed (transformed program output):\n" + verdict[2])
        print("property:", "VIOLATED" if verdict[0] == "differ" else "holds" if verdict[0] == "same" else "not evaluated: " + verdict[1])
    return 1 if verdict[0] == "differ" else 0


def replay(payload):
    if "case" not in payload:
        print(json.dumps(payload.get("broken", payload), indent=1, default=str)[:4000])
        return 0
    return replay_case(payload["case"], payload["params"])
