"""C21: atoms (one appended kernel argument each), classification of real stub dummies / real call
actuals into atoms by their canonical names, encoding of a metadata spec for the Lean driver, and
the translator that produces PsyVerif/Gen/ArgOrder.lean from probe kernels run through the real
generators."""
import re

from props import c21_gen as G

DT = ["real", "integer", "logical"]
ACC = ["read", "write", "readwrite", "inc", "readinc", "sum"]
CMAPAR = ["nrow", "ncol", "bandwidth", "alpha", "beta", "gammaM", "gammaP"]
NFACES = ["h", "v", "all"]
REFP = ["normalsH", "normalsV", "normalsF", "outH", "outV", "outF"]   # same order as G.REFPROPS
PLAIN = ["cell", "nlayers", "ncell2dNoHalos", "ncell2d", "cellMap", "ncpcX", "ncpcY", "ncellF",
         "stencilSize", "stencilSize2d", "maxBranch", "direction", "stencilMap", "stencilMap2d",
         "opNcell3d", "opProxy", "ndf", "undf", "dofmap", "dofmapWhole", "bandedMap", "indirectionMap",
         "basisQuad", "basisEval", "diffBasisQuad", "diffBasisEval", "boundaryDofs", "adjacentFace",
         "npXy", "npZ", "weightsXy", "weightsZ", "nfacesQr", "nedgesQr", "npXyz", "weightsXyz"]


def all_atoms():
    """Every value of the Lean type `C21.Atom`: (protocol name, Lean term)."""
    out = [(p, "." + p) for p in PLAIN]
    for d in DT:
        for a in ACC:
            out.append((f"fieldData.{d}.{a}", f".fieldData .{d} .{a}"))
            out.append((f"scalar.{d}.{a}", f".scalar .{d} .{a}"))
    for a in ACC:
        out.append((f"opData.{a}", f".opData .{a}"))
        out.append((f"cmaMatrix.{a}", f".cmaMatrix .{a}"))
    for p in CMAPAR:
        out.append((f"cmaParam.{p}", f".cmaParam .{p}"))
    for k in NFACES:
        out.append((f"nfacesRe.{k}", f".nfacesRe .{k}"))
    for p in REFP:
        out.append((f"refArray.{p}", f".refArray .{p}"))
    return out


_REFNAMES = {"normals_to_horiz_faces": "normalsH", "normals_to_vert_faces": "normalsV",
             "normals_to_faces": "normalsF", "out_normals_to_horiz_faces": "outH",
             "out_normals_to_vert_faces": "outV", "out_normals_to_faces": "outF"}
_CMAP = {"nrow": "nrow", "ncol": "ncol", "bandwidth": "bandwidth", "alpha": "alpha", "beta": "beta",
         "gamma_m": "gammaM", "gamma_p": "gammaP"}


def _common(name):
    """Names shared by stub and call (implicit arguments)."""
    n = name
    if n in ("cell", "nlayers"):
        return n
    if n == "ncell_2d":
        return "ncell2d"
    if n == "ncell_2d_no_halos":
        return "ncell2dNoHalos"
    if n in _REFNAMES:
        return "refArray." + _REFNAMES[n]
    if n == "nfaces_re_h":
        return "nfacesRe.h"
    if n == "nfaces_re_v":
        return "nfacesRe.v"
    if n == "nfaces_re":
        return "nfacesRe.all"
    for pre, atom in (("ndf_", "ndf"), ("undf_", "undf"), ("cbanded_map_", "bandedMap"),
                      ("cma_indirection_map_", "indirectionMap"), ("boundary_dofs_", "boundaryDofs"),
                      ("np_xyz_", "npXyz"), ("np_xy_", "npXy"), ("np_z_", "npZ"),
                      ("weights_xyz_", "weightsXyz"), ("weights_xy_", "weightsXy"),
                      ("weights_z_", "weightsZ"), ("nfaces_qr", "nfacesQr"), ("nedges_qr", "nedgesQr")):
        if n.startswith(pre):
            return atom
    m = re.match(r"(diff_)?basis_\w+?_(on_\w+|qr_\w+)$", n)
    if m:
        kind = "Eval" if m.group(2).startswith("on_") else "Quad"
        return ("diffBasis" if m.group(1) else "basis") + kind
    return None


def classify_stub(name, md):
    n = name.lower()
    c = _common(n)
    if c:
        return c
    if n.startswith("map_"):
        return "dofmap"
    if n == "adjacent_face":
        return "adjacentFace"
    m = re.match(r"(field|op|cma_op|rscalar|iscalar|lscalar)_(\d+)(.*)$", n)
    if not m:
        return "unclassified:" + n
    pre, idx, rest = m.group(1), int(m.group(2)), m.group(3)
    if idx < 1 or idx > len(md["args"]):
        return "unclassified:" + n
    a = md["args"][idx - 1]
    if pre == "field" and a["k"] == "field":
        if rest == "_stencil_size":
            return "stencilSize2d" if a["st"] == "cross2d" else "stencilSize"
        if rest == "_max_branch_length":
            return "maxBranch"
        if rest == "_direction":
            return "direction"
        if rest == "_stencil_dofmap":
            return "stencilMap2d" if a["st"] == "cross2d" else "stencilMap"
        return f"fieldData.{a['dt']}.{a['acc']}"
    if pre == "op" and a["k"] == "op":
        return "opNcell3d" if rest == "_ncell_3d" else (f"opData.{a['acc']}" if rest == "" else "unclassified:" + n)
    if pre == "cma_op" and a["k"] == "cma":
        if rest == "":
            return f"cmaMatrix.{a['acc']}"
        return "cmaParam." + _CMAP.get(rest[1:], "unknown")
    if pre in ("rscalar", "iscalar", "lscalar") and a["k"] == "scalar" and rest == "":
        return f"scalar.{a['dt']}.{a['acc']}"
    return "unclassified:" + n


def classify_call(text, md):
    """`text` is the actual argument as written in the PSy layer (spaces removed)."""
    t = text.lower()
    base = re.sub(r"\(.*$", "", t)
    sub = t[len(base):]
    c = _common(base)
    if c and "%" not in t:
        return c
    if base.startswith("map_"):
        return "dofmap" if sub else "dofmapWhole"
    if base == "adjacent_face":
        return "adjacentFace"
    if base.startswith("cell_map_"):
        return "cellMap"
    m = re.match(r"ncpc_f\d+_f\d+_([xy])$", base)
    if m:
        return "ncpc" + m.group(1).upper()
    if re.match(r"ncell_f\d+$", base):
        return "ncellF"
    m = re.match(r"(f|op|cma|s)(\d+)(.*)$", t)
    if not m:
        return "unclassified:" + t
    pre, idx, rest = m.group(1), int(m.group(2)), m.group(3)
    if idx < 1 or idx > len(md["args"]):
        return "unclassified:" + t
    a = md["args"][idx - 1]
    if pre == "f" and a["k"] == "field":
        if re.match(r"(_\d+)?_data$", rest):
            return f"fieldData.{a['dt']}.{a['acc']}"
        if rest.startswith("_stencil_size"):
            return "stencilSize2d" if a["st"] == "cross2d" else "stencilSize"
        if rest == "_max_branch_length":
            return "maxBranch"
        if rest == "_dirn":
            return "direction"
        if rest.startswith("_stencil_dofmap"):
            return "stencilMap2d" if a["st"] == "cross2d" else "stencilMap"
    if pre == "op" and a["k"] == "op":
        if rest == "_proxy%ncell_3d":
            return "opNcell3d"
        if rest == "_proxy":
            return "opProxy"
        if rest == "_local_stencil":
            return f"opData.{a['acc']}"
    if pre == "cma" and a["k"] == "cma":
        if rest.startswith("_cma_matrix"):
            return f"cmaMatrix.{a['acc']}"
        if rest[1:] in _CMAP:
            return "cmaParam." + _CMAP[rest[1:]]
    if pre == "s" and a["k"] == "scalar" and rest == "":
        return f"scalar.{a['dt']}.{a['acc']}"
    return "unclassified:" + t


# ---------------------------------------------------------------------------------------------
# protocol encoding of a spec
def encode(md):
    def arg(a):
        if a["k"] == "field":
            return ["f", DT.index(a["dt"]), a["vec"], ACC.index(a["acc"]), G.fs_id(a["fs"]),
                    G.STENCILS.index(a["st"]), G.MESHARG.index(a["mesh"])]
        if a["k"] == "op":
            return ["o", ACC.index(a["acc"]), G.fs_id(a["to"]), G.fs_id(a["from"])]
        if a["k"] == "cma":
            return ["c", ACC.index(a["acc"]), G.fs_id(a["to"]), G.fs_id(a["from"])]
        return ["s", DT.index(a["dt"]), ACC.index(a["acc"])]
    bc = {"enforce_bc": 1, "enforce_operator_bc": 2}.get(md["name"], 0)
    return ["md", G.OPERATES.index(md["operates_on"]),
            [arg(a) for a in md["args"]],
            [[G.fs_id(f["fs"]), int(f["basis"]), int(f["diff"]), int(bool(f.get("diff_first")))]
             for f in md["funcs"]],
            [G.SHAPES.index(s) for s in md["shapes"]],
            [G.fs_id(t) for t in md["targets"]],
            [G.REFPROPS.index(p) for p in md["refelem"]],
            [G.MESHPROPS.index(p) for p in md["mesh"]],
            bc]


# ---------------------------------------------------------------------------------------------
# translator: probe kernels -> Gen/ArgOrder.lean
def _f(fs, acc, dt="real", vec=1, st="none", mesh="none"):
    return {"k": "field", "dt": dt, "vec": vec, "acc": acc, "fs": fs, "st": st, "mesh": mesh}


def probes():
    """Probe kernels that together exercise every leaf method of both overrides (and every
    data-type/access combination a valid kernel can have)."""
    B = G.blank
    out = []
    p = B("p1")   # fields of both data types with every access, scalars, stencils
    p["args"] = [_f("w1", "inc"), _f("w1", "readinc"), _f("w1", "write"), _f("w3", "write"),
                 _f("w3", "readwrite"), _f("w2", "read", st="cross"), _f("w2", "read", st="xory1d"),
                 _f("w2", "read", st="cross2d"), _f("w2", "read", vec=3, st="region"),
                 {"k": "scalar", "dt": "real", "acc": "read"}, {"k": "scalar", "dt": "integer", "acc": "read"},
                 {"k": "scalar", "dt": "logical", "acc": "read"}]
    out.append(p)
    p = B("p2")   # integer fields
    p["args"] = [_f("w1", "inc", "integer"), _f("w1", "readinc", "integer"), _f("w0", "write", "integer"),
                 _f("w3", "write", "integer"), _f("wtheta", "readwrite", "integer"),
                 _f("w2", "read", "integer", st="x1d")]
    out.append(p)
    p = B("p3")   # LMA operators, basis/diff basis with every shape, reference element, mesh
    p["args"] = [{"k": "op", "acc": "write", "to": "w0", "from": "w1"},
                 {"k": "op", "acc": "readwrite", "to": "w2", "from": "w2"},
                 {"k": "op", "acc": "read", "to": "w3", "from": "w0"}, _f("w0", "read", vec=3)]
    p["funcs"] = [{"fs": "w0", "basis": True, "diff": True}, {"fs": "w3", "basis": False, "diff": True}]
    p["shapes"] = ["xyoz", "face", "edge", "evaluator"]
    p["targets"] = ["w0", "w1"]
    p["refelem"] = list(G.REFPROPS)
    p["mesh"] = ["adjacent_face"]
    out.append(p)
    p = B("p4")   # mesh property without reference-element properties (nfaces_re_h from the mesh rule)
    p["args"] = [_f("w1", "inc")]
    p["mesh"] = ["adjacent_face"]
    out.append(p)
    p = B("p5")   # CMA assembly
    p["args"] = [{"k": "cma", "acc": "write", "to": "w0", "from": "w1"},
                 {"k": "op", "acc": "read", "to": "w0", "from": "w1"}, _f("w1", "read")]
    out.append(p)
    p = B("p6")   # CMA assembly, readwrite, same spaces
    p["args"] = [{"k": "cma", "acc": "readwrite", "to": "w2", "from": "w2"},
                 {"k": "op", "acc": "read", "to": "w2", "from": "w2"}]
    out.append(p)
    p = B("p7")   # CMA apply
    p["args"] = [_f("w0", "inc"), _f("w1", "read"), {"k": "cma", "acc": "read", "to": "w0", "from": "w1"}]
    out.append(p)
    p = B("p8")   # CMA matrix-matrix
    p["args"] = [{"k": "cma", "acc": "write", "to": "w0", "from": "w1"},
                 {"k": "cma", "acc": "read", "to": "w0", "from": "w0"}, {"k": "scalar", "dt": "real", "acc": "read"}]
    out.append(p)
    p = B("enforce_bc")
    p["args"] = [_f("any_space_1", "inc")]
    out.append(p)
    p = B("enforce_operator_bc")
    p["args"] = [{"k": "op", "acc": "readwrite", "to": "w2", "from": "w1"}]
    out.append(p)
    p = B("p9")   # inter-grid (call side only)
    p["args"] = [_f("w1", "inc", mesh="fine"), _f("w2", "read", mesh="coarse")]
    out.append(p)
    p = B("p10")  # domain (call side only)
    p["operates_on"] = "domain"
    p["args"] = [_f("w3", "readwrite"), _f("wtheta", "read")]
    out.append(p)
    return out


TY = {"integer": ".integer", "real": ".real", "logical": ".logical"}
KIND = {"i_def": ".i_def", "r_def": ".r_def", "l_def": ".l_def", "r_solver": ".r_solver"}
INTENT = {"in": ".in_", "inout": ".inout", "out": ".out", "": ".none"}


def observe(run_real):
    """Run the probes through the real generators.  Returns (call table, stub table, consistent)."""
    call, stub, consistent = {}, {}, True
    for md in probes():
        r = run_real(md)
        if r["call"] is None:
            # the real generator cannot produce the call for a valid probe kernel: the table stays
            # incomplete and `consistent` false, so the theorems about the table no longer check
            consistent = False
        for (txt, ty, kind, rank) in (r["call"] or []):
            a = classify_call(txt, md)
            if call.setdefault(a, (ty, kind, rank)) != (ty, kind, rank):
                consistent = False
        for (name, ty, kind, rank, intent) in (r["stub"] or []):
            a = classify_stub(name, md)
            if stub.setdefault(a, (ty, kind, rank, intent)) != (ty, kind, rank, intent):
                consistent = False
    return call, stub, consistent


def lean_table(call, stub, consistent):
    L = ["/- GENERATED by harness/props/c21_atoms.py from the real KernCallArgList / KernStubArgList",
         "   overrides run on probe kernels -- do not edit. -/",
         "import PsyVerif.Model.ArgOrder", "namespace C21.Gen", "open C21", ""]
    atoms = all_atoms()
    unknown = sorted((set(call) | set(stub)) - {n for n, _ in atoms})

    def sig(t):
        return f"⟨{TY.get(t[0], '.other')}, {KIND.get(t[1], '.other')}, {t[2]}⟩"
    L.append("/-- type, kind and rank of the actual argument the PSy layer passes for an atom -/")
    L.append("def callSig : Atom → Option Sig")
    for n, term in atoms:
        L.append(f"  | {term} => " + (f"some {sig(call[n])}" if n in call else "none"))
    L.append("")
    L.append("/-- type, kind and rank of the dummy argument the kernel stub declares for an atom -/")
    L.append("def stubSig : Atom → Option Sig")
    for n, term in atoms:
        L.append(f"  | {term} => " + (f"some {sig(stub[n])}" if n in stub else "none"))
    L.append("")
    L.append("/-- declared intent of the stub's dummy argument -/")
    L.append("def stubIntent : Atom → Intent")
    for n, term in atoms:
        L.append(f"  | {term} => " + (INTENT.get(stub[n][3], ".none") if n in stub else ".none"))
    L.append("")
    L.append("/-- every probe occurrence of an atom had the same signature and every argument was classified -/")
    L.append(f"def consistent : Bool := {'true' if consistent and not unknown else 'false'}")
    if unknown:
        L.append("-- unclassified: " + ", ".join(unknown))
    L += ["", "end C21.Gen", ""]
    return "\n".join(L)
