"""C03 — translator: Gen/DeclsOps.lean from the live FortranWriter / FortranReader.

Tables (all obtained by RUNNING the live code on every two-operator tree / token string):
* precTable       `precedence(s)` for the 16 operator strings (order of C02.optoks)
* parenBinBin     writer: is the binary child C parenthesised under the binary parent P (sides: left, right,
                  left with a structurally equal right sibling)
* parenUnBin      writer: unary child U under binary parent P (left, right)
* parenLitBin     writer: signed literal (-1, +1) under binary parent P (left, right)
* parenBinUn      writer: binary child C under unary parent U
* parenUnUn       writer: unary child under unary parent
* parenSign3      writer: unary node / signed literal as LEFT operand of P, P being the left / right operand of G
* readerNest      reader: tree of `b C d P a` (0 rejected, 1 = (b C d) P a, 2 = b C (d P a), 9 other)
* readerPrefix    reader: tree of `U b P a` (0 rejected, 1 = (U b) P a, 2 = U (b P a), 9 other)
"""
BINOPS = ["ADD", "SUB", "MUL", "DIV", "POW", "EQ", "NE", "GT", "LT", "GE", "LE", "AND", "OR", "EQV", "NEQV"]
UNOPS = ["MINUS", "PLUS", "NOT"]
OPTOKS = ["+", "-", "*", "/", "**", "==", "/=", "<", "<=", ">", ">=", ".NOT.", ".AND.", ".OR.", ".EQV.", ".NEQV."]


def tables():
    from psyclone.psyir.backend.fortran import FortranWriter, precedence
    from psyclone.psyir.frontend.fortran import FortranReader
    from psyclone.psyir.nodes import BinaryOperation, UnaryOperation, Reference, Literal
    from psyclone.psyir.symbols import DataSymbol, REAL_TYPE, INTEGER_TYPE, SymbolTable
    w = FortranWriter()
    syms = {n: DataSymbol(n, REAL_TYPE) for n in "abcd"}

    def ref(n):
        return Reference(syms[n])

    def B(name, l, r):
        return BinaryOperation.create(BinaryOperation.Operator[name], l, r)

    def U(name, e):
        return UnaryOperation.create(UnaryOperation.Operator[name], e)

    def lit(sign):
        return Literal(sign + "1", INTEGER_TYPE)

    def wr(tree):
        try:
            return w(tree)
        except Exception:                                   # the writer refuses: its own code
            return None

    def flag(text, test):
        return 2 if text is None else (1 if test(text) else 0)

    t = {}
    prec = []
    for s in OPTOKS:
        try:
            prec.append(precedence(s))
        except KeyError:
            prec.append(99)
    t["precTable"] = prec
    left = lambda s: s.startswith("(")
    right = lambda s: s.endswith(")")
    bb = []
    for p in BINOPS:
        for c in BINOPS:
            bb.append(flag(wr(B(p, B(c, ref("b"), ref("c")), ref("a"))), left))
            bb.append(flag(wr(B(p, ref("a"), B(c, ref("b"), ref("c")))), right))
            bb.append(flag(wr(B(p, B(c, ref("b"), ref("c")), B(c, ref("b"), ref("c")))), left))
    t["parenBinBin"] = bb
    ub, lb = [], []
    for p in BINOPS:
        for u in UNOPS:
            ub.append(flag(wr(B(p, U(u, ref("b")), ref("a"))), left))
            ub.append(flag(wr(B(p, ref("a"), U(u, ref("b")))), right))
        for sg in "-+":
            lb.append(flag(wr(B(p, lit(sg), ref("a"))), left))
            lb.append(flag(wr(B(p, ref("a"), lit(sg))), right))
    t["parenUnBin"], t["parenLitBin"] = ub, lb
    t["parenBinUn"] = [flag(wr(U(u, B(c, ref("b"), ref("c")))), right) for u in UNOPS for c in BINOPS]
    t["parenUnUn"] = [flag(wr(U(u, U(u2, ref("b")))), right) for u in UNOPS for u2 in UNOPS]
    s3 = []
    for g in BINOPS:
        for p in BINOPS:
            for u in UNOPS:
                us = w.get_operator(UnaryOperation.Operator[u])
                inner = lambda s, us=us: "(" + us + "b)" in s
                s3.append(flag(wr(B(g, B(p, U(u, ref("b")), ref("c")), ref("a"))), inner))
                s3.append(flag(wr(B(g, ref("a"), B(p, U(u, ref("b")), ref("c")))), inner))
            for sg in "-+":
                inner = lambda s, sg=sg: "(" + sg + "1)" in s
                s3.append(flag(wr(B(g, B(p, lit(sg), ref("c")), ref("a"))), inner))
                s3.append(flag(wr(B(g, ref("a"), B(p, lit(sg), ref("c")))), inner))
    t["parenSign3"] = s3
    # reader
    rd = FortranReader()
    table = SymbolTable()
    for n in "abdx":
        table.new_symbol(n, symbol_type=DataSymbol, datatype=REAL_TYPE)

    def is_ref(e, n):
        return isinstance(e, Reference) and e.symbol.name == n

    def nest(text, c, p):
        try:
            e = rd.psyir_from_expression(text, table.shallow_copy())
        except Exception:
            return 0
        if (isinstance(e, BinaryOperation) and e.operator.name == p and is_ref(e.children[1], "a")
                and isinstance(e.children[0], BinaryOperation) and e.children[0].operator.name == c
                and is_ref(e.children[0].children[0], "b") and is_ref(e.children[0].children[1], "d")):
            return 1
        if (isinstance(e, BinaryOperation) and e.operator.name == c and is_ref(e.children[0], "b")
                and isinstance(e.children[1], BinaryOperation) and e.children[1].operator.name == p
                and is_ref(e.children[1].children[0], "d") and is_ref(e.children[1].children[1], "a")):
            return 2
        return 9

    def pre(text, u, p):
        try:
            e = rd.psyir_from_expression(text, table.shallow_copy())
        except Exception:
            return 0
        if (isinstance(e, BinaryOperation) and e.operator.name == p and is_ref(e.children[1], "a")
                and isinstance(e.children[0], UnaryOperation) and e.children[0].operator.name == u
                and is_ref(e.children[0].children[0], "b")):
            return 1
        if (isinstance(e, UnaryOperation) and e.operator.name == u and isinstance(e.children[0], BinaryOperation)
                and e.children[0].operator.name == p and is_ref(e.children[0].children[0], "b")
                and is_ref(e.children[0].children[1], "a")):
            return 2
        return 9
    bs = {n: w.get_operator(BinaryOperation.Operator[n]) for n in BINOPS}
    us = {n: w.get_operator(UnaryOperation.Operator[n]) for n in UNOPS}
    t["readerNest"] = [nest(f"b {bs[c]} d {bs[p]} a", c, p) for c in BINOPS for p in BINOPS]
    t["readerPrefix"] = [pre(f"{us[u]} b {bs[p]} a", u, p) for u in UNOPS for p in BINOPS]
    return t


DOC = {
    "precTable": "`precedence(s)` of fortran.py for + - * / ** == /= < <= > >= .NOT. .AND. .OR. .EQV. .NEQV.",
    "parenBinBin": "per parent P, child C (15 x 15 binary operators, REM excluded): [left, right, left-with-equal-sibling]; "
                   "1 = the live writer put the child in parentheses, 0 = bare, 2 = writer refused",
    "parenUnBin": "per parent P, unary child U (MINUS PLUS NOT): [left, right]",
    "parenLitBin": "per parent P, signed literal (-1, +1): [left, right]",
    "parenBinUn": "per unary parent U, binary child C",
    "parenUnUn": "per unary parent, unary child",
    "parenSign3": "per grandparent G, parent P: for U in MINUS PLUS NOT [P left of G, P right of G], then for the "
                  "literals -1 +1 [left, right]; the node is the LEFT operand of P; 1 = the node itself is in parentheses",
    "readerNest": "per C, P: what the live reader makes of `b C d P a`: 0 rejected, 1 (b C d) P a, 2 b C (d P a), 9 other",
    "readerPrefix": "per U, P: what the live reader makes of `U b P a`: 0 rejected, 1 (U b) P a, 2 U (b P a), 9 other",
}


def gen():
    t = tables()
    out = ["/-! GENERATED by harness/props/c03_gen.py:gen() by running the live FortranWriter / FortranReader on every",
           "two-operator tree / token string — do not edit. -/", "namespace C03.Gen", ""]
    for k, v in t.items():
        out.append(f"/-- {DOC[k]} -/")
        out.append(f"def {k} : List Nat := [" + ", ".join(str(x) for x in v) + "]")
        out.append("")
    out.append("end C03.Gen")
    return {"PsyVerif/Gen/DeclsOps.lean": "\n".join(out) + "\n"}
