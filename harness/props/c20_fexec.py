"""C20 execution oracle (thorough tier): the generated loop of each built-in — zero-initialisation lines,
`DO df = 1, ub`, the statement exactly as printed in the generated PSy layer — is compiled with gfortran
and run on exactly representable values; the final state is compared with the Python twin of the Lean
model.  Validates the model's reading of Fortran (`SIGN`, `INT`, `MIN`, `MAX`, `**`, operator
precedence in the printed statement) — gfortran is a validation aid, not part of the proof."""
import os
import subprocess
import tempfile
from fractions import Fraction

import common


def _lit(v, integer):
    v = Fraction(v)
    if integer:
        return str(int(v))
    s = repr(float(v))
    if "e" in s or "E" in s:
        s = "%.17g" % float(v)
    if "." not in s and "e" not in s.lower():
        s += ".0"
    return f"({s}_r_def)" if v < 0 else f"{s}_r_def"


def program(cases):
    """cases: list of (entry, setting index, env (Fractions), ub)."""
    out = ["program c20_oracle", "  implicit none",
           "  integer, parameter :: r_def = 8, i_def = 4, r_solver = 8, r_tran = 8, r_bl = 8, r_phys = 8, r_um = 8",
           "  integer :: df"]
    for k, (e, si, env, ub) in enumerate(cases):
        out.append("  block")
        names = []
        for pos, (arg, (kind, dtype, _)) in enumerate(zip(e["args"], e["meta"])):
            integer = dtype == "gh_integer"
            ty = "integer(i_def)" if integer else "real(r_def)"
            if kind == "field":
                out.append(f"    {ty} :: {arg}_data(5)")
                names.append(arg + "_data")
            else:
                out.append(f"    {ty} :: {arg}")
                names.append(arg)
        for pos, (arg, (kind, dtype, _)) in enumerate(zip(e["args"], e["meta"])):
            integer = dtype == "gh_integer"
            if kind == "field":
                out.append(f"    {arg}_data = (/ " + ", ".join(_lit(v, integer) for v in env["flds"][pos]) + " /)")
            else:
                out.append(f"    {arg} = {_lit(env['scals'][pos], integer)}")
        for line in e["init_text"][si]:
            out.append("    " + line)
        out.append(f"    do df = 1, {ub}")
        out.append("      " + e["code_text"][si])
        out.append("    end do")
        out.append(f"    write(*,'(A,I0)') 'CASE ', {k}")
        for n in names:
            out.append(f"    write(*,*) {n}")
        out.append("  end block")
    out.append("end program c20_oracle")
    return "\n".join(out) + "\n"


def run(cases):
    """-> list (per case) of list (per argument) of list of floats."""
    src = program(cases)
    with tempfile.TemporaryDirectory(prefix="c20_f_") as d:
        f = os.path.join(d, "o.f90")
        open(f, "w").write(src)
        try:
            p = subprocess.run(["gfortran", "-O0", "-ffree-line-length-none", "-o", os.path.join(d, "o"), f],
                               capture_output=True, text=True, timeout=600)
        except (FileNotFoundError, subprocess.TimeoutExpired) as e:
            raise common.Infra("gfortran: " + str(e))
        if p.returncode != 0:
            return None, p.stderr[-1500:]
        r = subprocess.run([os.path.join(d, "o")], capture_output=True, text=True, timeout=600)
        if r.returncode != 0:
            return None, (r.stderr or r.stdout)[-1500:]
    res, cur = [], None
    for line in r.stdout.splitlines():
        if line.startswith("CASE "):
            cur = []
            res.append(cur)
        elif cur is not None:
            cur.append([float(x) for x in line.split()])
    return res, ""


# ------------------------------------------------------------------------------------------------------------
# OpenMP execution oracle: the *whole generated PSy module* (dm off, real-valued built-ins) is compiled with
# gfortran -fopenmp against a minimal mock of the LFRic field API and run with several threads on
# integer-valued data; results are compared with the documented formula evaluated serially by the driver.
MOCK = """
module constants_mod
  implicit none
  integer, parameter :: r_def = kind(1.0d0), i_def = kind(1)
end module constants_mod
module field_mod
  use constants_mod, only: r_def, i_def
  implicit none
  type :: function_space_type
    integer(i_def) :: undf = 0
  contains
    procedure :: get_undf
  end type function_space_type
  type :: field_proxy_type
    real(r_def), pointer :: data(:) => null()
    type(function_space_type) :: vspace
  end type field_proxy_type
  type :: field_type
    real(r_def), pointer :: data(:) => null()
    integer(i_def) :: undf = 0
  contains
    procedure :: get_proxy
  end type field_type
contains
  function get_undf(self) result(undf)
    class(function_space_type), intent(in) :: self
    integer(i_def) :: undf
    undf = self%undf
  end function get_undf
  function get_proxy(self) result(proxy)
    class(field_type), intent(in) :: self
    type(field_proxy_type) :: proxy
    proxy%data => self%data
    proxy%vspace%undf = self%undf
  end function get_proxy
end module field_mod
"""


def _f_expr(e):
    k = e[0]
    if k == "fld":
        return f"x{e[1]}(df)"
    if k == "scal":
        return f"s{e[1]}"
    if k == "lit":
        return _lit(Fraction(e[1], e[2]), False)
    sym = {"add": "+", "sub": "-", "mul": "*", "div": "/", "pow": "**"}
    if k in sym:
        return f"({_f_expr(e[1])} {sym[k]} {_f_expr(e[2])})"
    if k == "neg":
        return f"(-{_f_expr(e[1])})"
    fn = {"abs": "ABS", "sign": "SIGN", "min": "MIN", "max": "MAX", "toReal": "", "toInt": "AINT", "mod": "MOD"}[k]
    return fn + "(" + ", ".join(_f_expr(x) for x in e[1:]) + ")"


def omp_driver(entries, ndofs, nrepeat):
    """entries in invoke order (invoke_0, invoke_1, ...); all arguments real-valued."""
    out = ["program c20_omp_driver", "  use constants_mod, only: r_def, i_def", "  use field_mod, only: field_type",
           "  use c20_alg_psy", "  implicit none", f"  integer(i_def), parameter :: n = {ndofs}",
           "  integer :: df, rep, nbad", "  real(r_def) :: expect", "  nbad = 0"]
    for k, e in enumerate(entries):
        out.append("  block")
        nargs = len(e["meta"])
        for pos, (arg, (kind, _, _)) in enumerate(zip(e["args"], e["meta"])):
            if kind == "field":
                out += [f"    type(field_type) :: {arg}", f"    real(r_def), allocatable :: x{pos}(:)"]
            else:
                out += [f"    real(r_def) :: {arg}, s{pos}"]
        for pos, (arg, (kind, _, _)) in enumerate(zip(e["args"], e["meta"])):
            if kind == "field":
                out += [f"    allocate({arg}%data(n), x{pos}(n))", f"    {arg}%undf = n",
                        f"    do df = 1, n", f"      x{pos}(df) = real(mod(df*{pos + 2}, 5) + 1, r_def)", "    end do"]
            else:
                out += [f"    s{pos} = {pos + 2}.0_r_def"]
        out.append(f"    do rep = 1, {nrepeat}")
        for pos, (arg, (kind, _, _)) in enumerate(zip(e["args"], e["meta"])):
            out.append(f"      {arg}%data = x{pos}" if kind == "field" else f"      {arg} = s{pos}")
        out.append(f"      call invoke_{k}({', '.join(e['args'])})")
        d = e["doc"]
        tgt = e["args"][d[1]]
        if d[0] == "sum":
            out += ["      expect = 0.0_r_def", "      do df = 1, n", f"        expect = expect + {_f_expr(d[2])}", "      end do",
                    f"      if ({tgt} /= expect) then", "        nbad = nbad + 1",
                    f"        write(*,'(A,2F22.1)') 'MISMATCH {e['case_name']} got/expected ', {tgt}, expect", "      end if"]
        else:
            out += ["      do df = 1, n", f"        if ({tgt}%data(df) /= {_f_expr(d[2])}) then", "          nbad = nbad + 1",
                    f"          write(*,'(A,I0)') 'MISMATCH {e['case_name']} at df=', df", "          exit", "        end if", "      end do"]
        out.append("    end do")
        out.append("  end block")
    out += ["  if (nbad > 0) stop 1", "  write(*,'(A)') 'ALL RESULTS CORRECT'", "end program c20_omp_driver"]
    return "\n".join(out) + "\n"


def omp_run(module_text, entries, nthreads=8, ndofs=300000, nrepeat=3):
    """-> (ok, output)."""
    with tempfile.TemporaryDirectory(prefix="c20_omp_") as d:
        for name, text in (("mock.f90", MOCK), ("psy.f90", module_text), ("driver.f90", omp_driver(entries, ndofs, nrepeat))):
            open(os.path.join(d, name), "w").write(text)
        try:
            p = subprocess.run(["gfortran", "-O1", "-fopenmp", "-ffree-line-length-none", "mock.f90", "psy.f90",
                                "driver.f90", "-o", "o"], cwd=d, capture_output=True, text=True, timeout=600)
        except (FileNotFoundError, subprocess.TimeoutExpired) as e:
            raise common.Infra("gfortran: " + str(e))
        if p.returncode != 0:
            return None, p.stderr[-1500:]
        env = dict(os.environ, OMP_NUM_THREADS=str(nthreads), OMP_DYNAMIC="false")
        r = subprocess.run([os.path.join(d, "o")], cwd=d, capture_output=True, text=True, env=env, timeout=900)
        return r.returncode == 0, (r.stdout + r.stderr)[-1500:]
