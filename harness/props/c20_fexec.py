"""C20 execution oracle (thorough tier): the generated loop of each built-in — zero-initialisation lines,
`DO df = 1, ub`, the statement exactly as printed in the generated PSy layer — is compiled with gfortran
and run on exactly representable values; the final state is compared with the Python twin of the Lean
model.  Validates the model's reading of Fortran (`SIGN`, `INT`, `MIN`, `MAX`, `**`, operator
precedence in the printed statement) — gfortran is a validation aid, not part of the proof."""
import os
import subprocess
import tempfile
from fractions import Fraction

import common


def _lit(v, integer):
    v = Fraction(v)
    if integer:
        return str(int(v))
    s = repr(float(v))
    if "e" in s or "E" in s:
        s = "%.17g" % float(v)
    if "." not in s and "e" not in s.lower():
        s += ".0"
    return f"({s}_r_def)" if v < 0 else f"{s}_r_def"


def program(cases):
    """cases: list of (entry, setting index, env (Fractions), ub)."""
    out = ["program c20_oracle", "  implicit none",
           "  integer, parameter :: r_def = 8, i_def = 4, r_solver = 8, r_tran = 8, r_bl = 8, r_phys = 8, r_um = 8",
           "  integer :: df"]
    for k, (e, si, env, ub) in enumerate(cases):
        out.append("  block")
        names = []
        for pos, (arg, (kind, dtype, _)) in enumerate(zip(e["args"], e["meta"])):
            integer = dtype == "gh_integer"
            ty = "integer(i_def)" if integer else "real(r_def)"
            if kind == "field":
                out.append(f"    {ty} :: {arg}_data(5)")
                names.append(arg + "_data")
            else:
                out.append(f"    {ty} :: {arg}")
                names.append(arg)
        for pos, (arg, (kind, dtype, _)) in enumerate(zip(e["args"], e["meta"])):
            integer = dtype == "gh_integer"
            if kind == "field":
                out.append(f"    {arg}_data = (/ " + ", ".join(_lit(v, integer) for v in env["flds"][pos]) + " /)")
            else:
                out.append(f"    {arg} = {_lit(env['scals'][pos], integer)}")
        for line in e["init_text"][si]:
            out.append("    " + line)
        out.append(f"    do df = 1, {ub}")
        out.append("      " + e["code_text"][si])
        out.append("    end do")
        out.append(f"    write(*,'(A,I0)') 'CASE ', {k}")
        for n in names:
            out.append(f"    write(*,*) {n}")
        out.append("  end block")
    out.append("end program c20_oracle")
    return "\n".join(out) + "\n"


def run(cases):
    """-> list (per case) of list (per argument) of list of floats."""
    src = program(cases)
    with tempfile.TemporaryDirectory(prefix="c20_f_") as d:
        f = os.path.join(d, "o.f90")
        open(f, "w").write(src)
        try:
            p = subprocess.run(["gfortran", "-O0", "-ffree-line-length-none", "-o", os.path.join(d, "o"), f],
                               capture_output=True, text=True, timeout=600)
        except (FileNotFoundError, subprocess.TimeoutExpired) as e:
            raise common.Infra("gfortran: " + str(e))
        if p.returncode != 0:
            return None, p.stderr[-1500:]
        r = subprocess.run([os.path.join(d, "o")], capture_output=True, text=True, timeout=600)
        if r.returncode != 0:
            return None, (r.stderr or r.stdout)[-1500:]
    res, cur = [], None
    for line in r.stdout.splitlines():
        if line.startswith("CASE "):
            cur = []
            res.append(cur)
        elif cur is not None:
            cur.append([float(x) for x in line.split()])
    return res, ""
