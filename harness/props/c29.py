"""C29 — concurrent/sequential `CodedKern.rename_and_write` runs sharing one kernel-output directory.

Correspondence: REAL runs (threads, driven through the pause points of fixes/C29-hook.patch) versus the
Lean model `C29.step` on the same (runs, initial directory, schedule): lock-step program counters, per-run
outcome and names, final directory (names, contents, who created / wrote each file).
Property: evaluated directly on the real directory and the real kernels after every experiment."""
import glob
import json
import os

import common
from common import driver, sx, parse_sx
from props import c29_real as R
from props import c29_hist as H

MODES = {"multiple": 0, "single": 1}
K_REJECT = "single-identical-kernel-rejected"


# ------------------------------------------------------------------------------------------------
# scenario <-> model encoding
# ------------------------------------------------------------------------------------------------
def enc_runs(runs):
    return [[MODES[r["mode"]], r["base"], r["kern"]] for r in runs]


def enc_fs0(fs0):
    out = []
    for f in fs0:
        if f["kind"] == "empty":
            out.append([f["base"], f["idx"]])
        elif f["kind"] == "junk":
            out.append([f["base"], f["idx"], R.JUNK_BODY, 0])
        else:
            out.append([f["base"], f["idx"], f["kern"], f["base"], f["idx"]])
    return out


def exec_line(runs, fs0, sched):
    return sx(["exec", enc_runs(runs), enc_fs0(fs0), list(sched)])


def enum_line(gran, runs, fs0):
    return sx(["enum", gran, enc_runs(runs), enc_fs0(fs0)])


def model_view(line):
    """Canonical view of the model's answer to an exec line."""
    top = parse_sx(line)
    sect = {s[0]: s[1:] for s in top}
    runs = []
    for lab, i, x, tag in sect["runs"]:
        if lab == "done":
            runs.append(["done", i, x, tag])
        else:
            runs.append([lab, i])
    files = {}
    for b, i, content, owner, writers in sect["files"]:
        files[f"{b}/{i}"] = [content, owner, sorted(writers)]
    trace = [[t[0]] if t[0] == "done" else [t[0], t[1]] for t in sect["trace"]]
    return {"runs": runs, "files": files, "trace": trace}


def real_view(runs, obs):
    """The same view computed from the observations of the real runs."""
    created, writers = {}, {}
    for e in obs["log"]:
        if e[0] == "created":
            created.setdefault(e[2], []).append(e[1])
        elif e[0] == "write":
            writers.setdefault(e[2], []).append(e[1])
    rv = []
    for r, run in enumerate(runs):
        out = obs["outcome"][r][0]
        st = R.parse_stem(obs["module_name"][r].lower())
        tag = st[1] if st and st[0] == run["base"] else "?"
        tag = "-" if tag is None else tag
        wrote = any(e[0] == "write" and e[1] == r for e in obs["log"])
        if out == "ok":
            rv.append(["done", tag, "wrote" if wrote else "reused", tag])
        elif out == "GenerationError":
            rv.append(["done", tag, "failed", tag])
        else:
            rv.append([out])
    files = {}
    for name, c in obs["files"].items():
        st = R.parse_stem(name[:-4]) if name.endswith(".f90") else None
        key = f"{st[0]}/{st[1]}" if st and st[1] is not None else name
        if c == "E":
            content = "E"
        elif tuple(c) == ("junk",):
            content = [R.JUNK_BODY, 0, "-"]
        else:
            k, mod, subs = c
            ms = R.parse_stem(mod)
            if ms is None or R.routine_name(*ms) not in subs:       # names inside are lower-cased by canon_text
                content = ["inconsistent-names", mod, subs]
            else:
                content = [k, ms[0], "-" if ms[1] is None else ms[1]]
        own = created.get(name, [])
        files[key] = [content, own[0] if len(own) == 1 else ("-" if not own else own),
                      sorted(writers.get(name, []))]
    trace = [[t[0]] if t[0] == "done" else [t[0], t[1]] for t in obs["trace"]]
    return {"runs": rv, "files": files, "trace": trace}


# ------------------------------------------------------------------------------------------------
# the property, evaluated on the real observations only
# ------------------------------------------------------------------------------------------------
def property_failures(runs, fs0, obs):
    """List of {clause, run?, detail}: clauses of the C29 statement that the REAL directory / kernels violate."""
    fails = []
    files = obs["files"]
    pre = set(obs["pre"])
    created, writers = {}, {}
    for e in obs["log"]:
        if e[0] == "created":
            created.setdefault(e[2], []).append(e[1])
        elif e[0] == "write":
            writers.setdefault(e[2], []).append(e[1])
    if not obs["pre_unchanged"]:
        fails.append({"clause": "pre-existing-file-modified", "detail": sorted(pre)})
    for name, ws in writers.items():
        if len(set(ws)) > 1:
            fails.append({"clause": "file-written-by-two-runs", "detail": [name, ws]})
        if name in pre:
            fails.append({"clause": "pre-existing-file-written", "detail": [name, ws]})
    for name, cs in created.items():
        if len(cs) > 1 or name in pre:
            fails.append({"clause": "existing-file-created-again", "detail": [name, cs]})
    owned = {}
    for r, run in enumerate(runs):
        out = obs["outcome"][r][0]
        mod = obs["module_name"][r].lower()
        rout = obs["routine_name"][r].lower()
        if out not in ("ok", "GenerationError"):
            fails.append({"clause": "run-did-not-finish", "run": r, "detail": obs["outcome"][r]})
            continue
        use = obs.get("psy_use", [None] * len(runs))[r]
        if out == "ok" and use is not None and use != [[mod, rout]] and use != [(mod, rout)]:
            fails.append({"clause": "psy-layer-use-mismatch", "run": r, "detail": [use, mod, rout]})
        if run["mode"] == "multiple":
            fname = mod + ".f90"         # lower case, like the keys of obs["files"]
            if out != "ok":
                fails.append({"clause": "multiple-run-raised", "run": r, "detail": obs["outcome"][r]})
                continue
            c = files.get(fname)
            if c is None:
                fails.append({"clause": "used-module-has-no-file", "run": r, "detail": fname})
                continue
            if fname in pre:
                fails.append({"clause": "run-uses-pre-existing-file", "run": r, "detail": fname})
            if c == "E" or tuple(c) == ("junk",):
                fails.append({"clause": "own-file-not-written", "run": r, "detail": [fname, c]})
            else:
                k, m, subs = c
                st, sr = R.parse_stem(m), R.parse_stem(rout[:-5] + "_mod") if rout.endswith("_code") else None
                if m != mod or rout not in subs or st is None or sr is None or st != sr:
                    fails.append({"clause": "names-do-not-match-file-name", "run": r,
                                  "detail": [fname, m, subs, mod, rout]})
                if k != run["kern"]:
                    fails.append({"clause": "file-holds-another-kernel", "run": r, "detail": [fname, k, run["kern"]]})
            if created.get(fname) != [r] or writers.get(fname, []) != [r]:
                fails.append({"clause": "file-not-created-and-written-by-its-run-only", "run": r,
                              "detail": [fname, created.get(fname), writers.get(fname)]})
            if fname in owned:
                fails.append({"clause": "two-runs-share-a-file", "run": r, "detail": [fname, owned[fname], r]})
            owned[fname] = r
        else:
            want_mod = R.mod_stem(run["base"], 0).lower()
            want_rout = R.routine_name(run["base"], 0)
            c = files.get(want_mod + ".f90")
            holds_mine = (c is not None and c != "E" and tuple(c) != ("junk",) and c[0] == run["kern"]
                          and c[1] == want_mod and want_rout in c[2])
            if out == "ok" and not holds_mine:
                fails.append({"clause": "single-run-uses-other-version", "run": r, "detail": [want_mod, c]})
            if out == "ok" and (mod != want_mod or rout != want_rout):
                fails.append({"clause": "names-do-not-match-file-name", "run": r, "detail": [mod, rout, want_mod]})
            if out == "GenerationError" and holds_mine:
                fails.append({"clause": K_REJECT, "run": r, "detail": [want_mod, c]})
    return fails


def read_before_write(obs, r):
    """Classifier of the known finding: run r read a file that another run of this experiment had created but
    not yet written (the read saw an empty file), and that run wrote it afterwards."""
    log = obs["log"]
    for pos, e in enumerate(log):
        if e[0] == "read" and e[1] == r and e[3] == 0:
            name = e[2]
            creators = [x for x in log[:pos] if x[0] == "created" and x[2] == name and x[1] != r]
            later = [x for x in log[pos:] if x[0] == "write" and x[2] == name and creators and x[1] == creators[0][1]]
            earlier = [x for x in log[:pos] if x[0] == "write" and x[2] == name]
            if creators and later and not earlier:
                return True
    return False


# ------------------------------------------------------------------------------------------------
# scenarios
# ------------------------------------------------------------------------------------------------
def run_(mode, base, kern):
    return {"mode": mode, "base": base, "kern": kern}


def pre_(base, idx, kind, kern=None):
    d = {"base": base, "idx": idx, "kind": kind}
    if kern is not None:
        d["kern"] = kern
    return d


CORE2 = [   # every atomic step is a scheduling point, ALL interleavings, both tiers
    ("multiple-2-same-module", [run_("multiple", 1, 5), run_("multiple", 1, 6)], []),
    ("single-2-identical", [run_("single", 1, 5), run_("single", 1, 5)], []),
    ("single-2-different", [run_("single", 1, 5), run_("single", 1, 6)], []),
]
MORE2 = [   # quick: all reduced interleavings + a sample of the full ones; thorough: all full ones
    ("multiple-2-identical-junk-at-0", [run_("multiple", 2, 5), run_("multiple", 2, 5)], [pre_(2, 0, "junk")]),
    ("single-2-complete-file-present", [run_("single", 1, 5), run_("single", 1, 6)], [pre_(1, 0, "render", 5)]),
    ("mixed-multiple-single", [run_("multiple", 1, 5), run_("single", 1, 5)], []),
    ("multiple-2-different-modules", [run_("multiple", 1, 5), run_("multiple", 2, 5)], []),
    ("multiple-2-empty-leftover", [run_("multiple", 3, 5), run_("multiple", 3, 6)],
     [pre_(3, 0, "empty"), pre_(3, 1, "render", 6)]),
    ("single-2-empty-leftover", [run_("single", 2, 5), run_("single", 2, 5)], [pre_(2, 0, "empty")]),
    # module name spelled TESTKERN_W3_MOD in the algorithm layer (needs fixes/C29-newname-case.patch)
    ("multiple-2-uppercase-MOD", [run_("multiple", 4, 5), run_("multiple", 4, 6)], []),
    ("single-2-uppercase-MOD", [run_("single", 4, 5), run_("single", 4, 5)], [pre_(4, 0, "render", 5)]),
]
CORE3 = [   # reduced interleavings (local steps glued to the preceding file-system step)
    ("multiple-3-same-module", [run_("multiple", 1, 5), run_("multiple", 1, 6), run_("multiple", 1, 5)], []),
    ("single-3", [run_("single", 1, 5), run_("single", 1, 5), run_("single", 1, 6)], []),
    ("mixed-3", [run_("multiple", 2, 5), run_("single", 2, 5), run_("multiple", 2, 6)], [pre_(2, 1, "junk")]),
]


def random_scenario(rng, n):
    scheme = rng.choice(["multiple", "single", "mixed"])
    bases = rng.choice([[1], [1], [2], [3], [4], [1, 2]])
    runs = []
    for _ in range(n):
        mode = scheme if scheme != "mixed" else rng.choice(["multiple", "single"])
        runs.append(run_(mode, rng.choice(bases), rng.choice([5, 6])))
    fs0, seen = [], set()
    for _ in range(rng.choice([0, 0, 1, 1, 2])):
        b, i = rng.choice(bases), rng.choice([0, 0, 1, 2])
        if (b, i) in seen:
            continue
        seen.add((b, i))
        kind = rng.choice(["junk", "empty", "render", "render"])
        fs0.append(pre_(b, i, kind, rng.choice([5, 6]) if kind == "render" else None))
    return ("random-%d" % n, runs, fs0)


def malformed_schedules(rng, n_runs, base_sched):
    """Schedules outside the enumerated maximal ones: truncated, with steps of finished runs, shuffled."""
    out = []
    s = list(base_sched)
    out.append(s[: rng.randint(0, len(s))])
    out.append(s + [rng.randrange(n_runs) for _ in range(4)])
    t = list(s)
    rng.shuffle(t)
    out.append(t)
    return out


# ------------------------------------------------------------------------------------------------
def one(chk, pool, state, name, runs, fs0, sched, fresh=False, gran="full"):
    """One experiment, first half: the real runs.  The model is consulted in `flush` (one driver call for
    all pending experiments)."""
    obs = R.Experiment(pool, runs, fs0, sched, fresh=fresh).execute()
    # the model follows the schedule actually executed: the given one plus the drain steps
    drained = list(sched)
    for r in obs["unfinished_after_schedule"]:
        drained += [r] * R.MAX_PAUSES
    state["pending"].append((name, runs, fs0, list(sched), fresh, gran, obs, exec_line(runs, fs0, drained)))
    if len(state["pending"]) >= 400:
        flush(chk, state)


def flush(chk, state):
    pend, state["pending"] = state["pending"], []
    lines = driver("C29", [p[-1] for p in pend])
    for (name, runs, fs0, sched, fresh, gran, obs, _), mline in zip(pend, lines):
        judge(chk, state, name, runs, fs0, sched, fresh, gran, obs, mline)


def judge(chk, state, name, runs, fs0, sched, fresh, gran, obs, mline):
    """Second half: real runs vs. model, then the property on the real result."""
    mv = model_view(mline)
    mv["trace"] = mv["trace"][: len(sched)]
    rv = real_view(runs, obs)
    agreed = (mv == rv)
    case = {"scenario": name, "runs": runs, "fs0": fs0, "sched": list(sched), "fresh": fresh}
    nontrivial = len(runs) >= 2 and len(set(sched)) >= 2
    chk.case({"runs": runs, "fs0": fs0, "sched": list(sched)}, nontrivial=nontrivial, agreed=agreed)
    state["dist"][name] = state["dist"].get(name, 0) + 1
    state["gran"][gran] = state["gran"].get(gran, 0) + 1
    for o in obs["outcome"]:
        state["outcomes"][o[0]] = state["outcomes"].get(o[0], 0) + 1
    if not agreed:
        state["disagree"] += 1
        if state["disagree"] <= 3:
            chk.correspondence_broken("real rename_and_write runs differ from C29.step on a schedule",
                                      case, mv, rv)
    fails = property_failures(runs, fs0, obs)
    new = []
    for f in fails:
        if f["clause"] == K_REJECT and agreed and state["known_ids"] and read_before_write(obs, f["run"]):
            state["known_hits"] += 1
        else:
            new.append(f)
    if new and state["violations"] < 3:
        state["violations"] += 1
        chk.violation({"kind": "failing-input", "scenario": name, "runs": runs, "fs0": fs0, "sched": list(sched),
                       "fresh": fresh, "observed": {"failures": new, "outcome": obs["outcome"],
                                                    "files": obs["files"], "module_name": obs["module_name"],
                                                    "log": obs["log"]},
                       "expected": "every clause of C29 holds on the real directory (see failures[].clause)",
                       "model_agrees": agreed})


def history(chk, state, name, calls):
    """One sequential history of complete runs through psyclone.generator.generate (one process)."""
    obs = H.run_history(calls)
    fails = H.history_failures(calls, obs)
    lines, index = H.model_lines(calls)
    outs = driver("C29", lines)
    diffs = []
    for line, (k, lab, sel) in zip(outs, index):
        mv, rv = H.model_view(line), H.real_view(calls, obs, k, lab, sel)
        if list(mv) != list(rv):
            diffs.append({"after_call": k - 1, "dir": lab, "model": mv, "real": rv})
    agreed = not diffs
    chk.case({"history": calls}, nontrivial=len(calls) >= 2, agreed=agreed)
    state["dist"]["history:" + name] = state["dist"].get("history:" + name, 0) + 1
    state["gran"]["history-calls"] = state["gran"].get("history-calls", 0) + len(calls)
    for o in obs:
        key = "generate:" + ("ok" if o["error"] is None else o["error"][0])
        state["outcomes"][key] = state["outcomes"].get(key, 0) + 1
    if not agreed:
        state["disagree"] += 1
        if state["disagree"] <= 3:
            chk.correspondence_broken("a history of generate() calls differs from the model run sequentially "
                                      "with the requested scheme per run", {"scenario": name, "calls": calls},
                                      diffs[0]["model"], diffs[0]["real"])
    if fails and state["violations"] < 3:
        state["violations"] += 1
        brief = [{"error": o["error"], "new": o["new"], "use": o["use"]} for o in obs]
        chk.violation({"kind": "failing-input", "family": "history", "scenario": name, "calls": calls,
                       "observed": {"failures": fails, "per_call": brief},
                       "expected": "after every generate() call every clause of C29 holds for the scheme, output "
                                   "directory and API that call REQUESTED (see failures[].clause)",
                       "model_agrees": agreed})


def schedules(runs, fs0, gran):
    line = driver("C29", [enum_line(gran, runs, fs0)])[0]
    return [list(s) if isinstance(s, list) else [s] for s in parse_sx(line)]


def run(chk):
    thorough = chk.tier == "thorough"
    chk.cov["rule"] = ("experiment = (2-3 runs with scheme/module/kernel version, initial directory, schedule) or a history "
                       "of 2-5 complete generate() calls (module, script, scheme, output directory) in one process; "
                       "non-trivial = at least two runs and the schedule interleaves at least two of them; "
                       "distinct by canonical JSON")
    chk.assumptions += [
        "os.open(O_CREAT|O_EXCL) is atomic and fails only because the file exists; one os.write of the whole text is "
        "atomic with respect to a concurrent read; nobody deletes files from the kernel-output directory",
        "os.open never returns file descriptor 0 (the loop `while not fdesc` would otherwise create a second file)",
        "threads of one process stand for separate PSyclone processes: rename_and_write shares no Python state "
        "between runs except Config, which the harness sets per run before every step",
    ]
    chk.assumptions += [
        "that a run USES the scheme / output directory / API it requested (Config is a process-wide singleton) is not "
        "a Lean theorem: it is checked end-to-end by the history family (sequences of psyclone.generator.generate "
        "calls in one process, compared with the model run with the requested scheme per run)"]
    chk.cov["trusted_base"] = [
        "Lean 4.33.0 kernel", "axioms propext/Classical.choice/Quot.sound only (audited)",
        "harness/props/c29.py + c29_real.py (scheduler, canonicalisation, property evaluation)",
        "pause points of fixes/C29-hook.patch mark the atomic steps of rename_and_write faithfully",
        "POSIX O_EXCL semantics of the file system holding the scratch directory",
    ]
    R.hooks()                  # Infra (exit 2) if the hook is not installed in the tree under test
    chk.lean()
    pool = R.Pool()
    kf = common.known_findings("C29")
    state = {"dist": {}, "gran": {}, "outcomes": {}, "disagree": 0, "violations": 0, "known_hits": 0,
             "known_ids": [e["id"] for e in kf], "pending": []}
    rng = chk.rng
    try:
        # corpus of past failures first
        for path in sorted(glob.glob(os.path.join(common.ROOT, "corpus", "C29", "*.json"))):
            c = json.load(open(path))
            if "calls" in c:
                continue        # a history, see below
            one(chk, pool, state, "corpus:" + os.path.basename(path), c["runs"], c["fs0"], c["sched"])
        # histories of complete runs through generate() in one process (Config singleton carried over)
        for path in sorted(glob.glob(os.path.join(common.ROOT, "corpus", "C29", "hist-*.json"))):
            history(chk, state, "corpus:" + os.path.basename(path), json.load(open(path))["calls"])
        hists = list(H.FIXED) + [H.random_history(rng) for _ in range(12 if thorough else 3)]
        if thorough:
            hists += H.scheme_orders(2) + H.scheme_orders(3)
        for name, calls in hists:
            history(chk, state, name, calls)
        # 2 runs, every atomic step a scheduling point, all interleavings
        for name, runs, fs0 in CORE2:
            for sched in schedules(runs, fs0, 0):
                one(chk, pool, state, name, runs, fs0, sched)
        extra2 = MORE2 + [random_scenario(rng, 2) for _ in range(4 if thorough else 2)]
        for name, runs, fs0 in extra2:
            full = schedules(runs, fs0, 0)
            if thorough and len(full) <= 1500:
                todo = [(s, "full") for s in full]
            elif thorough:
                todo = [(s, "reduced") for s in schedules(runs, fs0, 1)]
                todo += [(s, "full") for s in rng.sample(full, 1500)]
            else:
                todo = [(s, "reduced") for s in schedules(runs, fs0, 1)]
                todo += [(s, "full") for s in rng.sample(full, min(40, len(full)))]
            for sched, g in todo:
                one(chk, pool, state, name, runs, fs0, sched, gran=g)
        # 3 runs: reduced interleavings (all in the thorough tier, a sample otherwise)
        three = CORE3 + [random_scenario(rng, 3) for _ in range(2 if thorough else 1)]
        for name, runs, fs0 in three:
            red = schedules(runs, fs0, 1)
            state.setdefault("reduced3", {})[name] = len(red)
            todo = (red if len(red) <= 3000 else rng.sample(red, 3000)) if thorough else rng.sample(red, min(150, len(red)))
            for sched in todo:
                one(chk, pool, state, name, runs, fs0, sched, gran="reduced")
            # a few fully fine-grained random interleavings of three runs
            for _ in range(100 if thorough else 20):
                base = list(rng.choice(red))
                rng.shuffle(base)
                one(chk, pool, state, name, runs, fs0, base, gran="random-full")
        # schedules that are not maximal / contain steps of finished runs
        for name, runs, fs0 in CORE2 + CORE3:
            base = rng.choice(schedules(runs, fs0, 1))
            for sched in malformed_schedules(rng, len(runs), base):
                one(chk, pool, state, name + "/malformed", runs, fs0, sched, gran="malformed")
        # fresh PSyclone objects + generated PSy layer (`use <module>, only: <routine>`)
        upper = [sc for sc in MORE2 if "uppercase" in sc[0]]
        for name, runs, fs0 in upper + (CORE2 + MORE2 + CORE3)[: (12 if thorough else 4)]:
            for _ in range(4 if thorough else 1):
                sched = rng.choice(schedules(runs, fs0, 1))
                one(chk, pool, state, name + "/psy-layer", runs, fs0, sched, fresh=True, gran="reduced")
        flush(chk, state)
        # known findings: replay the witnesses against the real code
        for e in kf:
            w = e["witness"]
            obs = R.Experiment(pool, w["runs"], w["fs0"], w["sched"]).execute()
            fails = property_failures(w["runs"], w["fs0"], obs)
            if any(f["clause"] == w.get("clause", K_REJECT) for f in fails):
                chk.known(e["what"])
    finally:
        R.cleanup()
    chk.cov["distribution"] = {"scenarios": state["dist"], "granularity": state["gran"],
                               "outcomes": state["outcomes"], "reduced_interleavings_3_runs": state.get("reduced3"),
                               "known_finding_class_hits": state["known_hits"],
                               "kernel_objects_built": pool.built, "rebuilt_after_failed_reset": pool.rebuilt}
    chk.cov["exhaustive"] = ("all interleavings of the atomic steps for the 2-run core scenarios"
                             + (" and for every other 2-run scenario with at most 1500 of them; all reduced "
                                "interleavings (at most 3000 per scenario) for 3 runs" if thorough else
                                "; all reduced + a sample of the full interleavings for the other 2-run scenarios; "
                                "a sample of the reduced interleavings for 3 runs"))


def replay(payload):
    if "runs" not in payload and "calls" not in payload:
        print("nothing to replay: the file records a broken proof obligation / correspondence:")
        print(json.dumps(payload.get("broken", payload), indent=1)[:3000])
        return 1
    if "calls" in payload:
        obs = H.run_history(payload["calls"])
        fails = H.history_failures(payload["calls"], obs)
        for c, o in zip(payload["calls"], obs):
            print("call:", c, "\n   ->", "ok" if o["error"] is None else o["error"], "new files:", o["new"],
                  "PSy layer uses:", o["use"])
        print("property:", json.dumps(fails) if fails else "holds")
        want = {f["clause"] for f in payload.get("observed", {}).get("failures", [])}
        got = {f["clause"] for f in fails}
        return 1 if (got & want if want else got) else 0
    R.hooks()
    pool = R.Pool()
    try:
        obs = R.Experiment(pool, payload["runs"], payload["fs0"], payload["sched"],
                           fresh=payload.get("fresh", False)).execute()
    finally:
        R.cleanup()
    fails = property_failures(payload["runs"], payload["fs0"], obs)
    print("runs:", payload["runs"], "\nfs0:", payload["fs0"], "\nschedule:", payload["sched"])
    print("outcomes:", obs["outcome"], "\nmodule names:", obs["module_name"], "\nfiles:", obs["files"])
    print("log:", obs["log"])
    print("property:", json.dumps(fails) if fails else "holds")
    want = {f["clause"] for f in payload.get("observed", {}).get("failures", [])}
    got = {f["clause"] for f in fails}
    return 1 if (got & want if want else got) else 0
