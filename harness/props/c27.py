"""C27 — ModuleManager.sort_modules vs. Lean model C27.sortModules (exact list equality),
plus direct evaluation of the three clauses on the real output."""
import contextlib
import io
import itertools

from common import driver, sx, parse_sx

UNKNOWN = 99          # unknown (not listed) module names
UNKNOWN2 = 98
UNKNOWNS = (UNKNOWN, UNKNOWN2)


def ignore_set(graph):
    """The manager's ignore list is state that sort_modules reads (it only decides whether a warning is
    printed): derived deterministically from the map so that replays reproduce it.  UNKNOWN2 is always on
    it; for two maps in three also a pseudo-random subset of the LISTED modules and UNKNOWN."""
    import hashlib
    hsh = int(hashlib.sha256(repr(graph).encode()).hexdigest(), 16)
    ign = {UNKNOWN2}
    if hsh % 3:
        bits = hsh >> 8
        for i, name in enumerate([m for m, _ in graph] + [UNKNOWN]):
            if (bits >> i) & 1:
                ign.add(name)
    return sorted(ign)


def real_sort(graph):
    from psyclone.parse import ModuleManager
    ModuleManager._instance = None
    mm = ModuleManager.get()
    deps = {f"m{m}": {f"m{d}" for d in ds} for m, ds in graph}
    # ignore list: see ignore_set (no warning is printed for an ignored unknown name; it must be dropped
    # all the same, and an ignored LISTED module is still a known dependency)
    for i in ignore_set(graph):
        mm.add_ignore_module(f"m{i}")
    with contextlib.redirect_stdout(io.StringIO()):
        out = mm.sort_modules(deps)
    return [int(x[1:]) for x in out]


def acyclic(graph):
    keys = {m for m, _ in graph}
    g = {m: [d for d in ds if d in keys] for m, ds in graph}
    state = {}

    def visit(n):
        if state.get(n) == 1:
            return False
        if state.get(n) == 2:
            return True
        state[n] = 1
        for d in g[n]:
            if not visit(d):
                return False
        state[n] = 2
        return True
    return all(visit(n) for n in g)


def clauses(graph, out):
    """The property itself, evaluated on an output list. Returns None or a reason."""
    keys = [m for m, _ in graph]
    if sorted(out) != sorted(keys):
        return "result is not a permutation of the listed modules"
    if acyclic(graph):
        pos = {m: i for i, m in enumerate(out)}
        for m, ds in graph:
            for d in ds:
                if d in pos and not pos[d] < pos[m]:
                    return f"module {m} precedes its dependency {d}"
    return None


def exhaustive(n, unknowns=(UNKNOWN,)):
    mods = list(range(n))
    cands = mods + list(unknowns)
    subsets = [list(c) for k in range(len(cands) + 1) for c in itertools.combinations(cands, k)]
    for combo in itertools.product(subsets, repeat=n):
        yield [(m, list(ds)) for m, ds in zip(mods, combo)]


def random_graph(rng):
    n = rng.randint(4, 9)
    order = list(range(n))
    rng.shuffle(order)
    p = rng.choice([0.1, 0.25, 0.5])
    dag = rng.random() < 0.5
    g = []
    for m in order:
        ds = [d for d in range(n) if rng.random() < p and (not dag or d < m)]
        for u in UNKNOWNS:
            if rng.random() < 0.3:
                ds.append(u)
        rng.shuffle(ds)
        g.append((m, ds))
    return g


def cases(chk):
    nmax = 4 if chk.tier == "thorough" else 3
    for n in range(0, nmax + 1):
        yield from exhaustive(n)
    # two distinct unknown names (a module may have several unknown dependencies)
    for n in range(1, (3 if chk.tier == "thorough" else 2) + 1):
        yield from exhaustive(n, UNKNOWNS)
    if chk.tier != "thorough":
        pool = list(exhaustive(3, UNKNOWNS))
        for g in chk.rng.sample(pool, 3000):
            yield g
    for _ in range(60000 if chk.tier == "thorough" else 4000):
        yield random_graph(chk.rng)


def run(chk):
    chk.cov["rule"] = ("dependency maps: exhaustive over <=3 (thorough: <=4) modules with deps drawn from the modules "
                       "plus one unknown name, exhaustive <=2 (thorough <=3; quick: 3000 sampled of the 32768 on 3) modules with "
                       "two unknown names one of which is on the ignore list, then random maps on 4..9 modules (half of them DAGs); non-trivial = "
                       "at least 2 modules and at least one known dependency; distinct by canonical JSON")
    chk.cov["exhaustive"] = False
    chk.cov["rule"] += ("; the manager's ignore list (state read by sort_modules) always holds one unknown name and, for two maps "
                        "in three, a hash-derived subset of the listed modules and the other unknown name")
    chk.assumptions += ["dict keys are distinct (Python dict)", "dependency sets are modelled as duplicate-free lists"]
    chk.lean()
    batch = list(cases(chk))
    model = driver("C27", [sx([[m] + ds for m, ds in g]) for g in batch])
    n_acyclic = n_cyclic = 0
    for g, mo in zip(batch, model):
        out = real_sort(g)
        mout = parse_sx(mo)
        agreed = (mout == out)
        nontriv = len(g) >= 2 and any(d not in UNKNOWNS for _, ds in g for d in ds)
        chk.case({"graph": g, "sorted": out}, nontrivial=nontriv, agreed=agreed)
        if acyclic(g):
            n_acyclic += 1
        else:
            n_cyclic += 1
        why = clauses(g, out)
        if why:
            chk.violation({"graph": g, "observed": out, "expected": why, "kind": "failing-input"})
            return
        if not agreed:
            chk.correspondence_broken("sort_modules differs from C27.sortModules", g, mout, out)
            # the disagreeing case already satisfied the clauses: keep looking on the remaining cases
    chk.cov["distribution"] = {"acyclic": n_acyclic, "cyclic": n_cyclic}
    closure_extension(chk)


# ---------------------------------------------------------------------------------------
# Extension (outside the statement of C27, never a VIOLATION): the producer of the map,
# `ModuleManager.get_all_dependencies_recursively`, against `C27.closure`; theorems
# C27_closure_* / C27_pipeline_* in Props/C27.lean.  The pop order of the real `todo` set is
# not observable; by C27_closure_deterministic the map is independent of it, so maps are
# compared as maps and the model is run with a random oracle.
def random_world(rng):
    n = rng.randint(2, 8)
    mods = list(range(1, n + 1))
    missing = [m for m in mods if rng.random() < 0.2]          # used but no source file
    ignores = [m for m in mods if rng.random() < 0.15]
    dag = rng.random() < 0.5
    p = rng.choice([0.15, 0.3, 0.5])
    files = []
    for m in mods:
        if m in missing:
            continue
        us = [d for d in mods if rng.random() < p and (not dag or d < m)]
        rng.shuffle(us)
        files.append((m, us))
    k = rng.randint(1, min(3, n))
    init = rng.sample(mods, k)
    oracle = [rng.randint(0, 7) for _ in range(rng.randint(0, 12))]
    return {"files": files, "ignores": ignores, "init": init, "oracle": oracle}


def real_closure(world, tmp):
    import os
    from psyclone.parse import ModuleManager
    d = os.path.join(tmp, "w")
    os.makedirs(d)
    for m, us in world["files"]:
        with open(os.path.join(d, f"mod{m}.f90"), "w") as f:
            f.write(f"module mod{m}\n  use, intrinsic :: iso_c_binding\n" +
                    "".join(f"  use mod{u}\n" for u in us) + f"end module mod{m}\n")
    ModuleManager._instance = None
    try:
        mm = ModuleManager.get()
        mm.add_search_path(d)
        for i in world["ignores"]:
            mm.add_ignore_module(f"mod{i}")
        with contextlib.redirect_stdout(io.StringIO()):
            deps = mm.get_all_dependencies_recursively({f"mod{m}" for m in world["init"]})
            out = mm.sort_modules(deps)
    finally:
        ModuleManager._instance = None
        import shutil
        shutil.rmtree(d)
    return [(int(k[3:]), sorted(int(x[3:]) for x in v)) for k, v in deps.items()], [int(x[3:]) for x in out]


def pipeline_clauses(world, out):
    files = dict(world["files"])
    ign = set(world["ignores"])
    seen, todo = set(), list(world["init"])
    while todo:                                   # independent reachability
        m = todo.pop()
        if m in seen:
            continue
        seen.add(m)
        if m in files and m not in ign:
            todo += files[m]
    want = sorted(m for m in seen if m in files and m not in ign)
    if sorted(out) != want:
        return f"pipeline returned {sorted(out)}, required modules are {want}"
    g = [(m, [d for d in files[m] if d in want]) for m in want]
    if acyclic(g):
        pos = {m: i for i, m in enumerate(out)}
        for m, ds in g:
            for d in ds:
                if not pos[d] < pos[m]:
                    return f"module {m} precedes module {d} which it uses"
    return None


def closure_extension(chk):
    import tempfile
    n = 1500 if chk.tier == "thorough" else 250
    worlds = [random_world(chk.rng) for _ in range(n)]
    lines = [sx(["closure", [[m] + us for m, us in w["files"]], w["ignores"], w["init"], w["oracle"]])
             for w in worlds]
    model = driver("C27", lines)
    ext = {"cases": n, "map_agree": 0, "map_differ": [], "pipeline_clause_failures": [], "with_missing": 0,
           "with_ignored": 0, "cyclic": 0}
    with tempfile.TemporaryDirectory(prefix="c27-") as tmp:
        for w, mo in zip(worlds, model):
            rmap, rout = real_closure(w, tmp)
            mmap, _ = parse_sx(mo)
            mm = sorted((e[0], sorted(e[1:])) for e in mmap)
            if mm == sorted(rmap):
                ext["map_agree"] += 1
            elif len(ext["map_differ"]) < 5:
                ext["map_differ"].append({"world": w, "model": mm, "real": sorted(rmap)})
            why = pipeline_clauses(w, rout)
            if why and len(ext["pipeline_clause_failures"]) < 5:
                ext["pipeline_clause_failures"].append({"world": w, "out": rout, "why": why})
            present = {m for m, _ in w["files"]}
            ext["with_missing"] += any(d not in present for _, us in w["files"] for d in us)
            ext["with_ignored"] += bool(w["ignores"])
            ext["cyclic"] += not acyclic([(m, [d for d in us if d in present]) for m, us in w["files"]])
        ext["mixed_case_use"] = mixed_case_probe(tmp)
    chk.cov["closure_extension"] = ext
    if ext["map_differ"] or ext["pipeline_clause_failures"]:
        print("NOTE C27 extension (not part of the property): get_all_dependencies_recursively differs from "
              "C27.closure or the closure-then-sort pipeline fails its clauses; see evidence closure_extension")


def mixed_case_probe(tmp):
    """Observation outside the property: USE names are not lower-cased by ModuleInfo, so a module used as
    `B_Mod` is recorded as an unknown dependency and the pipeline may order it after its user."""
    import os
    import shutil
    from psyclone.parse import ModuleManager
    d = os.path.join(tmp, "mc")
    os.makedirs(d)
    open(os.path.join(d, "a_mod.f90"), "w").write("module a_mod\n use B_Mod, only: x\nend module a_mod\n")
    open(os.path.join(d, "b_mod.f90"), "w").write("module b_mod\n integer :: x\nend module b_mod\n")
    ModuleManager._instance = None
    try:
        mm = ModuleManager.get()
        mm.add_search_path(d)
        with contextlib.redirect_stdout(io.StringIO()):
            deps = mm.get_all_dependencies_recursively({"a_mod"})
            out = mm.sort_modules(deps)
    finally:
        ModuleManager._instance = None
        shutil.rmtree(d)
    return {"deps": {k: sorted(v) for k, v in deps.items()}, "sorted": out,
            "dependency_first": out.index("b_mod") < out.index("a_mod") if "b_mod" in out else None}


def replay(payload):
    g = [(m, ds) for m, ds in payload["graph"]]
    out = real_sort(g)
    why = clauses(g, out)
    print("graph:", g, "\nignore list:", ignore_set(g), "\nreal output:", out, "\nproperty:", why or "holds")
    return 1 if why else 0
