"""C27 — ModuleManager.sort_modules vs. Lean model C27.sortModules (exact list equality),
plus direct evaluation of the three clauses on the real output."""
import contextlib
import io
import itertools

from common import driver, sx, parse_sx

UNKNOWN = 99          # unknown (not listed) module names
UNKNOWN2 = 98
UNKNOWNS = (UNKNOWN, UNKNOWN2)


def real_sort(graph):
    from psyclone.parse import ModuleManager
    mm = ModuleManager.get()
    deps = {f"m{m}": {f"m{d}" for d in ds} for m, ds in graph}
    # one of the unknown names is on the module manager's ignore list (no warning printed
    # for it; it must be dropped all the same)
    mm.add_ignore_module(f"m{UNKNOWN2}")
    with contextlib.redirect_stdout(io.StringIO()):
        out = mm.sort_modules(deps)
    return [int(x[1:]) for x in out]


def acyclic(graph):
    keys = {m for m, _ in graph}
    g = {m: [d for d in ds if d in keys] for m, ds in graph}
    state = {}

    def visit(n):
        if state.get(n) == 1:
            return False
        if state.get(n) == 2:
            return True
        state[n] = 1
        for d in g[n]:
            if not visit(d):
                return False
        state[n] = 2
        return True
    return all(visit(n) for n in g)


def clauses(graph, out):
    """The property itself, evaluated on an output list. Returns None or a reason."""
    keys = [m for m, _ in graph]
    if sorted(out) != sorted(keys):
        return "result is not a permutation of the listed modules"
    if acyclic(graph):
        pos = {m: i for i, m in enumerate(out)}
        for m, ds in graph:
            for d in ds:
                if d in pos and not pos[d] < pos[m]:
                    return f"module {m} precedes its dependency {d}"
    return None


def exhaustive(n, unknowns=(UNKNOWN,)):
    mods = list(range(n))
    cands = mods + list(unknowns)
    subsets = [list(c) for k in range(len(cands) + 1) for c in itertools.combinations(cands, k)]
    for combo in itertools.product(subsets, repeat=n):
        yield [(m, list(ds)) for m, ds in zip(mods, combo)]


def random_graph(rng):
    n = rng.randint(4, 9)
    order = list(range(n))
    rng.shuffle(order)
    p = rng.choice([0.1, 0.25, 0.5])
    dag = rng.random() < 0.5
    g = []
    for m in order:
        ds = [d for d in range(n) if rng.random() < p and (not dag or d < m)]
        for u in UNKNOWNS:
            if rng.random() < 0.3:
                ds.append(u)
        rng.shuffle(ds)
        g.append((m, ds))
    return g


def cases(chk):
    nmax = 4 if chk.tier == "thorough" else 3
    for n in range(0, nmax + 1):
        yield from exhaustive(n)
    # two distinct unknown names (a module may have several unknown dependencies)
    for n in range(1, (3 if chk.tier == "thorough" else 2) + 1):
        yield from exhaustive(n, UNKNOWNS)
    if chk.tier != "thorough":
        pool = list(exhaustive(3, UNKNOWNS))
        for g in chk.rng.sample(pool, 3000):
            yield g
    for _ in range(60000 if chk.tier == "thorough" else 4000):
        yield random_graph(chk.rng)


def run(chk):
    chk.cov["rule"] = ("dependency maps: exhaustive over <=3 (thorough: <=4) modules with deps drawn from the modules "
                       "plus one unknown name, exhaustive <=2 (thorough <=3; quick: 3000 sampled of the 32768 on 3) modules with "
                       "two unknown names one of which is on the ignore list, then random maps on 4..9 modules (half of them DAGs); non-trivial = "
                       "at least 2 modules and at least one known dependency; distinct by canonical JSON")
    chk.cov["exhaustive"] = False
    chk.assumptions += ["dict keys are distinct (Python dict)", "dependency sets are modelled as duplicate-free lists"]
    chk.lean()
    batch = list(cases(chk))
    model = driver("C27", [sx([[m] + ds for m, ds in g]) for g in batch])
    n_acyclic = n_cyclic = 0
    for g, mo in zip(batch, model):
        out = real_sort(g)
        mout = parse_sx(mo)
        agreed = (mout == out)
        nontriv = len(g) >= 2 and any(d not in UNKNOWNS for _, ds in g for d in ds)
        chk.case({"graph": g, "sorted": out}, nontrivial=nontriv, agreed=agreed)
        if acyclic(g):
            n_acyclic += 1
        else:
            n_cyclic += 1
        why = clauses(g, out)
        if why:
            chk.violation({"graph": g, "observed": out, "expected": why, "kind": "failing-input"})
            return
        if not agreed:
            chk.correspondence_broken("sort_modules differs from C27.sortModules", g, mout, out)
            # the disagreeing case already satisfied the clauses: keep looking on the remaining cases
    chk.cov["distribution"] = {"acyclic": n_acyclic, "cyclic": n_cyclic}


def replay(payload):
    g = [(m, ds) for m, ds in payload["graph"]]
    out = real_sort(g)
    why = clauses(g, out)
    print("graph:", g, "\nreal output:", out, "\nproperty:", why or "holds")
    return 1 if why else 0
