"""C18 translator: tables of a live FortLineLength instance -> PsyVerif/Gen/LineLen.lean.
Characters are code points (Nat).  Line types are numbered in the order in which
_get_line_type tests them: 0 statement, 1 openmp_directive, 2 openacc_directive, 3 comment, 4 unknown."""
import re

TYPES = ["statement", "openmp_directive", "openacc_directive", "comment", "unknown"]


def codes(s):
    return "[" + ", ".join(str(ord(c)) for c in s) + "]"


def _table(name, ty, d, fmt):
    out = [f"def {name} : Nat → {ty}"]
    for i, t in enumerate(TYPES[:-1]):
        out.append(f"  | {i} => {fmt(d[t])}")
    out.append(f"  | _ => {fmt(d['unknown'])}")
    return "\n".join(out)


def regex_shape(rx):
    """Reduce a classifier regex `^\\s*<prefix>` or `^\\s*(A|B|..)` to (list of literal prefixes, ignorecase).
    Returns None when the pattern has another shape (then the table is empty and the correspondence decides)."""
    pat = rx.pattern
    if not pat.startswith(r"^\s*"):
        return None
    body = pat[len(r"^\s*"):]
    m = re.fullmatch(r"\(([A-Za-z|]+)\)", body)
    if m:
        alts = m.group(1).split("|")
    else:
        lit = body.replace(r"\$", "$")
        if re.search(r"[\\\[\](){}.*+?|^]", lit):
            return None
        alts = [lit]
    return alts, bool(rx.flags & re.I)


def tables():
    from psyclone.line_length import FortLineLength
    f = FortLineLength(132)
    t = {"cont_start": dict(f._cont_start), "cont_end": dict(f._cont_end),
         "key_lists": {k: list(v) for k, v in f._key_lists.items()}}
    for name, rx in (("stat", f._stat), ("omp", f._omp), ("acc", f._acc), ("comment", f._comment)):
        t[name] = regex_shape(rx)
    t["types"] = list(f._cont_start.keys())
    return t


def gen():
    t = tables()
    for d in ("cont_start", "cont_end", "key_lists"):
        for ty in TYPES:
            if ty not in t[d]:
                t[d][ty] = "" if d != "key_lists" else []
    L = ["/-! GENERATED on every run by harness/props/c18_gen.py from a live `FortLineLength` instance",
         "(`_cont_start`, `_cont_end`, `_key_lists`, the four classifier regexes).  Do not edit. -/",
         "namespace C18.Gen", ""]
    L.append(_table("contStart", "List Nat", t["cont_start"], codes))
    L.append("")
    L.append(_table("contEnd", "List Nat", t["cont_end"], codes))
    L.append("")
    L.append(_table("keyList", "List (List Nat)", t["key_lists"],
                    lambda ks: "[" + ", ".join(codes(k) for k in ks) + "]"))
    L.append("")
    for name in ("stat", "omp", "acc", "comment"):
        sh = t[name]
        alts, ci = sh if sh else ([], False)
        if ci:
            alts = [a.lower() for a in alts]
        L.append(f"/-- prefixes accepted (after leading white space) by the `{name}` regex"
                 + ("; compared case-insensitively, stored in lower case" if ci else "") + " -/")
        L.append(f"def {name}Prefixes : List (List Nat) := [" + ", ".join(codes(a) for a in alts) + "]")
        L.append(f"def {name}IgnoreCase : Bool := {'true' if ci else 'false'}")
        L.append("")
    L.append("end C18.Gen")
    return {"PsyVerif/Gen/LineLen.lean": "\n".join(L) + "\n"}


if __name__ == "__main__":
    import sys, os
    sys.path.insert(0, os.path.dirname(os.path.dirname(os.path.abspath(__file__))))
    import common  # noqa
    for k, v in gen().items():
        print(v)
