"""C11: PSyIR -> C11 model S-expressions (lean/PsyVerif/Model/Access.lean), flattening of the real
VariablesAccessInfo, and the independent "may read / may modify" oracle (declared intents, Fortran
standard intents of the intrinsic subroutines)."""
import minif
from minif import Unsupported

_BIN = dict(minif._BIN)
_UN = dict(minif._UN)
_INTR2 = dict(minif._INTR2)
_IDENT = set(minif._IDENT)

# Fortran 2018 (16.9): arguments of the intrinsic SUBROUTINES that are INTENT(OUT) or INTENT(INOUT),
# as (positions, keywords).  ALLOCATE/DEALLOCATE/NULLIFY are PSyclone pseudo-intrinsics: every object and
# the STAT=/ERRMSG= variables are defined by the statement.
STD_MODIFIES = {
    "ALLOCATE": ("all", {"stat", "errmsg"}),
    "DEALLOCATE": ("all", {"stat", "errmsg"}),
    "NULLIFY": ("all", set()),
    "CPU_TIME": ([0], {"time"}),
    "DATE_AND_TIME": ([0, 1, 2, 3], {"date", "time", "zone", "values"}),
    "EXECUTE_COMMAND_LINE": ([2, 3, 4], {"exitstat", "cmdstat", "cmdmsg"}),
    "GET_COMMAND": ([0, 1, 2, 3], {"command", "length", "status", "errmsg"}),
    "GET_COMMAND_ARGUMENT": ([1, 2, 3, 4], {"value", "length", "status", "errmsg"}),
    "GET_ENVIRONMENT_VARIABLE": ([1, 2, 3, 5], {"value", "length", "status", "errmsg"}),
    "MOVE_ALLOC": ([0, 1, 2, 3], {"from", "to", "stat", "errmsg"}),
    "MVBITS": ([3], {"to"}),
    "RANDOM_NUMBER": ([0], {"harvest"}),
    "RANDOM_SEED": ([0, 2], {"size", "get"}),
    "SYSTEM_CLOCK": ([0, 1, 2], {"count", "count_rate", "count_max"}),
    "EVENT_QUERY": ([1, 2], {"count", "stat"}),
}


def sig_indices(node):
    """(signature string, list of index lists per component) computed from the tree (not through
    get_signature_and_indices)."""
    from psyclone.psyir import nodes as N
    from psyclone.psyir.nodes.array_mixin import ArrayMixin
    parts, idx = [node.name.lower()], [list(node.indices) if isinstance(node, ArrayMixin) else []]
    cur = node
    while isinstance(cur, (N.StructureReference, N.StructureMember)):
        cur = cur.member
        parts.append(cur.name.lower())
        idx.append(list(cur.indices) if isinstance(cur, ArrayMixin) else [])
    return "%".join(parts), idx



def local_callee(call):
    """Routine that defines the callee when it is in the same Container and the routine symbol is local to
    it (not imported, not unresolved); else None."""
    from psyclone.psyir import nodes as N
    from psyclone.psyir.symbols import DefaultModuleInterface
    if not isinstance(call.routine, N.Reference):
        return None
    if not isinstance(call.routine.symbol.interface, DefaultModuleInterface):
        return None
    cont = call.ancestor(N.Container)
    if cont is None:
        return None
    name = call.routine.name.lower()
    for r in cont.walk(N.Routine):
        if r.name.lower() == name:
            return r
    return None


def local_mods(call):
    """'n' or the bit mask of the argument positions whose dummy (of the locally defined callee) is not INTENT(IN)"""
    from psyclone.psyir.symbols import ArgumentInterface
    r = local_callee(call)
    if r is None:
        return "n"
    dummies = r.symbol_table.argument_list
    mask = 0
    for pos, kw in enumerate(call.argument_names):
        if kw:
            m = [d for d in dummies if d.name.lower() == kw.lower()]
        else:
            m = dummies[pos:pos + 1]
        if m and m[0].interface.access != ArgumentInterface.Access.READ:
            mask |= 1 << pos
    return mask


def codeblock_names(node):
    """(may_read, may_define) data-variable names of a CodeBlock, from its fparser2 parse tree: every Name that
    resolves to a DataSymbol is read unless all its occurrences are bare definition targets (assignment LHS, READ
    input items); defined: assignment targets, READ items, actual arguments of CALLs, ALLOCATE objects."""
    from fparser.two import Fortran2003 as F
    from fparser.two.utils import walk
    from psyclone.psyir.symbols import DataSymbol
    total, bare_def, defs = {}, {}, set()

    def names_in(x):
        if x is None:
            return []
        return [n.string.lower() for n in walk(x, F.Name)]

    def target(x):
        if isinstance(x, F.Name):
            bare_def[x.string.lower()] = bare_def.get(x.string.lower(), 0) + 1
            defs.add(x.string.lower())
        elif x is not None:
            ns = names_in(x)
            if ns:
                defs.add(ns[0])

    for ast in node.get_ast_nodes:
        for n in names_in(ast):
            total[n] = total.get(n, 0) + 1
        for a in walk(ast, F.Assignment_Stmt):
            target(a.items[0])
        for r in walk(ast, F.Read_Stmt):
            items = r.items[2]
            if items is not None:
                for it in (items.items if hasattr(items, "items") and not isinstance(items, F.Name) and
                           type(items).__name__.endswith("_List") else [items]):
                    target(it)
        for wst in walk(ast, F.Write_Stmt):
            # an internal WRITE defines the character variable that is its unit
            ctl = wst.items[0]
            first = ctl.items[0] if ctl is not None and hasattr(ctl, "items") and ctl.items else None
            ns = names_in(first)
            if ns:
                try:
                    from psyclone.psyir.symbols import ScalarType
                    dt = node.scope.symbol_table.lookup(ns[0]).datatype
                    if getattr(dt, "intrinsic", None) == ScalarType.Intrinsic.CHARACTER:
                        defs.add(ns[0])
                except (KeyError, AttributeError):
                    pass
        for c in walk(ast, F.Call_Stmt):
            args = c.items[1]
            if args is not None:
                for it in (args.items if type(args).__name__.endswith("_List") else [args]):
                    if isinstance(it, (F.Name, F.Part_Ref, F.Data_Ref)):
                        ns = names_in(it)
                        if ns:
                            defs.add(ns[0])
        for al in walk(ast, (F.Allocate_Stmt, F.Deallocate_Stmt, F.Nullify_Stmt)):
            for it in walk(al, (F.Allocation, F.Allocate_Object_List, F.Pointer_Object_List)):
                ns = names_in(it)
                if ns:
                    defs.add(ns[0])

    def is_data(n):
        try:
            return isinstance(node.scope.symbol_table.lookup(n), DataSymbol)
        except KeyError:
            return False
    rd = {n for n, k in total.items() if is_data(n) and bare_def.get(n, 0) < k}
    wr = {n for n in defs if is_data(n)}
    return rd, wr


_DESIGNATORS = ("Name", "Part_Ref", "Data_Ref", "Array_Section", "Substring", "Structure_Component",
                "Data_Pointer_Object", "Proc_Component_Ref")


def codeblock_expr_info(node):
    """(names, may_read, designated) of an EXPRESSION CodeBlock.  `names`: every fparser2 Name of the text in walk
    order (what get_symbol_names returns, lower case); `may_read`: the names that resolve to a DataSymbol, minus
    the variables of implied-DO loops of array constructors (they are local to the constructor); `designated`: when
    the text is a variable designator (sub-string of an array element `names(k)(1:3)`, a component chain the
    frontend does not support, ...) the base variable: passed as an actual argument it is definable by the callee."""
    from fparser.two import Fortran2003 as F
    from fparser.two.utils import walk
    from psyclone.psyir.symbols import DataSymbol
    asts = node.get_ast_nodes
    names = [n.string.lower() for n in walk(asts, F.Name)]
    implied = set()
    for ctl in walk(asts, (F.Ac_Implied_Do_Control, F.Data_Implied_Do)):
        ns = [n.string.lower() for n in walk(ctl, F.Name)]
        if ns:
            implied.add(ns[0])

    def is_data(n):
        try:
            return isinstance(node.scope.symbol_table.lookup(n), DataSymbol)
        except KeyError:
            return False
    rd = {n for n in names if is_data(n) and n not in implied}
    dv = None
    if len(asts) == 1 and type(asts[0]).__name__ in _DESIGNATORS and names and names[0] in rd:
        dv = names[0]
    return names, rd, dv


def cb_subs(rd, dv):
    """variables read to locate the object a designator CodeBlock designates (subscripts, sub-string bounds)"""
    return {n for n in rd if n != dv}


def is_expr_codeblock(node):
    from psyclone.psyir import nodes as N
    return isinstance(node, N.CodeBlock) and not isinstance(node.parent, N.Schedule)


class Exporter:
    """One exporter per statement: keeps the name table, call-site table and whether the statement can be
    executed by the tracing semantics (`dynamic`)."""

    def __init__(self, names=None):
        self.names = names or minif.Names()
        self.dynamic = True
        self.sites = []          # call nodes, index = site id
        self.has_exprcb = False
        self._ids = None

    def intrinsic_id(self, intrinsic):
        if self._ids is None:
            from props import c11_gen
            self._ids = c11_gen.intrinsic_ids()
        return self._ids[intrinsic.name]

    def site(self, node):
        self.sites.append(node)
        return len(self.sites) - 1

    # -- expressions ---------------------------------------------------
    def ref(self, node):
        from psyclone.psyir import nodes as N
        sig, idx = sig_indices(node)
        flat = [i for comp in idx for i in comp]
        vid = self.names.id(sig)
        if not flat:
            return ["var", vid]
        has_range = any(isinstance(i, N.Range) for i in flat)
        es = [self.expr(i) for i in flat]
        if not has_range and len(flat) <= 2:
            return [f"idx{len(flat)}", vid] + es
        self.dynamic = False
        return ["idxs", vid, len(flat)] + es

    def expr(self, node):
        from psyclone.psyir import nodes as N
        if isinstance(node, N.Literal):
            try:
                return minif.export_expr(node, self.names)
            except Unsupported:
                self.dynamic = False
                return ["lit", 0]
        if isinstance(node, N.Range):
            return ["tup"] + [self.expr(c) for c in node.children]
        if isinstance(node, N.IntrinsicCall):
            name = node.intrinsic.name.upper()
            nargs = len(node.arguments)
            if not any(node.argument_names):
                if name in _INTR2 and nargs >= 2 and (name in ("MIN", "MAX") or nargs == 2):
                    args = [self.expr(a) for a in node.arguments]
                    out = args[0]
                    for a in args[1:]:
                        out = ["bin", _INTR2[name], out, a]
                    return out
                if name == "ABS" and nargs == 1:
                    return ["un", "abs", self.expr(node.arguments[0])]
                if name in _IDENT and nargs == 1:
                    return ["un", "plus", self.expr(node.arguments[0])]
            return ["intr", self.intrinsic_id(node.intrinsic)] + [self.expr(a) for a in node.arguments]
        if isinstance(node, N.Call):
            return ["fcall", 1 if node.is_pure else 0, self.site(node)] + [self.expr(a) for a in node.arguments]
        if isinstance(node, N.BinaryOperation):
            op = node.operator.name
            if op not in _BIN:
                self.dynamic = False
            return ["bin", _BIN.get(op, "add"), self.expr(node.children[0]), self.expr(node.children[1])]
        if isinstance(node, N.UnaryOperation):
            op = node.operator.name
            if op not in _UN:
                self.dynamic = False
            return ["un", _UN.get(op, "plus"), self.expr(node.children[0])]
        if isinstance(node, N.Reference):
            return self.ref(node)
        if isinstance(node, N.CodeBlock):
            names, rd, dv = codeblock_expr_info(node)
            self.has_exprcb = True
            return ["cb", self.site(node), [self.names.id(n) for n in names], sorted(self.names.id(n) for n in rd),
                    "n" if dv is None else self.names.id(dv)]
        raise Unsupported(type(node).__name__)

    # -- statements ----------------------------------------------------
    def stmts(self, nodes):
        return ["seqs"] + [self.stmt(c) for c in nodes]

    def stmt(self, node):
        from psyclone.psyir import nodes as N
        if isinstance(node, N.Assignment):
            if not isinstance(node.lhs, N.Reference):
                raise Unsupported("lhs " + type(node.lhs).__name__)
            return ["asg", self.ref(node.lhs), self.expr(node.rhs)]
        if isinstance(node, N.IfBlock):
            c, t = self.expr(node.condition), self.stmts(node.if_body.children)
            if node.else_body is None:
                return ["ifthen", c, t]
            return ["ite", c, t, self.stmts(node.else_body.children)]
        if type(node) is N.Loop:
            return ["loop", self.names.id(node.variable.name), self.expr(node.start_expr), self.expr(node.stop_expr),
                    self.expr(node.step_expr), self.stmts(node.loop_body.children)]
        if isinstance(node, N.IntrinsicCall):
            if not isinstance(node.parent, N.Schedule):
                raise Unsupported("intrinsic statement outside a Schedule")
            return ["icall", self.intrinsic_id(node.intrinsic), self.site(node)] + [self.expr(a) for a in node.arguments]
        if type(node) is N.Call:
            if not isinstance(node.parent, N.Schedule):
                raise Unsupported("call statement outside a Schedule")
            return (["call", 1 if node.is_pure else 0, local_mods(node), self.site(node)]
                    + [self.expr(a) for a in node.arguments])
        if isinstance(node, N.WhileLoop):
            return ["while", self.expr(node.condition), self.stmts(node.loop_body.children)]
        if isinstance(node, N.Return):
            return ["ret"]
        if isinstance(node, N.CodeBlock):
            from fparser.two import Fortran2003 as F
            from fparser.two.utils import walk
            rd, wr = codeblock_names(node)
            names = [self.names.id(n.string.lower()) for n in walk(node.get_ast_nodes, F.Name)]
            return ["opaque", self.site(node), names, sorted(self.names.id(n) for n in rd),
                    sorted(self.names.id(n) for n in wr)]
        raise Unsupported(type(node).__name__)


# ---------------------------------------------------------------------------
_KIND = {"READ": "R", "WRITE": "W", "READWRITE": "RW"}


def flatten_real(node, names):
    """VariablesAccessInfo(node) -> ({var id: [(kind, location, nidx)]}, end location) or ('raise', class)."""
    from psyclone.core import VariablesAccessInfo
    try:
        vai = VariablesAccessInfo(node)
    except NotImplementedError:
        return "raise", None
    out = {}
    for sig in vai.all_signatures:
        accs = []
        for a in vai[sig].all_accesses:
            nidx = sum(len(c) for c in a.component_indices.indices_lists)
            accs.append([_KIND.get(a.access_type.name, a.access_type.name), a.location, nidx])
        out[names.id(str(sig).lower())] = accs
    return out, vai.location


def reported_sets(flat):
    rd = {v for v, accs in flat.items() if any(k in ("R", "RW") for k, _, _ in accs)}
    wr = {v for v, accs in flat.items() if any(k in ("W", "RW") for k, _, _ in accs)}
    return rd, wr


def project_model(line):
    """driver `(acc ..)` answer -> ({var: [(kind, loc, nidx)]}, end location) | ('raise', None)"""
    import common
    if line == "none":
        return "raise", None
    if not line.startswith("("):
        raise common.Infra("C11 driver: " + line)
    t = common.parse_sx(line)
    out = {}
    for v, k, l, n in t[1:]:
        out.setdefault(v, []).append([k, l, n])
    return out, t[0]


# ---------------------------------------------------------------------------
# independent oracle: what a statement may read / may modify
def _callee_intents(call):
    """list of intents ('in','out','inout',None=unknown) per positional argument, or None if the callee is
    not available; named arguments -> matched by name."""
    from psyclone.psyir.symbols import ArgumentInterface
    from psyclone.psyir import nodes as N
    name = call.routine.name.lower()
    root = call.root
    target = None
    for r in root.walk(N.Routine):
        if r.name.lower() == name:
            target = r
            break
    if target is None:
        return None
    dummies = target.symbol_table.argument_list
    res = []
    acc = {ArgumentInterface.Access.READ: "in", ArgumentInterface.Access.WRITE: "out",
           ArgumentInterface.Access.READWRITE: "inout", ArgumentInterface.Access.UNKNOWN: None}
    byname = {d.name.lower(): acc.get(d.interface.access) for d in dummies}
    for pos, (arg, kw) in enumerate(zip(call.arguments, call.argument_names)):
        if kw:
            res.append(byname.get(kw.lower()))
        elif pos < len(dummies):
            res.append(acc.get(dummies[pos].interface.access))
        else:
            res.append(None)
    return res


def _base_var(ref):
    return sig_indices(ref)[0]


def may_sets(node):
    """(may_read, may_write) signature-name sets of ONE statement node (recursively for compound
    statements), from the tree, declared intents and the standard.  Only *certain* requirements are
    listed: `may_write` contains a variable only if some execution can modify it under the declared
    interface (INTENT(IN) dummies and arguments of functions known PURE are excluded)."""
    from psyclone.psyir import nodes as N
    rd, wr = set(), set()

    def designated(arg):
        """base variable of an actual argument that is a variable (a Reference, or an expression CodeBlock whose
        text is a designator), else None"""
        if isinstance(arg, N.Reference):
            return _base_var(arg)
        if isinstance(arg, N.CodeBlock):
            return codeblock_expr_info(arg)[2]
        return None

    def reads_of(e, skip_value=False):
        """variables whose value evaluation of expression e reads"""
        if isinstance(e, N.CodeBlock):
            _, crd, cdv = codeblock_expr_info(e)
            rd.update(cb_subs(crd, cdv) if skip_value else crd)
            return
        if isinstance(e, N.IntrinsicCall):
            args = list(e.arguments)
            if e.intrinsic.is_inquiry and args:
                # the inquired object is not read, but its subscripts are evaluated
                first = args[0]
                if isinstance(first, N.Reference):
                    for comp in sig_indices(first)[1]:
                        for i in comp:
                            reads_of(i)
                elif isinstance(first, N.CodeBlock):
                    reads_of(first, skip_value=True)
                else:
                    reads_of(first)
                args = args[1:]
            for a in args:
                reads_of(a)
            return
        if isinstance(e, N.Call):
            call_effects(e, statement=False)
            return
        if isinstance(e, N.Reference):
            if not skip_value:
                rd.add(_base_var(e))
            for comp in sig_indices(e)[1]:
                for i in comp:
                    reads_of(i)
            return
        for c in e.children:
            reads_of(c)

    def call_effects(call, statement):
        intents = _callee_intents(call)
        pure_fn = bool(call.is_pure) and not statement
        for pos, arg in enumerate(call.arguments):
            it = intents[pos] if intents is not None else None
            base = designated(arg)
            if base is not None:
                if it == "in" or (it is None and pure_fn):
                    reads_of(arg)
                elif it == "out":
                    wr.add(base)
                    reads_of(arg, skip_value=True)
                else:   # inout or unknown interface: may be read and may be modified
                    reads_of(arg)
                    if not pure_fn:
                        wr.add(base)
            else:
                reads_of(arg)

    def intrinsic_stmt(node):
        name = node.intrinsic.name.upper()
        pos_mod, kw_mod = STD_MODIFIES.get(name, ("all", set()))
        npos = 0
        for arg, kw in zip(node.arguments, node.argument_names):
            if kw:
                modified = kw.lower() in kw_mod
            else:
                modified = pos_mod == "all" or npos in pos_mod
                npos += 1
            if designated(arg) is not None and modified:
                wr.add(designated(arg))
                reads_of(arg, skip_value=True)
            else:
                reads_of(arg)

    def stmt(n):
        if isinstance(n, N.Assignment):
            reads_of(n.rhs)
            wr.add(_base_var(n.lhs))
            reads_of(n.lhs, skip_value=True)
        elif isinstance(n, N.IfBlock):
            reads_of(n.condition)
            for c in n.if_body.children:
                stmt(c)
            if n.else_body is not None:
                for c in n.else_body.children:
                    stmt(c)
        elif type(n) is N.Loop:
            wr.add(n.variable.name.lower())
            for e in (n.start_expr, n.stop_expr, n.step_expr):
                reads_of(e)
            for c in n.loop_body.children:
                stmt(c)
        elif isinstance(n, N.IntrinsicCall):
            intrinsic_stmt(n)
        elif type(n) is N.Call:
            call_effects(n, statement=True)
        elif isinstance(n, N.WhileLoop):
            reads_of(n.condition)
            for c in n.loop_body.children:
                stmt(c)
        elif isinstance(n, N.Return):
            pass
        elif isinstance(n, N.CodeBlock):
            r, w = codeblock_names(n)
            rd.update(r)
            wr.update(w)
        else:
            raise Unsupported(type(n).__name__)

    stmt(node)
    return rd, wr


def site_masks(sites):
    """per call site: bit mask of the argument positions the callee may store into (declared INTENT(OUT/INOUT)
    or unknown interface; the standard's table for intrinsic subroutines)"""
    from psyclone.psyir import nodes as N
    out = []
    for k, call in enumerate(sites):
        mask = 0
        if isinstance(call, N.CodeBlock):
            out.append([k, 2 ** 62 - 1])
            continue
        if isinstance(call, N.IntrinsicCall):
            pos_mod, kw_mod = STD_MODIFIES.get(call.intrinsic.name.upper(), ("all", set()))
            npos = 0
            for p, (arg, kw) in enumerate(zip(call.arguments, call.argument_names)):
                if kw:
                    m = kw.lower() in kw_mod
                else:
                    m = pos_mod == "all" or npos in pos_mod
                    npos += 1
                if m:
                    mask |= 1 << p
        else:
            intents = _callee_intents(call)
            for p in range(len(call.arguments)):
                it = intents[p] if intents is not None else None
                if it != "in":
                    mask |= 1 << p
        out.append([k, mask])
    return out
