"""C04 — merge / rename families with CodeBlocks (names that a rename cannot update).

Family I (InlineTrans): generated module with a caller whose locals are printed by WRITE statements
(CodeBlocks) under mixed / upper-case spellings, at routine level and inside an IF, and a callee that
imports or declares symbols of the same names; the call may sit inside an IF (then the clash is only
resolved by routine_node's inner-scope merging at write time).  Property: the transformation is
refused, or the written code compiles with -fimplicit-none AND prints what the original prints, and
every CodeBlock name still resolves to the symbol object it resolved to before.
Family R (routine_node): a routine with nested IF scopes and WRITE statements; inner-scope symbols
with clashing names are added through the API; the writer's merge is run in place so that object
identity can be compared.
Tie: `SymbolTable.merge` (accept/refuse, final name of every symbol object) against
`Decls.mergeScopes` with the CodeBlock names of every scope (`mergecb` command of the C04 driver)."""
import os
import random
import shutil
import subprocess
import tempfile

import common
from common import driver, sx, parse_sx

POOL = ["tmp", "val", "cnt"]
DATA_MOD = """module data_mod
  implicit none
  integer :: tmp = 100, val = 200, cnt = 300
end module data_mod
"""
MAIN = """program main
  use work_mod, only: driver
  implicit none
  integer :: a
  a = 1
  call driver(a)
  write(*,*) "final", a
end program main
"""


def spell(rng, n):
    return rng.choice([n, n, n.capitalize(), n.upper(), n[0] + n[1:].upper()])


def codes(s):
    return [ord(c) for c in s]


def uncodes(l):
    return "".join(chr(c) for c in l)


# --------------------------------------------------------------------------- family I
def inline_source(rng):
    callee = {n: rng.choice(["import", "import", "local", None]) for n in POOL}
    caller = {n: rng.choice(["local", "local", "import", None]) for n in POOL}
    call_in_if = rng.random() < 0.3
    imp = [n for n in POOL if callee[n] == "import"]
    loc = [n for n in POOL if callee[n] == "local"]
    b = ["  subroutine bump(x)"]
    if imp:
        b.append("    use data_mod, only: " + ", ".join(imp))
    b.append("    integer, intent(inout) :: x")
    for i, n in enumerate(loc):
        b.append(f"    integer :: {n}")
    for i, n in enumerate(loc):
        b.append(f"    {n} = {i + 2}")
    b.append("    x = x + 1" + "".join(f" + {n}" for n in imp + loc))
    b.append("  end subroutine bump")
    cimp = [n for n in POOL if caller[n] == "import"]
    cloc = [n for n in POOL if caller[n] == "local"]
    d = ["  subroutine driver(a)"]
    if cimp:
        d.append("    use data_mod, only: " + ", ".join(cimp))
    d.append("    integer, intent(inout) :: a")
    for n in cloc:
        d.append(f"    integer :: {n}")
    for i, n in enumerate(cloc):
        d.append(f"    {n} = {5 + 2 * i}")
    if call_in_if:
        d += ["    if (a > 0) then", "      call bump(a)"]
        if rng.random() < 0.5 and (cloc or cimp):
            d.append("      WRITE(*,*) \"near\", " + ", ".join(spell(rng, n) for n in rng.sample(cloc + cimp, 1)))
        d.append("    end if")
    else:
        d.append("    call bump(a)")
    d.append("    a = a" + "".join(f" + {n}" for n in cloc + cimp))
    mention = [n for n in cloc + cimp if rng.random() < 0.6]
    if mention and rng.random() < 0.5:
        k = rng.choice(mention)
        d += ["    if (a > 0) then", f"      WRITE(*,*) \"inner\", {spell(rng, k)}", "    end if"]
    if mention:
        d.append("    WRITE(*,*) \"outer\", " + ", ".join(spell(rng, n) for n in mention) + ", a")
    d.append("  end subroutine driver")
    src = "module work_mod\n  implicit none\ncontains\n" + "\n".join(b) + "\n" + "\n".join(d) + "\nend module work_mod\n"
    return src, {"callee": callee, "caller": caller, "call_in_if": call_in_if}


def build_run(work_src):
    """-> (status, stdout/diagnostics)"""
    if shutil.which("gfortran") is None:
        raise common.Infra("gfortran not available")
    d = tempfile.mkdtemp(prefix="psyverif-c04-")
    try:
        with open(os.path.join(d, "p.f90"), "w") as f:
            f.write(DATA_MOD + work_src + MAIN)
        p = subprocess.run(["gfortran", "-fimplicit-none", "-O0", "p.f90", "-o", "p.x"], cwd=d,
                           stdout=subprocess.PIPE, stderr=subprocess.STDOUT, text=True, timeout=120)
        if p.returncode != 0:
            return "compile-error", p.stdout[:1500]
        q = subprocess.run(["./p.x"], cwd=d, stdout=subprocess.PIPE, stderr=subprocess.STDOUT, text=True, timeout=30)
        return ("ok" if q.returncode == 0 else "run-error"), " ".join(q.stdout.split())
    finally:
        shutil.rmtree(d, ignore_errors=True)


def cb_resolution(routine):
    """[(codeblock index, name as spelt, symbol object or None)] innermost-first lookup"""
    from psyclone.psyir.nodes import CodeBlock
    out = []
    for i, cb in enumerate(routine.walk(CodeBlock)):
        for name in cb.get_symbol_names():
            try:
                sym = cb.scope.symbol_table.lookup(name)
            except KeyError:
                sym = None
            out.append((i, name, sym))
    return out


def cb_names(node):
    from psyclone.psyir.nodes import CodeBlock
    out = []
    for cb in node.walk(CodeBlock):
        out += list(cb.get_symbol_names())
    return out


def kind_of(sym):
    from psyclone.psyir.symbols import ContainerSymbol
    if isinstance(sym, ContainerSymbol) or sym.is_import or sym.is_unresolved:
        return "shared"
    if sym.is_argument or getattr(sym, "is_commonblock", False):
        return "fixed"
    return "free"


def outer_names(table):
    names = []
    t = table.parent_symbol_table()
    while t is not None:
        names += [s.name.lower() for s in t.symbols]
        t = t.parent_symbol_table()
    return names


def merge_tie(self_table, other_table, skip, cb_other):
    """run the real `self_table.merge(other_table, skip)` and build the model line.
    -> (model line, real result {id: name} or None, ids)"""
    from psyclone.psyir.symbols import SymbolError
    ids = {}

    def sid(s):
        return ids.setdefault(id(s), len(ids))
    cb_self = cb_names(self_table.node) if self_table.node is not None else []
    selfx = [[sid(s), codes(s.name.lower()), kind_of(s), []] for s in self_table.symbols]
    otherx = [[sid(s), codes(s.name.lower()), kind_of(s), [codes(c) for c in cb_other]]
              for s in other_table.symbols if not any(s is k for k in skip)]
    objs = list(self_table.symbols) + [s for s in other_table.symbols if not any(s is k for k in skip)]
    line = sx(["mergecb", [codes(n) for n in dict.fromkeys(outer_names(self_table))],
               [codes(c) for c in cb_self], selfx, [otherx]])
    try:
        self_table.merge(other_table, symbols_to_skip=skip)
        real = {ids[id(s)]: s.name.lower() for s in objs if any(s is t for t in self_table.symbols)}
    except SymbolError:
        real = None
    return line, real


def inline_case(src):
    """-> dict with status and everything needed to judge"""
    from psyclone.psyir.frontend.fortran import FortranReader
    from psyclone.psyir.backend.fortran import FortranWriter
    from psyclone.psyir.nodes import Routine, Call
    from psyclone.psyir.transformations import InlineTrans, TransformationError
    res = {"src": src}
    # --- tie at the level of SymbolTable.merge, on a separate parse
    p0 = FortranReader().psyir_from_source(src)
    drv0 = [r for r in p0.walk(Routine) if r.name == "driver"][0]
    bump0 = [r for r in p0.walk(Routine) if r.name == "bump"][0]
    call0 = drv0.walk(Call)[0]
    rcopy = bump0.copy()
    skip = InlineTrans()._symbols_to_skip(rcopy.symbol_table)
    res["line"], res["real_merge"] = merge_tie(call0.scope.symbol_table, rcopy.symbol_table, skip, cb_names(rcopy))
    # --- the transformation itself
    psyir = FortranReader().psyir_from_source(src)
    drv = [r for r in psyir.walk(Routine) if r.name == "driver"][0]
    call = drv.walk(Call)[0]
    before = cb_resolution(drv)
    routine_level = call.scope is drv
    try:
        InlineTrans().apply(call)
    except TransformationError as e:
        res["status"] = "refused"
        res["detail"] = str(e.value)[:200]
        return res
    except Exception as e:      # apply() gave up after validate() accepted: nothing is written
        res["status"] = "apply-crashed"
        res["detail"] = f"{type(e).__name__}: {str(e)[:200]}"
        return res
    res["status"] = "accepted"
    res["capture"] = None
    if routine_level:
        after = cb_resolution(drv)
        for (i, n, s0), (_j, _m, s1) in zip(before, after):
            if s0 is not None and s1 is not s0:
                res["capture"] = (f"'{n}' in CodeBlock {i} referred to '{s0.name}' ({s0.interface}) of the caller "
                                  f"before the transformation and now resolves to "
                                  f"'{getattr(s1, 'name', None)}' ({getattr(s1, 'interface', None)})")
                break
    try:
        res["text"] = FortranWriter()(psyir)
    except Exception as e:
        res["status"] = "writer-refused"
        res["detail"] = f"{type(e).__name__}: {str(e)[:200]}"
        return res
    res["orig_run"] = build_run(src)
    res["new_run"] = build_run(res["text"])
    return res


# --------------------------------------------------------------------------- family R
def routine_source(rng):
    locs = [n for n in POOL if rng.random() < 0.7] or ["tmp"]
    host = [n for n in POOL if n not in locs and rng.random() < 0.5]
    lines = ["module rmod", "  implicit none"] + [f"  integer :: {h} = 9" for h in host] + \
            ["contains", "  subroutine rsub(a)", "    integer, intent(inout) :: a"]
    lines += [f"    integer :: {n}" for n in locs]
    lines += [f"    {n} = {i + 1}" for i, n in enumerate(locs)]
    nif = rng.randint(1, 2)
    for k in range(nif):
        lines += ["    if (a > 0) then", "      a = a + 1"]
        if rng.random() < 0.7:
            lines.append("      WRITE(*,*) \"in\", " + spell(rng, rng.choice(locs + host)))
        if rng.random() < 0.4:
            lines += ["      if (a > 1) then", "        a = a + 2",
                      "        WRITE(*,*) \"deep\", " + spell(rng, rng.choice(locs + host)), "      end if"]
        lines.append("    end if")
    if rng.random() < 0.8:
        lines.append("    WRITE(*,*) \"out\", " + ", ".join(spell(rng, n) for n in rng.sample(locs, rng.randint(1, len(locs)))))
    lines += ["  end subroutine rsub", "end module rmod"]
    return "\n".join(lines) + "\n", {"locals": locs, "host": host}


def routine_case(src, rng):
    from psyclone.psyir.frontend.fortran import FortranReader
    from psyclone.psyir.backend.fortran import FortranWriter
    from psyclone.psyir.nodes import Routine, Schedule, IfBlock
    from psyclone.psyir.symbols import DataSymbol, INTEGER_TYPE, SymbolError
    psyir = FortranReader().psyir_from_source(src)
    rout = psyir.walk(Routine)[0]
    added = []
    for ib in rout.walk(IfBlock):
        for nm in rng.sample(POOL + ["tmp_1", "val_1"], rng.randint(0, 2)):
            try:
                ib.if_body.symbol_table.add(DataSymbol(nm, INTEGER_TYPE))
                added.append(nm)
            except KeyError:
                pass
    res = {"src": src, "added": added}
    before = cb_resolution(rout)
    # model line: tables in walk(Schedule) order, every symbol with the CodeBlock names of its scope
    ids = {}

    def sid(s):
        return ids.setdefault(id(s), len(ids))
    scheds = rout.walk(Schedule)
    try:
        own = rout.symbol_table.lookup_with_tag("own_routine_symbol")
    except KeyError:
        own = None
    tabs, objs = [], []
    for sc in scheds:
        cbn = [codes(c) for c in cb_names(sc)]
        row = []
        for s in sc.symbol_table.symbols:
            if s is own:
                continue
            row.append([sid(s), codes(s.name.lower()), kind_of(s), cbn])
            objs.append(s)
        tabs.append(row)
    outer = dict.fromkeys(outer_names(rout.symbol_table))
    res["line"] = sx(["mergecb", [codes(n) for n in outer], [codes(c) for c in cb_names(rout)], tabs[0], tabs[1:]])
    try:
        text = FortranWriter().routine_node(rout)     # in place: object identity is kept
    except Exception as e:
        if not (isinstance(e, SymbolError) or type(e).__name__ in ("VisitorError", "SymbolError")):
            raise
        res["status"] = "refused"
        res["real_merge"] = None
        return res
    res["status"] = "merged"
    res["text"] = text
    merged = rout.symbol_table
    res["real_merge"] = {ids[id(s)]: s.name.lower() for s in objs if any(s is t for t in merged.symbols)}
    res["capture"] = None
    for (i, n, s0) in before:
        if s0 is None:
            continue
        try:
            s1 = merged.lookup(n)
        except KeyError:
            s1 = None
        if s1 is not s0:
            res["capture"] = (f"'{n}' in CodeBlock {i} referred to the symbol now written as '{s0.name}' but in the "
                              f"merged routine scope it denotes '{getattr(s1, 'name', None)}'")
            break
    return res


# --------------------------------------------------------------------------- driver of both families
def model_merge(lines):
    out = []
    for o in driver("C04", lines):
        m = parse_sx(o)
        out.append(None if m == "none" else {e[0]: uncodes(e[1]) for e in m[1:]})
    return out


def judge(chk, fam, res, model, seed):
    """returns True when a violation was reported"""
    real = res.get("real_merge")
    agreed = (model == real)
    case = {"kind": "merge-codeblock", "family": fam, "case_seed": seed, "src": res["src"],
            "added": res.get("added"), "status": res["status"], "real_merge": real, "model_merge": model}
    chk.case(case, nontrivial=(real is None or any(True for _ in real)), agreed=agreed)
    why = None
    if res.get("capture"):
        why = res["capture"]
    elif fam == "inline" and res["status"] == "accepted":
        (so, oo), (sn, on) = res["orig_run"], res["new_run"]
        if so != "ok":
            raise common.Infra("generated inline program does not build/run: " + oo[:300])
        if sn != "ok":
            why = "transformed code does not compile/run with gfortran -fimplicit-none: " + on[:600]
        elif oo != on:
            why = f"transformed program prints '{on}' but the original prints '{oo}'"
    if why:
        chk.violation(dict(case, observed=res.get("text", ""), expected="refusal, or CodeBlock names keep their "
                           "meaning and the program its output", failing=why))
        return True
    if not agreed:
        chk.correspondence_broken("SymbolTable.merge (accept/refuse, final names) differs from Decls.mergeScopes "
                                  "with CodeBlock names", case, model, real)
    return False


WITNESS = """module work_mod
  implicit none
contains
  subroutine bump(x)
    use data_mod, only: tmp
    integer, intent(inout) :: x
    x = x + tmp
  end subroutine bump
  subroutine driver(a)
    integer, intent(inout) :: a
    integer :: tmp
    tmp = 5
    call bump(a)
    a = a + tmp
    WRITE(*,*) "local tmp =", Tmp, " a =", a
  end subroutine driver
end module work_mod
"""


def check(chk, n_inline, n_routine):
    stats = {}
    jobs = []
    corpus = os.path.join(common.ROOT, "corpus", "C04", "inline_codeblock_capture.f90")
    srcs = [(open(corpus).read() if os.path.exists(corpus) else WITNESS, -1)]
    for _ in range(n_inline):
        cs = chk.rng.randrange(2 ** 31)
        srcs.append((inline_source(random.Random(cs))[0], cs))
    for src, cs in srcs:
        res = inline_case(src)
        stats["inline:" + res["status"]] = stats.get("inline:" + res["status"], 0) + 1
        jobs.append(("inline", res, cs))
    for _ in range(n_routine):
        cs = chk.rng.randrange(2 ** 31)
        r = random.Random(cs)
        src, _info = routine_source(r)
        res = routine_case(src, r)
        stats["routine:" + res["status"]] = stats.get("routine:" + res["status"], 0) + 1
        jobs.append(("routine", res, cs))
    models = model_merge([j[1]["line"] for j in jobs])
    for (fam, res, cs), m in zip(jobs, models):
        if m is None:
            stats[fam + ":model-refuses"] = stats.get(fam + ":model-refuses", 0) + 1
        if judge(chk, fam, res, m, cs):
            break
    return stats


def replay(payload):
    fam, cs = payload["family"], payload["case_seed"]
    if fam == "inline":
        res = inline_case(payload["src"])
    else:
        r = random.Random(cs)
        src, _ = routine_source(r)
        res = routine_case(src, r)
    print(res["src"])
    print("status:", res["status"], res.get("detail", ""))
    print(res.get("text", ""))
    bad = res.get("capture")
    if not bad and fam == "inline" and res["status"] == "accepted":
        (so, oo), (sn, on) = res["orig_run"], res["new_run"]
        print("original prints   :", oo, "\ntransformed prints:", on)
        if sn != "ok" or oo != on:
            bad = "output differs or transformed code does not build"
    print("property:", bad or "holds")
    return 1 if bad else 0
