"""C25 — GOcean loops visit exactly the configured grid points.

Translator: the live `_bounds_lookup` table -> Gen/GOBounds.lean (theorems re-checked against it).
Correspondence: for kernels of every index offset x grid-point type x iteration space (built-in and
user-defined ones added through the real `GOLoop.add_bounds` / config-file API), with and without
`GOConstLoopBoundsTrans`, after histories of real transformations (GOceanLoopFuseTrans, OMP parallel/do,
ACC parallel/loop, GOceanExtractTrans), the REAL lowered PSyIR is interpreted for concrete environments and
the sequence of kernel calls (kernel, i, j) is compared with the Lean model `C25.exec`.
Property: under the documented dl_esm_inf convention every kernel must be called exactly on the region its
table entry / configuration line denotes (each point once, j outer / i inner), inside the depth-1 halo."""
import json
import os

import common
from common import driver, sx, parse_sx
from props import c25_gen, c25_real

OFFS, PTS, SPACES = c25_gen.OFFSETS, c25_gen.POINTS, c25_gen.SPACES
FINDING_ANY = "C25-any-offset-const-bounds"
FINDING_USERDEF = "C25-userdef-ignored"


# ------------------------------------------------------------------------------------------------
# environments
def henv(g, ex, ey):
    """the environment of the documented dl_esm_inf convention, taken from the Lean model (`hEnv`)"""
    out = parse_sx(driver("C25", [sx(["henv", g, ex, ey])])[0])
    return {"ex": out[0], "ey": out[1], "nx": out[2], "ny": out[3], "rects": {i: r for i, r in enumerate(out[4:])},
            "H": [g, ex, ey]}


_HENV = {}


def henv_cached(g, ex, ey):
    if not _HENV:
        keys = [(a, b, c) for a in (0, 1) for b in range(0, 8) for c in range(0, 8)]
        for k, o in zip(keys, driver("C25", [sx(["henv", *k]) for k in keys])):
            out = parse_sx(o)
            _HENV[k] = {"ex": out[0], "ey": out[1], "nx": out[2], "ny": out[3],
                        "rects": {i: r for i, r in enumerate(out[4:])}, "H": list(k)}
    if (g, ex, ey) not in _HENV:
        _HENV[(g, ex, ey)] = henv(g, ex, ey)
    return _HENV[(g, ex, ey)]


def random_env(rng):
    def rect():
        lo1, lo2 = rng.randint(0, 3), rng.randint(0, 3)
        return [lo1, lo1 + rng.randint(-1, 4), lo2, lo2 + rng.randint(-1, 4)]
    return {"ex": rng.randint(0, 6), "ey": rng.randint(0, 6), "nx": rng.randint(0, 7), "ny": rng.randint(0, 7),
            "rects": {pt: rect() + rect() for pt in range(5)}, "H": None}


def env_sx(env):
    return ["env", env["ex"], env["ey"], env["nx"], env["ny"]] + [env["rects"][pt] for pt in range(5)]


# ------------------------------------------------------------------------------------------------
# case generation
def gen_bound(rng, weird=False):
    if weird:
        return rng.choice(["{start}+", "{stop}*2", "{foo}", "{start}+{stop}", "jstop", "{start}-{stop", "", "{}",
                           "{start}{stop}", "2+", "{stop}+1+1", "{Start}"])
    base = rng.choice(["{start}", "{start}", "{stop}", "{stop}", str(rng.randint(0, 4))])
    k = rng.choice([0, 0, 1, -1, 1, -1, 2, -2, 3])
    txt = base if k == 0 else f"{base}{'+' if k > 0 else '-'}{abs(k)}"
    if rng.random() < 0.15:
        txt = txt.replace("+", " + ").replace("-", " - ")
    return txt


def gen_add(rng, g, malformed):
    off = rng.choice([OFFS[g], OFFS[g], "go_offset_any", rng.choice(OFFS)])
    pt = rng.choice(PTS[:4] + PTS[:4] + ["go_every"])
    r = rng.random()
    if r < 0.7:
        its = f"c25_space_{rng.randint(0, 2)}"
    elif r < 0.85:
        its = rng.choice(SPACES)
    else:
        its = "go_external_pts"
    lo_o, hi_o, lo_i, hi_i = (gen_bound(rng) for _ in range(4))
    fields = [off, pt, its, lo_o, hi_o, lo_i, hi_i]
    if malformed:
        m = rng.random()
        if m < 0.3:
            fields = fields[:rng.randint(1, 6)]
        elif m < 0.45:
            fields = fields + ["{stop}"]
        else:
            fields[rng.randint(3, 6)] = gen_bound(rng, weird=True)
    return {"line": ":".join(fields), "via": "api"}


def gen_steps(rng, nk):
    steps, n_top = [], nk
    if rng.random() < 0.35:
        steps.append(["C"])
    for _ in range(rng.randint(0, 5)):
        r = rng.random()
        if r < 0.45 and n_top >= 1:
            p = rng.randint(0, max(0, n_top - 2)) if rng.random() < 0.9 else rng.randint(0, n_top)
            steps.append(["F", [], p])
            steps.append(["F", [p], 0])
            if rng.random() < 0.8:
                n_top = max(1, n_top - 1)      # optimistic book-keeping only
        elif r < 0.6:
            steps.append(["C"])
        elif r < 0.7:
            p = rng.randint(0, max(0, n_top - 1))
            ln = rng.randint(1, max(1, n_top - p))
            steps.append(["W", 1, [], p, ln])               # OMP parallel region …
            for q in range(ln):
                if rng.random() < 0.8:
                    steps.append(["W", 2, [p], q, 1])       # … with OMP do on the loops inside
            n_top = n_top - ln + 1
        elif r < 0.8:
            steps.append(["W", 3, [], rng.randint(0, max(0, n_top - 1)), 1])   # OMP parallel do
        elif r < 0.9:
            p = rng.randint(0, max(0, n_top - 1))
            ln = rng.randint(1, max(1, n_top - p))
            steps.append(["W", 4, [], p, ln])               # ACC parallel …
            for q in range(ln):
                if rng.random() < 0.8:
                    steps.append(["W", 5, [p], q, 1])       # … with ACC loop
            n_top = n_top - ln + 1
        else:
            p = rng.randint(0, max(0, n_top - 1))
            ln = rng.randint(1, max(1, n_top - p))
            steps.append(["W", 6, [], p, ln])               # extraction region
            n_top = n_top - ln + 1
    if rng.random() < 0.25:
        steps.append(["C"])
    return steps


def gen_case(rng, malformed=False):
    g = rng.randint(0, 1)
    adds = [gen_add(rng, g, malformed and rng.random() < 0.7) for _ in range(rng.choice([0, 0, 1, 1, 2, 3]))]
    if adds and rng.random() < 0.3:
        for a in adds:
            a["via"] = "config"
    user_keys = [a["line"].split(":")[:3] for a in adds if len(a["line"].split(":")) == 7]
    nk = rng.choice([1, 2, 2, 3, 3, 4])
    kerns = []
    for _ in range(nk):
        if kerns and rng.random() < 0.55:
            k = list(kerns[-1])                      # same point type / space: a fusion candidate
            if rng.random() < 0.3:
                k[0] = rng.choice([OFFS[g], "go_offset_any"])
        elif user_keys and rng.random() < 0.5:
            k = list(rng.choice(user_keys))
            if k[0] not in (OFFS[g], "go_offset_any"):
                k[0] = OFFS[g]
        else:
            k = [rng.choice([OFFS[g], OFFS[g], "go_offset_any"]), rng.choice(PTS),
                 rng.choice(["go_all_pts", "go_internal_pts", "go_internal_pts",
                             "go_external_pts" if rng.random() < 0.3 else "go_all_pts"])]
        if malformed and rng.random() < 0.15:
            k[2] = "c25_undefined"
        kerns.append(k)
    envs = [henv_cached(g, rng.randint(1, 5), rng.randint(1, 5)), henv_cached(g, rng.randint(2, 6), rng.randint(2, 6)),
            random_env(rng)]
    return {"adds": adds, "kerns": kerns, "steps": gen_steps(rng, nk), "envs": envs, "g": g}


def sweep_cases(full):
    """every offset x grid-point type x built-in iteration space, constant bounds off/on (offsets se/nw are valid
    kernel metadata without table rows).  full: one invoke per combination; otherwise the combinations of one
    offset share an invoke, except the `go_external_pts` ones that have no bounds (refusal expected)."""
    def envs(g):
        return [henv_cached(g, 4, 3), henv_cached(g, 2, 2), henv_cached(g, 1, 3)]
    for off in OFFS:
        g = 1 if off == "go_offset_sw" else 0
        for const in (False, True):
            steps = [["C"]] if const else []
            combos = [[off, pt, its] for pt in PTS for its in SPACES]
            if full:
                for k in combos:
                    yield {"adds": [], "kerns": [k], "steps": steps, "envs": envs(g), "g": g}
                continue
            lone = [k for k in combos if k[2] == "go_external_pts" and k[1] != "go_every" and off != "go_offset_any"]
            yield {"adds": [], "kerns": [k for k in combos if k not in lone], "steps": steps, "envs": envs(g), "g": g}
            if not const:
                for k in lone:
                    yield {"adds": [], "kerns": [k], "steps": steps, "envs": envs(g)[:1], "g": g}


def directed_cases():
    """witnesses of the known findings / of the repaired fusion defect and a user-defined-space history"""
    e = henv_cached(0, 4, 4)
    yield {"adds": [], "kerns": [["go_offset_any", "go_cu", "go_internal_pts"], ["go_offset_ne", "go_cu", "go_internal_pts"]],
           "steps": [["C"], ["F", [], 0], ["F", [0], 0]], "envs": [e], "g": 0}
    yield {"adds": [], "kerns": [["go_offset_any", "go_cu", "go_internal_pts"], ["go_offset_ne", "go_cu", "go_internal_pts"]],
           "steps": [["F", [], 0], ["F", [0], 0], ["C"]], "envs": [e], "g": 0}
    # one case per clause of GOceanLoopFuseTrans.validate (different grid-point type / iteration space / offset)
    for k2 in (["go_offset_ne", "go_cv", "go_internal_pts"], ["go_offset_ne", "go_cu", "go_all_pts"],
               ["go_offset_any", "go_cu", "go_internal_pts"], ["go_offset_ne", "go_cu", "go_internal_pts"]):
        yield {"adds": [], "kerns": [["go_offset_ne", "go_cu", "go_internal_pts"], k2],
               "steps": [["F", [], 0], ["F", [0], 0]], "envs": [henv_cached(0, 4, 3)], "g": 0}
    yield {"adds": [{"line": "go_offset_ne:go_ct:go_all_pts:{start}-1:{stop}+1:{start}:{stop}", "via": "api"}],
           "kerns": [["go_offset_ne", "go_ct", "go_all_pts"]], "steps": [], "envs": [e], "g": 0}
    yield {"adds": [{"line": "go_offset_sw:go_every:c25_space_0:{start}:{stop}:{start}:{stop}", "via": "config"}],
           "kerns": [["go_offset_sw", "go_every", "c25_space_0"]], "steps": [["C"]], "envs": [henv_cached(1, 4, 4)], "g": 1}
    yield {"adds": [{"line": "go_offset_sw:go_ct:c25_space_0:{start}-1:{stop}+1:{start}:{stop}", "via": "config"},
                    {"line": "go_offset_sw:go_ct:c25_space_1:1:2:3:4", "via": "config"}],
           "kerns": [["go_offset_sw", "go_ct", "c25_space_0"], ["go_offset_sw", "go_ct", "c25_space_0"],
                     ["go_offset_sw", "go_ct", "c25_space_1"]],
           "steps": [["F", [], 0], ["F", [0], 0], ["W", 1, [], 0, 2], ["W", 2, [0], 0, 1], ["C"], ["W", 6, [], 0, 1]],
           "envs": [henv_cached(1, 3, 5)], "g": 1}


# ------------------------------------------------------------------------------------------------
# model side
def model_line(case, real, names, pinned=False):
    adds = []
    for a in case["adds"]:
        f = a["line"].split(":")
        pad = (f + ["x"] * 7)[:7]
        bs = ["".join(b.split()) or "_empty_" for b in pad[3:7]]
        bs = [b if not any(c in b for c in "()") else "_paren_" for b in bs]
        adds.append(["A", len(f)] + names.key(*pad[:3]) + bs)
    kerns = [names.key(*k) for k in case["kerns"]]
    steps = real["model_steps"] if real else case["steps"]
    lines = []
    for env in case["envs"]:
        lines.append(sx(["case", ["adds"] + adds, ["kerns"] + kerns, env_sx(env),
                         ["steps"] + [[s[0]] + [x for x in s[1:]] for s in steps], ["pinned", 1 if pinned else 0]]))
    return lines


def parse_model(out):
    res = {}
    for part in parse_sx("(" + out + ")"):
        res[part[0]] = part[1:]
    return res


# ------------------------------------------------------------------------------------------------
# the property itself, evaluated on the real result (python only; independent of the Lean model)
def configured_entry(case, key, table):
    """bound strings [outer lo, outer hi, inner lo, inner hi] configured for a kernel key, and whether a
    user-defined line provides them"""
    user = None
    for a in case["adds"]:
        f = a["line"].split(":")
        if len(f) == 7 and f[:3] == list(key) and all(c25_gen.parse_bound(b) for b in f[3:]):
            user = f[3:]
    if user is not None:
        return user, True
    try:
        d = table[key[0]][key[1]][key[2]]
        return [d["outer"]["start"], d["outer"]["stop"], d["inner"]["start"], d["inner"]["stop"]], False
    except KeyError:
        return None, False


def ev_bound(text, S, E):
    base, k = c25_gen.parse_bound(text)
    return {"lit": 0, "start": S, "stop": E}[base] + k


def expected_points(entry, ex, ey):
    jl, jh = ev_bound(entry[0], 2, ey), ev_bound(entry[1], 2, ey)
    il, ih = ev_bound(entry[2], 2, ex), ev_bound(entry[3], 2, ex)
    return [[i, j] for j in range(jl, jh + 1) for i in range(il, ih + 1)]


def property_failures(case, real, table):
    """[{kernel, env, observed, expected, why, finding}] for the H-environments of the case"""
    fails = []
    if real["traces"] is None:
        return fails
    for env, trace in zip(case["envs"], real["traces"]):
        if env["H"] is None:
            continue
        g, ex, ey = env["H"]
        for n, key in enumerate(case["kerns"]):
            entry, user = configured_entry(case, key, table)
            if entry is None:
                continue
            obs = [[i, j] for k, i, j in trace if k == n]
            exp = expected_points(entry, ex, ey)
            why = None
            if obs != exp:
                why = "kernel is not called exactly on its configured region (each point once, j outer/i inner)"
            elif len({tuple(p) for p in obs}) != len(obs):
                why = "a grid point is visited twice"
            elif not user and ex >= 2 and ey >= 2 and any(not (1 <= i <= ex + 1 and 1 <= j <= ey + 1) for i, j in obs):
                why = "a built-in region extends beyond the depth-1 halo"
            elif not user and key[2] == "go_all_pts" and ex >= 2 and ey >= 2 and \
                    not {(i, j) for j in range(2, ey + 1) for i in range(2, ex + 1)} <= {tuple(p) for p in obs}:
                why = "go_all_pts region does not contain the internal region"
            if why:
                fails.append({"kernel": n, "key": key, "env": env, "observed": obs, "expected": exp, "why": why,
                              "cb": real["cb"], "finding": classify(case, key, user, real["cb"])})
    return fails


def classify(case, key, user, cb):
    """known-finding class of a failing kernel, or None"""
    if cb:
        return None
    if user and (key[2] in ("go_all_pts", "go_internal_pts") or key[1] == "go_every"):
        return FINDING_USERDEF
    if not user and key[0] == "go_offset_any" and key[1] != "go_every" and key[2] in SPACES:
        return FINDING_ANY
    return None


# ------------------------------------------------------------------------------------------------
def slim(case):
    c = dict(case)
    c["envs"] = [dict(e) for e in case["envs"]]
    return c


def check_case(chk, case, table, stats, known_ids):
    names = c25_real.Names()
    real = c25_real.run_case(case, common.REPO)
    for r in real["adds"]:
        if r.startswith("error:") or r.startswith("config:error"):
            stats["add_python_error"] = stats.get("add_python_error", 0) + 1
    lines = model_line(case, real if real["build"] == "ok" else None, names)
    mouts = [parse_model(o) for o in driver("C25", lines)]
    m0 = mouts[0]
    agreed = True
    # user-defined spaces: accept/refuse
    radds = real["adds"]
    if any(r.startswith("config:") for r in radds):
        # config load aborted at the first refused line: the model must refuse (or not cover) some line
        ok = any(a in ("refuse", "outside") for a in m0["adds"])
        outside = True
    else:
        outside = "outside" in m0["adds"] or any(r.startswith("error:") for r in radds)
        ok = outside or list(m0["adds"]) == radds
    if not ok:
        agreed = False
        chk.correspondence_broken("add_bounds accept/refuse differs", slim(case), m0["adds"], radds)
    stats["outside_model"] = stats.get("outside_model", 0) + (1 if outside else 0)
    nontrivial = False
    if ok and not outside:
        mb = m0["build"][0]
        if mb != real["build"]:
            agreed = False
            chk.correspondence_broken("invoke construction result differs", slim(case), mb, real["build"] + ":" + real.get("message", ""))
        elif mb == "ok":
            if real["lowering"] != "ok":
                stats["lowering_refused"] = stats.get("lowering_refused", 0) + 1
            else:
                flags = [bool(x) for x in m0["steps"]]
                want = iter(real["steps"])
                mflags = [f for f, s in zip(flags, real["model_steps"]) if s[0] in "CF"]
                if mflags != list(want) or any(not f for f, s in zip(flags, real["model_steps"]) if s[0] == "W"):
                    agreed = False
                    chk.correspondence_broken("transformation accept/refuse differs", slim(case),
                                              list(zip(flags, real["model_steps"])), real["steps"])
                for env, mo, tr in zip(case["envs"], mouts, real["traces"]):
                    mtrace = [list(c) for c in mo.get("trace", [])]
                    if mtrace != tr or bool(mo["cb"][0]) != real["cb"]:
                        agreed = False
                        chk.correspondence_broken("sequence of kernel calls differs", slim(case), mtrace[:60], tr[:60])
                        break
                nontrivial = any(tr for tr in real["traces"])
                stats["accepted_steps"] = stats.get("accepted_steps", 0) + len(real["accepted"])
                for s in real["accepted"]:
                    kind = s[0] if s[0] != "W" else c25_real.TAGS[s[1]]
                    stats["step:" + kind] = stats.get("step:" + kind, 0) + 1
        else:
            stats["build:" + mb] = stats.get("build:" + mb, 0) + 1
    chk.case({"adds": [a["line"] for a in case["adds"]], "kerns": case["kerns"], "steps": case["steps"],
              "H": [e["H"] for e in case["envs"]]}, nontrivial=nontrivial, agreed=agreed)
    # the property itself on the real result
    if real["build"] == "ok" and real["traces"] is not None and not outside:
        for f in property_failures(case, real, table):
            if f["finding"] and f["finding"] in known_ids and agreed:
                stats["in_known_class:" + f["finding"]] = stats.get("in_known_class:" + f["finding"], 0) + 1
                continue
            chk.violation({"kind": "failing-input", "case": slim(case), "kernel": f["kernel"], "key": f["key"],
                           "env": f["env"], "constant_bounds": f["cb"], "accepted_steps": real["accepted"],
                           "observed": f["observed"], "expected": f["expected"], "why": f["why"]})
            return False
    return True


def table_search(chk, table):
    """focused search used when a proof obligation broke: evaluate every populated built-in entry concretely"""
    for off, d1 in table.items():
        for pt, d2 in d1.items():
            ents = {}
            for its, d3 in d2.items():
                if not d3:
                    continue
                try:
                    raw = [d3["outer"]["start"], d3["outer"]["stop"], d3["inner"]["start"], d3["inner"]["stop"]]
                    if any(c25_gen.parse_bound(b) is None for b in raw):
                        continue
                except (KeyError, TypeError):
                    continue
                ents[its] = raw
                for E in (2, 3, 5):
                    vals = [ev_bound(b, 2, E) for b in raw]
                    if any(not (1 <= v <= E + 1) for v in vals):
                        chk.violation({"kind": "failing-input", "table_entry": [off, pt, its], "bounds": raw,
                                       "grid": {"S": 2, "E": E}, "observed": vals,
                                       "expected": "every bound within [S-1, E+1]", "why": "beyond the depth-1 halo"})
                        return True
            if "go_all_pts" in ents and "go_internal_pts" in ents:
                for E in (2, 3, 5):
                    a = [ev_bound(b, 2, E) for b in ents["go_all_pts"]]
                    i = [ev_bound(b, 2, E) for b in ents["go_internal_pts"]]
                    if not (a[0] <= min(i[0], 2) and max(i[1], E) <= a[1] and a[2] <= min(i[2], 2) and max(i[3], E) <= a[3]):
                        chk.violation({"kind": "failing-input", "table_entry": [off, pt, "go_all_pts"],
                                       "bounds": ents, "grid": {"S": 2, "E": E}, "observed": {"all": a, "internal": i},
                                       "expected": "go_all_pts contains go_internal_pts and [S..E]^2",
                                       "why": "all-points region does not contain the internal region"})
                        return True
    return False


def load_corpus():
    d = os.path.join(common.ROOT, "corpus", "C25")
    out = []
    if os.path.isdir(d):
        for fn in sorted(os.listdir(d)):
            if fn.endswith(".json"):
                out.append(json.load(open(os.path.join(d, fn))))
    return out


def fix_env_keys(case):
    for e in case["envs"]:
        e["rects"] = {int(k): v for k, v in e["rects"].items()}
    return case


def run(chk):
    chk.cov["rule"] = ("invokes of 1-4 synthetic kernels (index offset x grid-point type x iteration space; built-in sweep is "
                       "exhaustive, const bounds off/on) with 0-3 user-defined iteration spaces added through GOLoop.add_bounds "
                       "or a config file, random histories of real transformations (fuse outer+inner, const bounds, OMP "
                       "parallel/do/parallel-do, ACC parallel/loop, extract), evaluated for 3 environments (2 following the "
                       "dl_esm_inf convention incl. empty internal regions, 1 arbitrary); non-trivial = at least one kernel call "
                       "is made; distinct by canonical JSON of (spaces, kernels, steps, grids)")
    chk.assumptions += [
        "dl_esm_inf (absent) follows the documented convention: grid%subdomain%internal%{x,y}start = 2 (the literal used by "
        "the generated code); a field's internal/whole regions are C25.dlEsmInf (hand-transcribed) for the grid's offset; "
        "SIZE(fld%data,d) = {x,y}stop+1; all fields of one grid-point type in an invoke share these values",
        "serial semantics of OpenMP/OpenACC/PSyData regions: transparent (their own validity is C10's subject)",
        "user-defined bounds outside the grammar `{start}|{stop}|int [+-k]` are not modelled (counted as outside_model)"]
    chk.cov["trusted_base"] = [
        "Lean 4.33.0 kernel; axioms propext/Classical.choice/Quot.sound only (audited)",
        "translator harness/props/c25_gen.py (table strings -> base±k, cross-checked against C25.parseBnd on every run)",
        "serial interpreter of the lowered PSyIR in harness/props/c25_real.py (Loop/Call/Assignment/regions)",
        "hypothesis hEnv = documented dl_esm_inf convention (C25.dlEsmInf, grid internal start 2, data array 1..stop+1)",
        "correspondence only on the generated cases"]
    ok = chk.lean(gen=c25_gen.gen)
    table = c25_real.reset_state()
    import copy
    table = copy.deepcopy(table)
    known = common.known_findings("C25")
    known_ids = {e["id"] for e in known}
    stats = {}
    # translator cross-check: every bound string of the live table through the Lean parser
    strs = sorted({str(b) for d1 in table.values() for d2 in d1.values() for d3 in d2.values() if d3
                   for side in d3.values() for b in side.values()})
    clean = [s for s in strs if not any(c in s for c in "() \t")]
    for s, o in zip(clean, driver("C25", [sx(["parse", s]) for s in clean])):
        pb = c25_gen.parse_bound(s)
        want = "none" if pb is None else f"({pb[0]} {pb[1]})"
        if o != want:
            chk.correspondence_broken("translator and C25.parseBnd disagree on a bound string", s, o, want)
    if not ok:
        table_search(chk, table)
    n_random = 400 if chk.tier == "thorough" else 45
    n_malformed = 100 if chk.tier == "thorough" else 15
    cases = [fix_env_keys(c) for c in load_corpus()] + list(directed_cases()) + list(sweep_cases(chk.tier == "thorough"))
    stats["corpus+directed+sweep"] = len(cases)
    cases += [gen_case(chk.rng) for _ in range(n_random)]
    cases += [gen_case(chk.rng, malformed=True) for _ in range(n_malformed)]
    for case in cases:
        if not check_case(chk, case, table, stats, known_ids):
            break
    chk.cov["distribution"] = stats
    # known findings
    for e in known:
        if replay_case(fix_env_keys(json.loads(json.dumps(e["witness"]))), table, quiet=True):
            chk.known(e["what"])


def replay_case(case, table, quiet=False, kernel=None, grid=None):
    real = c25_real.run_case(case, common.REPO)
    fails = property_failures(case, real, table) if real["build"] == "ok" else []
    if kernel is not None:   # the failure named by a replay file: that kernel (on that grid)
        fails = [f for f in fails if f["kernel"] == kernel and (grid is None or f["env"]["H"] == grid)]
    if not quiet:
        print("case:", json.dumps({k: case[k] for k in ("adds", "kerns", "steps")}))
        print("real: build", real["build"], "lowering", real["lowering"], "accepted", real["accepted"], "cb", real["cb"])
        for f in fails:
            print(f"kernel {f['kernel']} {f['key']} grid {f['env']['H']}: {f['why']}\n  observed {f['observed']}\n  expected {f['expected']}")
        if not fails:
            print("property: holds on this input")
    return bool(fails)


def replay(payload):
    import copy
    table = copy.deepcopy(c25_real.reset_state())
    if "case" in payload:
        grid = (payload.get("env") or {}).get("H")
        return 1 if replay_case(fix_env_keys(payload["case"]), table, kernel=payload.get("kernel"), grid=grid) else 0
    if "table_entry" in payload:
        off, pt, its = payload["table_entry"]
        d = table[off][pt][its]
        raw = [d["outer"]["start"], d["outer"]["stop"], d["inner"]["start"], d["inner"]["stop"]]
        E = payload["grid"]["E"]
        vals = [ev_bound(b, 2, E) for b in raw]
        print("table entry", payload["table_entry"], raw, "S=2 E=%d ->" % E, vals)
        bad = any(not (1 <= v <= E + 1) for v in vals)
        if not bad and "go_internal_pts" in table[off][pt] and table[off][pt]["go_internal_pts"]:
            di = table[off][pt]["go_internal_pts"]
            i = [ev_bound(b, 2, E) for b in (di["outer"]["start"], di["outer"]["stop"], di["inner"]["start"], di["inner"]["stop"])]
            a = vals
            bad = not (a[0] <= min(i[0], 2) and max(i[1], E) <= a[1] and a[2] <= min(i[2], 2) and max(i[3], E) <= a[3])
        print("property:", "violated" if bad else "holds")
        return 1 if bad else 0
    print("replay file names a broken proof obligation / correspondence, no failing input:")
    print(json.dumps(payload.get("broken"), indent=1)[:3000])
    return 1
