"""C22 helpers: synthesise LFRic kernel metadata + one algorithm file with many invokes, build
distributed-memory PSy layers with the real PSyclone, apply accepted transformation histories to the
real schedule, and abstract (i) the real schedule and (ii) the GENERATED Fortran into the event
list of the Lean model (`C22.LItem`)."""
import copy
import os
import re
import shutil
import tempfile

ACC = {"read": 0, "write": 1, "readwrite": 2, "inc": 3, "readinc": 4}
GH = {"read": "gh_read", "write": "gh_write", "readwrite": "gh_readwrite", "inc": "gh_inc",
      "readinc": "gh_readinc"}
DISC_SPACES = ["w3", "wtheta", "w2v", "w2broken"]
CONT_SPACES = ["w0", "w1", "w2", "w2h"]
STENCILS = ["cross", "region", "x1d", "y1d"]
# actual fields available to the algorithm layer: name -> the space it really lives on
FIELDS = {"fa": "w0", "fb": "w1", "fc": "w2", "fd": "w3", "fe": "wtheta", "ff": "w0", "fg": "w3",
          "fh": "w2"}
FIELD_IDS = {n: i for i, n in enumerate(sorted(FIELDS))}
EXT_VARS = {"ext1": 1, "ext2": 2}

# built-ins: name -> (call template, [(placeholder index, access)])
BUILTINS = {
    "setval_c": ("setval_c({0}, 0.0_r_def)", ["write"]),
    "setval_x": ("setval_x({0}, {1})", ["write", "read"]),
    "x_plus_y": ("x_plus_y({0}, {1}, {2})", ["write", "read", "read"]),
    "inc_x_plus_y": ("inc_x_plus_y({0}, {1})", ["readwrite", "read"]),
    "inc_a_times_x": ("inc_a_times_x(0.5_r_def, {0})", ["readwrite"]),
    "sum_x": ("sum_x(rsum, {0})", ["read"]),
}


# ---- generators ------------------------------------------------------------------------------
def gen_kernel(rng, idx):
    """A kernel spec: {"name", "args": [(access, space, stencil_type|None)]} obeying the LFRic
    metadata rules (user guide table: discontinuous READ/WRITE/READWRITE; continuous
    READ/WRITE/INC/READINC; stencils only on GH_READ fields; at least one argument modified)."""
    def space(kind):
        if kind == "disc":
            return rng.choice(DISC_SPACES + ["any_discontinuous_space_1"])
        return rng.choice(CONT_SPACES + ["any_space_1", "any_space_2"])
    args = []
    nw = 1 if rng.random() < 0.8 else 2
    for _ in range(nw):
        if rng.random() < 0.5:
            args.append((rng.choice(["write", "readwrite"]), space("disc"), None))
        else:
            args.append((rng.choice(["inc", "inc", "readinc", "write"]), space("cont"), None))
    for _ in range(rng.randint(0, 3)):
        st = rng.choice(STENCILS) if rng.random() < 0.4 else None
        args.append(("read", space(rng.choice(["disc", "cont"])), st))
    return {"name": f"c22k{idx}", "args": args}


def kernel_source(k):
    lines = []
    for acc, sp, st in k["args"]:
        s = f", stencil({st})" if st else ""
        lines.append(f"arg_type(gh_field, gh_real, {GH[acc]}, {sp}{s})")
    n = k["name"]
    meta = ", &\n          ".join(lines)
    return f"""module {n}_mod
  use argument_mod
  use fs_continuity_mod
  use kernel_mod
  use constants_mod
  implicit none
  type, extends(kernel_type) :: {n}_type
     type(arg_type), dimension({len(lines)}) :: meta_args = &
       (/ {meta} /)
     integer :: operates_on = cell_column
   contains
     procedure, nopass :: code => {n}_code
  end type {n}_type
contains
  subroutine {n}_code()
    implicit none
  end subroutine {n}_code
end module {n}_mod
"""


def compatible(meta_space, actual_space):
    if meta_space.startswith("any_space"):
        return True
    if meta_space.startswith("any_discontinuous_space"):
        return actual_space in DISC_SPACES
    return meta_space == actual_space


def gen_call(rng, kernels):
    """One call of an invoke: ("kern", kidx, [actual field names], [extent per arg or None]) or
    ("builtin", name, [fields]).  Returns None when no compatible distinct fields exist."""
    if rng.random() < 0.35:
        name = rng.choice(list(BUILTINS))
        n = len(BUILTINS[name][1])
        base = rng.choice(sorted(FIELDS))
        same = [f for f in sorted(FIELDS) if FIELDS[f] == FIELDS[base]]
        pool = same if len(same) >= n else sorted(FIELDS)
        return ("builtin", name, rng.sample(pool, n))
    kidx = rng.randrange(len(kernels))
    actual, extents = [], []
    for acc, sp, st in kernels[kidx]["args"]:
        cands = [f for f in sorted(FIELDS) if compatible(sp, FIELDS[f]) and f not in actual]
        if not cands:
            return None
        actual.append(rng.choice(cands))
        if st:
            extents.append(rng.choice([1, 1, 2, "ext1", "ext2"]))
        else:
            extents.append(None)
    return ("kern", kidx, actual, extents)


def gen_invoke(rng, kernels):
    calls = []
    for _ in range(rng.randint(1, 4)):
        c = None
        for _try in range(5):
            c = gen_call(rng, kernels)
            if c:
                break
        if c:
            calls.append(c)
    return calls or [("builtin", "setval_c", ["fa"])]


def call_text(kernels, c):
    if c[0] == "builtin":
        return BUILTINS[c[1]][0].format(*c[2])
    parts = []
    for f, e in zip(c[2], c[3]):
        parts.append(f)
        if e is not None:
            parts.append(str(e))
    return f"{kernels[c[1]]['name']}_type({', '.join(parts)})"


def alg_source(kernels, invokes):
    used = sorted({c[1] for inv in invokes for c in inv if c[0] == "kern"})
    uses = [f"  use {kernels[i]['name']}_mod, only: {kernels[i]['name']}_type" for i in used]
    body = []
    for inv in invokes:
        stmts = ", &\n       ".join(call_text(kernels, c) for c in inv)
        body.append(f"  call invoke( &\n       {stmts} )")
    nl = "\n"
    return f"""program c22_alg
  use constants_mod, only: r_def, i_def
  use field_mod, only: field_type
{nl.join(uses)}
  implicit none
  type(field_type) :: {", ".join(sorted(FIELDS))}
  integer(i_def) :: ext1, ext2
  real(r_def) :: rsum
{nl.join(body)}
end program c22_alg
"""


# ---- real PSyclone ---------------------------------------------------------------------------
class Workdir:
    def __enter__(self):
        self.path = tempfile.mkdtemp(prefix="c22_", dir=os.environ.get("TMPDIR"))
        return self

    def __exit__(self, *a):
        shutil.rmtree(self.path, ignore_errors=True)


def setup_api():
    from psyclone.configuration import Config
    Config.get().api = "dynamo0.3"


def parse_file(workdir, kernels, invokes, tag="p"):
    from psyclone.parse.algorithm import parse
    d = os.path.join(workdir, tag)
    os.makedirs(d, exist_ok=True)
    for i in {c[1] for inv in invokes for c in inv if c[0] == "kern"}:
        with open(os.path.join(d, kernels[i]["name"] + "_mod.f90"), "w") as f:
            f.write(kernel_source(kernels[i]))
    alg = os.path.join(d, "alg.f90")
    with open(alg, "w") as f:
        f.write(alg_source(kernels, invokes))
    _, info = parse(alg, api="dynamo0.3", kernel_paths=[d])
    return info


def make_schedule(info, idx, annexed):
    """A fresh distributed-memory PSy layer holding only invoke number `idx`."""
    from psyclone.configuration import Config
    from psyclone.psyGen import PSyFactory
    Config.get().distributed_memory = True
    Config.get().api_conf("lfric")._compute_annexed_dofs = bool(annexed)
    one = copy.copy(info)
    one._calls = [info.calls[idx]]
    psy = PSyFactory("dynamo0.3", distributed_memory=True).create(one)
    return psy, psy.invokes.invoke_list[0]


def flat_nodes(sched):
    """The flat abstract schedule: halo exchanges and kernel loops in execution order
    (directives are transparent, a colours loop is represented by its inner colour loop,
    global sums are skipped)."""
    from psyclone.psyGen import HaloExchange
    from psyclone.domain.lfric import LFRicLoop
    from psyclone.psyir.nodes import Directive
    out = []

    def visit(node):
        if isinstance(node, HaloExchange):
            out.append(node)
        elif isinstance(node, LFRicLoop):
            if node.loop_type == "colours":
                for c in node.loop_body.children:
                    visit(c)
            else:
                out.append(node)
        elif isinstance(node, Directive):
            for c in node.dir_body.children:
                visit(c)
    for child in sched.children:
        visit(child)
    return out


def level_of(loop):
    name, depth = loop.upper_bound_name, loop.upper_bound_halo_depth
    if name in ("ncells", "ncolour", "ndofs"):
        lvl = "o"
    elif name == "nannexed":
        lvl = "a"
    elif name in ("cell_halo", "colour_halo", "dof_halo"):
        lvl = ["h", depth] if depth else "m"
    else:
        raise ValueError("unexpected upper bound " + str(name))
    return lvl, 1 if name in ("ncolour", "colour_halo") else 0


def kern_sx(kern, names):
    """`(k dof (field access disc stencil) ...)` from the REAL kernel object."""
    from psyclone.domain.lfric.lfric_builtins import LFRicBuiltIn
    args = []
    for a in kern.arguments.args:
        if not a.is_field:
            continue
        if a.vector_size > 1:
            raise ValueError("vector field")
        st = "x"
        if a.descriptor.stencil:
            ext = a.stencil.extent_arg
            st = ["l", int(ext.text)] if ext.is_literal() else ["v", names.var(ext.varname)]
        args.append([names.field(a.name), ACC[a.access.name.lower()], 1 if a.discontinuous else 0, st])
    return ["k", 1 if isinstance(kern, LFRicBuiltIn) else 0] + args


class Names:
    def __init__(self):
        self.f, self.v = dict(FIELD_IDS), dict(EXT_VARS)

    def field(self, n):
        return self.f.setdefault(n, 100 + len(self.f))

    def var(self, n):
        return self.v.setdefault(n, 100 + len(self.v))


# ---- events of the generated code ------------------------------------------------------------
RE_HEX = re.compile(r"^\s*CALL (\w+)_proxy%halo_exchange(_start|_finish)?\(depth=(.*)\)\s*$", re.I)
RE_IF = re.compile(r"^\s*IF \((\w+)_proxy%is_dirty\(depth=(.*)\)\) THEN\s*$", re.I)
RE_SD = re.compile(r"^\s*CALL (\w+)_proxy%set_dirty\(\)\s*$", re.I)
RE_SC = re.compile(r"^\s*CALL (\w+)_proxy%set_clean\((.*)\)\s*$", re.I)
RE_KERN = re.compile(r"^\s*CALL \w+_code\(", re.I)
RE_BUILTIN = re.compile(r"^\s*! Built-in: ", re.I)


def split_top(s):
    out, depth, cur = [], 0, ""
    for ch in s:
        if ch == "(":
            depth += 1
        elif ch == ")":
            depth -= 1
        if ch == "," and depth == 0:
            out.append(cur)
            cur = ""
        else:
            cur += ch
    out.append(cur)
    return [x.strip() for x in out]


def depth_terms(expr, names):
    """`MAX(a, b)`, `max_halo_depth_mesh - 1`, `ext + 1`, `2` → list of (lit var max m1 0)."""
    e = expr.strip()
    if e.lower().startswith("max(") and e.endswith(")"):
        terms = split_top(e[4:-1])
    else:
        terms = [e]
    out = []
    for t in terms:
        t = t.replace(" ", "").lower()
        if t.startswith("max_halo_depth"):
            rest = t[len("max_halo_depth_mesh"):]
            if rest == "":
                out.append([0, "x", 1, 0, 0])
            elif rest == "-1":
                out.append([0, "x", 0, 1, 0])
            else:
                raise ValueError("depth expression " + expr)
        elif re.fullmatch(r"\d+", t):
            out.append([int(t), "x", 0, 0, 0])
        else:
            m = re.fullmatch(r"([a-z_]\w*)(?:\+(\d+))?", t)
            if not m:
                raise ValueError("depth expression " + expr)
            out.append([int(m.group(2) or 0), names.var(m.group(1)), 0, 0, 0])
    return out


def code_events(code, kernels_in_order, names):
    """Events of the generated invoke subroutine, in execution order, as `C22.LItem` S-expressions."""
    ev, ki, pending_if = [], 0, None
    for line in code.splitlines():
        m = RE_IF.match(line)
        if m:
            pending_if = (m.group(1).lower(), m.group(2))
            continue
        m = RE_HEX.match(line)
        if m:
            f, kind, expr = m.group(1).lower(), (m.group(2) or "").lower(), m.group(3)
            chk = 0
            if pending_if is not None:
                if pending_if[0] != f or pending_if[1].replace(" ", "") != expr.replace(" ", ""):
                    raise ValueError("is_dirty guard does not match its halo exchange: " + line)
                chk = 1
            pending_if = None
            ev.append(["h", {"": 0, "_start": 1, "_finish": 2}[kind], names.field(f),
                       depth_terms(expr, names), chk])
            continue
        pending_if = None if line.strip() and not line.strip().startswith("!") else pending_if
        m = RE_SD.match(line)
        if m:
            ev.append(["sd", names.field(m.group(1).lower())])
            continue
        m = RE_SC.match(line)
        if m:
            d = depth_terms(m.group(2), names)
            if len(d) != 1:
                raise ValueError("set_clean depth " + line)
            ev.append(["sc", names.field(m.group(1).lower()), d[0]])
            continue
        if RE_KERN.match(line) or RE_BUILTIN.match(line):
            kern = kernels_in_order[ki]
            ki += 1
            from psyclone.domain.lfric import LFRicLoop
            lvl, col = level_of(kern.ancestor(LFRicLoop))
            ev.append(["l", kern_sx(kern, names), lvl, col])
    if ki != len(kernels_in_order):
        raise ValueError(f"found {ki} kernel calls in the generated code, schedule has {len(kernels_in_order)}")
    return ev


def generated_code(invoke):
    from psyclone.f2pygen import ModuleGen
    mod = ModuleGen("c22_psy")
    invoke.gen_code(mod)
    return str(mod.root)


def lowered_events(invoke, names):
    kerns = list(invoke.schedule.kernels())
    return code_events(generated_code(invoke), kerns, names)


def model_kernels(invoke, names):
    """Kernels of the untransformed invoke for the model's `place` command."""
    return [kern_sx(k, names) for k in invoke.schedule.kernels()]


# ---- transformation histories on the real schedule --------------------------------------------
def apply_step(sched, step):
    """Apply one history step to the real schedule.  Raises TransformationError when refused."""
    from psyclone import transformations as T
    flat = flat_nodes(sched)
    kind = step[0]
    if kind == "rc":
        opts = {"depth": step[2]} if step[2] else {}
        T.Dynamo0p3RedundantComputationTrans().apply(flat[step[1]], opts)
    elif kind == "col":
        T.Dynamo0p3ColourTrans().apply(flat[step[1]])
    elif kind == "async":
        T.Dynamo0p3AsyncHaloExchangeTrans().apply(flat[step[1]])
    elif kind == "move":
        node, loc = top_of(flat[step[1]]), top_of(flat[step[2]])
        T.MoveTrans().apply(node, loc, {"position": step[3]})
    elif kind == "omp":
        T.DynamoOMPParallelLoopTrans().apply(flat[step[1]])
    elif kind == "ompregion":
        nodes = [top_of(flat[i]) for i in step[1]]
        for n in nodes:
            T.Dynamo0p3OMPLoopTrans().apply(n)
        T.OMPParallelTrans().apply([top_of(flat[i]) for i in step[1]])
    else:
        raise ValueError(step)


def top_of(node):
    """the child of the InvokeSchedule that holds `node`"""
    from psyclone.psyGen import InvokeSchedule
    while not isinstance(node.parent, InvokeSchedule):
        node = node.parent
    return node


def model_op(step, before, after):
    """Translate an accepted real step into the model's op (None: no effect on the model).
    `before`/`after` are the flat node lists around the step."""
    kind = step[0]
    if kind == "rc":
        return ["rc", step[1], step[2] or 0]
    if kind == "col":
        return ["col", step[1]]
    if kind == "async":
        return ["async", step[1]]
    if kind == "move":
        node = before[step[1]]
        j = [i for i, n in enumerate(after) if n is node][0]
        return ["move", step[1], j]
    return None
