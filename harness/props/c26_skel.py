"""C26 — translator: the ORDER of validation, possible raises, nested transformation calls and tree / symbol-table
mutations in every Transformation.apply(), read from the live source (ast) and written to
lean/PsyVerif/Gen/AtomicSkel.lean as `C26.Skel.Skel` terms:

  check   own validate() / other.validate() / `raise TransformationError` / helper known to raise it
  mutate  a call of a mutating method (MUTATORS) on something that is not a plain local, a store to an attribute or a
          `.children[...]` slot of a non-self object, `del`; also a nested apply() whose TransformationError is
          swallowed by `try … except TransformationError: pass`
  nested  another transformation's apply()
  alt     if / else (both branches kept), conditional expressions are ignored
  loop    for / while bodies
Helper methods of the class (self.xxx(), nested defs) are inlined; `super().apply()` / `Base.apply(self, …)` is replaced
by the base class's own skeleton.  The classification is by method name, i.e. heuristic: it is part of the trusted base
and is cross-checked at run time by props/c26_monitor.py (a mutation event on the tree before an escaping
TransformationError, for a class whose skeleton is safe, breaks the correspondence)."""
import ast
import inspect
import textwrap

MUTATORS = {
    "detach", "replace_with", "addchild", "pop_all_children", "insert", "append", "extend", "pop", "remove",
    "add", "new_symbol", "find_or_create_tag", "find_or_create", "find_or_create_integer_symbol",
    "rename_symbol", "swap_symbol_properties", "merge", "specialise", "attach", "lower_to_language_level",
    "update_halo_exchanges", "set_upper_bound", "set_lower_bound", "append_preceding_comment", "clear", "reverse",
    "sort", "create_halo_exchanges", "rename_and_write", "write_driver", "get_unique_region_name",
    "resolve_type", "copy_external_import", "remove_symbol", "_add_halo_exchange", "update_colourmap",
    "addcall", "raise_psyir", "update", "setdefault",
}
# plain local names whose append/insert/update… is bookkeeping, not a tree mutation
LOCAL_NAMES = {"new_stmts", "refs", "symbols_to_skip", "keys", "result", "args", "names", "new_children", "node_list",
               "my_options", "options", "new_options", "messages", "kernels", "loops", "calls", "todo", "arg_list",
               "arguments", "new_args", "seen", "tmp", "out", "lines", "children", "nodes", "symbols", "sigs",
               "read_only_sigs", "write_sigs", "statements", "stmts", "items", "indices", "ranges", "new_indices",
               "ops", "loop_vars", "vars", "keep", "body", "new_body", "remaining", "kern_names", "all_syms",
               "to_remove", "arg_names", "new_symbols", "local_syms", "kwargs", "actual_args", "formal_args",
               "members", "new_members", "index_list", "new_lines", "name_list", "sorted_names"}
RAISERS = {"get_node_list", "_find_routine", "_get_args", "_validate_dependencies", "_check_accesses",
           "_validate_item", "_validate_single_loop", "_validate_written_scalar", "check_intergrid",
           "check_option"}


class Extractor:
    """produces nested lists: ["check"], ["mutate"], ["nested"], ["alt", [..], [..]], ["loop", [..]]"""

    def __init__(self, cls, start_after=None):
        self.cls = cls
        self.start_after = start_after      # resolve `super()` relative to this class
        self.depth = 0
        self.guard = 0
        self.local_defs = []
        self.active = []
        self.recursive = set()
        self.fresh = set()

    # -- class helpers
    def mro(self):
        m = [c for c in self.cls.__mro__ if c.__module__.startswith("psyclone.")]
        if self.start_after is not None and self.start_after in m:
            m = m[m.index(self.start_after) + 1:]
        return m

    def method(self, name, mro=None):
        for c in (mro if mro is not None else self.mro()):
            f = c.__dict__.get(name)
            if f is not None:
                f = getattr(f, "__func__", f)
                try:
                    return c, ast.parse(textwrap.dedent(inspect.getsource(f))).body[0]
                except (OSError, TypeError, SyntaxError, IndentationError):
                    return c, None
        return None, None

    # -- statements
    def block(self, stmts):
        out = []
        for st in stmts:
            out += self.stmt(st)
        return out

    def atom(self, kind):
        if self.guard and kind in ("check", "nested"):
            kind = "mutate"        # a swallowed refusal: apply() goes on whatever happened
        return [[kind]]

    def stmt(self, st):
        if isinstance(st, ast.FunctionDef):
            return []
        if isinstance(st, ast.Raise):
            txt = ast.unparse(st.exc) if st.exc else ""
            return self.atom("check") if ("TransformationError" in txt or not txt) else []
        if isinstance(st, ast.If):
            pre = self.expr(st.test)
            a, b = self.block(st.body), self.block(st.orelse)
            if not a and not b:
                return pre
            return pre + [["alt", a, b]]
        if isinstance(st, (ast.For, ast.While)):
            pre = self.expr(st.iter) if isinstance(st, ast.For) else []
            body = (self.expr(st.test) if isinstance(st, ast.While) else []) + self.block(st.body)
            rest = self.block(st.orelse)
            return pre + ([["loop", body]] if body else []) + rest
        if isinstance(st, ast.Try):
            swallow = False
            for h in st.handlers:
                t = ast.unparse(h.type) if h.type else ""
                if ("TransformationError" in t or t in ("", "Exception")) and \
                        not any(isinstance(x, ast.Raise) for x in ast.walk(h)):
                    swallow = True
            if swallow:
                self.guard += 1
            body = self.block(st.body)
            if swallow:
                self.guard -= 1
            handlers = []
            for h in st.handlers:
                hb = self.block(h.body)
                if hb:
                    handlers.append(hb)
            out = body
            for hb in handlers:              # a handler may or may not run
                out = out + [["alt", hb, []]]
            return out + self.block(st.orelse) + self.block(st.finalbody)
        if isinstance(st, ast.With):
            return self.block(st.body)
        if isinstance(st, (ast.Assign, ast.AugAssign, ast.AnnAssign)):
            out = self.expr(st.value) if st.value is not None else []
            targets = st.targets if isinstance(st, ast.Assign) else [st.target]
            for t in targets:
                out += self.store(t)
            return out
        if isinstance(st, ast.Delete):
            return self.atom("mutate")
        if isinstance(st, ast.Expr):
            return self.expr(st.value)
        if isinstance(st, ast.Return):
            return self.expr(st.value) if st.value is not None else []
        return []

    def store(self, t):
        if isinstance(t, ast.Attribute):
            base = t.value
            if not (isinstance(base, ast.Name) and base.id == "self"):
                return self.atom("mutate")
        elif isinstance(t, ast.Subscript):
            if isinstance(t.value, ast.Attribute):        # x.children[i] = …, table._symbols[k] = …
                return self.atom("mutate")
        elif isinstance(t, (ast.Tuple, ast.List)):
            out = []
            for e in t.elts:
                out += self.store(e)
            return out
        return []

    def expr(self, e):
        """atoms of all calls inside an expression, in evaluation order (arguments first)"""
        if e is None:
            return []
        out = []
        if isinstance(e, ast.Call):
            for a in e.args:
                out += self.expr(a)
            for k in e.keywords:
                out += self.expr(k.value)
            out += self.call(e)
            return out
        if isinstance(e, (ast.Lambda, ast.GeneratorExp, ast.ListComp, ast.SetComp, ast.DictComp)):
            inner = []
            for child in ast.iter_child_nodes(e):
                if isinstance(child, ast.comprehension):
                    inner += self.expr(child.iter)
                    for c in child.ifs:
                        inner += self.expr(c)
                elif isinstance(child, ast.expr):
                    inner += self.expr(child)
            return [["loop", inner]] if inner else []
        for child in ast.iter_child_nodes(e):
            if isinstance(child, ast.expr):
                out += self.expr(child)
        return out

    def call(self, node):
        f = node.func
        out = []
        if isinstance(f, ast.Attribute):
            recv = ast.unparse(f.value)
            out += self.expr(f.value)
            name = f.attr
            is_super = recv.startswith("super(")
            if name == "validate":
                return out + self.atom("check")
            if name == "apply":
                base_call = is_super or (node.args and ast.unparse(node.args[0]) == "self")
                if base_call:
                    return out + self.inline("apply", via_super=True, explicit=None if is_super else recv)
                return out + self.atom("nested")
            if recv == "self" or is_super:
                return out + self.inline(name, via_super=is_super)
            if name in RAISERS:
                out += self.atom("check")
            if name in MUTATORS:
                plain = isinstance(f.value, ast.Name)
                if not (plain and (f.value.id in LOCAL_NAMES or f.value.id in self.fresh
                                   or f.value.id.endswith("_list")
                                   or f.value.id.endswith("_names") or f.value.id.endswith("options"))):
                    out += self.atom("mutate")
            return out
        if isinstance(f, ast.Name):
            for fn in self.local_defs:
                if fn.name == f.id and self.depth < 4:
                    self.depth += 1
                    out = self.block(fn.body)
                    self.depth -= 1
                    return out
        return out

    def inline(self, name, via_super=False, explicit=None):
        if self.depth >= 8:
            return self.atom("check") + self.atom("mutate")
        mro = self.mro()
        if explicit is not None:          # Base.apply(self, …)
            mro = [c for c in self.cls.__mro__ if c.__name__ == explicit.split(".")[-1]] or mro
            owner, fn = self.method(name, mro)
        elif via_super and self._current_owner is not None and self._current_owner in self.cls.__mro__:
            full = [c for c in self.cls.__mro__ if c.__module__.startswith("psyclone.")]
            owner, fn = self.method(name, full[full.index(self._current_owner) + 1:])
        else:
            owner, fn = self.method(name, [c for c in self.cls.__mro__ if c.__module__.startswith("psyclone.")])
        if fn is None or not isinstance(fn, ast.FunctionDef):
            return []
        name = (owner.__name__, name)
        if name in self.active:           # recursion: the outermost inlining of this method becomes a loop
            self.recursive.add(name)
            return []
        saved_owner, saved_defs = self._current_owner, self.local_defs
        self._current_owner = owner
        self.local_defs = [n for n in ast.walk(fn) if isinstance(n, ast.FunctionDef) and n is not fn]
        saved_fresh = self.fresh
        self.fresh = self.fresh_locals(fn)
        self.depth += 1
        self.active.append(name)
        out = self.block(fn.body)
        self.active.pop()
        self.fresh = saved_fresh
        self.depth -= 1
        self._current_owner, self.local_defs = saved_owner, saved_defs
        if name in self.recursive and name not in self.active:
            self.recursive.discard(name)
            out = [["loop", out]] if out else out
        return out

    _current_owner = None

    @staticmethod
    def fresh_locals(fn):
        """names bound in `fn` to a fresh container (literal, comprehension, list()/set()/dict()/copy())"""
        out = set()
        for n in ast.walk(fn):
            if isinstance(n, ast.Assign) and len(n.targets) == 1 and isinstance(n.targets[0], ast.Name):
                v = n.value
                fresh = isinstance(v, (ast.List, ast.Dict, ast.Set, ast.ListComp, ast.DictComp, ast.SetComp))
                if isinstance(v, ast.Call):
                    f = v.func
                    if isinstance(f, ast.Name) and f.id in ("list", "set", "dict", "OrderedDict", "sorted"):
                        fresh = True
                    if isinstance(f, ast.Attribute) and f.attr in ("copy", "walk", "keys", "values", "items"):
                        # x.copy() of an options dict / list of walked nodes: a new list (the nodes in it are not)
                        fresh = f.attr != "copy" or "option" in ast.unparse(f.value)
                if fresh:
                    out.add(n.targets[0].id)
        return out


def skeleton(cls):
    """structured skeleton of cls.apply (own validate() counts as one check: its body is not inlined)"""
    ex = Extractor(cls)
    owner, fn = ex.method("apply")
    if fn is None:
        return None
    ex._current_owner = owner
    ex.local_defs = [n for n in ast.walk(fn) if isinstance(n, ast.FunctionDef) and n is not fn]
    ex.fresh = ex.fresh_locals(fn)
    ex.active.append((owner.__name__, "apply"))
    return simplify(ex.block(fn.body))


def simplify(items):
    out = []
    for it in items:
        if it[0] == "alt":
            a, b = simplify(it[1]), simplify(it[2])
            if not a and not b:
                continue
            if a == b:
                out += a
                continue
            it = ["alt", a, b]
        elif it[0] == "loop":
            body = simplify(it[1])
            if not body:
                continue
            if all(x == ["mutate"] for x in body):
                it = ["mutate"]
            elif all(x == ["check"] for x in body):
                it = ["check"]
            else:
                it = ["loop", body]
        if it in (["mutate"], ["check"]) and out and out[-1] == it:
            continue
        out.append(it)
    return out


def after(items, dirty):
    """the Lean `C26.Skel.after`, for reporting (None = unsafe)"""
    for it in items:
        k = it[0]
        if k == "check" or k == "nested":
            if dirty:
                return None
            dirty = (k == "nested")
        elif k == "mutate":
            dirty = True
        elif k == "alt":
            a, b = after(it[1], dirty), after(it[2], dirty)
            if a is None or b is None:
                return None
            dirty = a or b
        elif k == "loop":
            d1 = after(it[1], dirty)
            if d1 is None:
                return None
            d2 = after(it[1], d1)
            if d2 is None:
                return None
            dirty = d2
    return dirty


def is_safe(items):
    return items is not None and after(items, False) is not None


def show(items):
    parts = []
    for it in items:
        if it[0] == "alt":
            parts.append("(" + show(it[1]) + " | " + show(it[2]) + ")")
        elif it[0] == "loop":
            parts.append("{" + show(it[1]) + "}*")
        else:
            parts.append({"check": "C", "mutate": "M", "nested": "N"}[it[0]])
    return " ".join(parts)


# ---------------------------------------------------------------------------------------------
# Lean output
class _Counter:
    def __init__(self):
        self.n = 0

    def next(self):
        self.n += 1
        return self.n - 1


def lean_term(items, cnt=None):
    cnt = cnt or _Counter()
    if not items:
        return ".nil"
    it, rest = items[0], items[1:]
    if it[0] in ("check", "mutate", "nested"):
        return f"(.atom (.{it[0]} {cnt.next()}) {lean_term(rest, cnt)})"
    if it[0] == "alt":
        i = cnt.next()
        a = lean_term(it[1], cnt)
        b = lean_term(it[2], cnt)
        return f"(.alt {i} {a} {b} {lean_term(rest, cnt)})"
    i = cnt.next()
    body = lean_term(it[1], cnt)
    return f"(.loop {i} {body} {lean_term(rest, cnt)})"


# classes whose skeleton is expected to be safe (recorded on /repo 16b0f42); a class dropping out of the safe shape because
# its source changed makes `C26_all_expected_safe` fail to compile = a broken proof obligation
EXPECTED_SAFE = [
    "RaisePSyIR2AlgTrans", "GOceanAlgInvoke2PSyCallTrans", "GOConstLoopBoundsTrans", "GOceanLoopFuseTrans",
    "GOMoveIterationBoundariesInsideKernelTrans", "GOOpenCLTrans", "RaisePSyIR2GOceanKernTrans", "LFRicAlgInvoke2PSyCallTrans",
    "LFRicLoopFuseTrans", "RaisePSyIR2LFRicAlgTrans", "RaisePSyIR2LFRicKernTrans", "CreateNemoInvokeScheduleTrans",
    "DummyTransformation", "AssignmentTrans", "ACCKernelsTrans", "ACCUpdateTrans",
    "AllArrayAccess2LoopTrans", "ArrayAccess2LoopTrans", "ArrayAssignment2LoopsTrans", "ChunkLoopTrans",
    "ExtractTrans", "FoldConditionalReturnExpressionsTrans", "HoistLocalArraysTrans", "HoistLoopBoundExprTrans",
    "HoistTrans", "InlineTrans", "Abs2CodeTrans", "DotProduct2CodeTrans",
    "Matmul2CodeTrans", "Max2CodeTrans", "Min2CodeTrans", "MinOrMax2CodeTrans",
    "LoopFuseTrans", "LoopSwapTrans", "NanTestTrans", "OMPTargetTrans",
    "OMPTaskwaitTrans", "ProfileTrans", "PSyDataTrans", "ReadOnlyVerifyTrans",
    "Reference2ArrayRangeTrans", "ReplaceInductionVariablesTrans", "ACCDataTrans", "ACCEnterDataTrans",
    "ACCLoopTrans", "ACCParallelTrans", "ACCRoutineTrans", "ColourTrans",
    "Dynamo0p3AsyncHaloExchangeTrans", "Dynamo0p3ColourTrans", "Dynamo0p3RedundantComputationTrans", "DynamoOMPParallelLoopTrans",
    "GOceanOMPParallelLoopTrans", "KernelImportsToArguments", "MoveTrans", "OMPDeclareTargetTrans",
    "OMPMasterTrans", "OMPParallelLoopTrans", "OMPParallelTrans", "OMPSingleTrans",
    "OMPTaskloopTrans",
]


def generate(classes, expected_safe=None):
    expected_safe = EXPECTED_SAFE if expected_safe is None else expected_safe
    lines = ["import PsyVerif.Lemmas.AtomicSkel",
             "/-! GENERATED by harness/props/c26_skel.py from the live PSyclone source — do not edit. -/",
             "namespace C26.Skel.Gen", "open C26.Skel", ""]
    names = []
    for c in classes:
        sk = skeleton(c)
        if sk is None:
            continue
        names.append(c.__name__)
        lines.append(f"/-- `{c.__name__}.apply`:  {show(sk) or '(nothing)'} -/")
        lines.append(f"def sk_{c.__name__} : Skel := {lean_term(sk)}")
    lines.append("")
    exp = [n for n in expected_safe if n in names]
    lines.append("def expectedSafe : List Skel := [" + ", ".join(f"sk_{n}" for n in exp) + "]")
    lines.append("def others : List Skel := [" + ", ".join(f"sk_{n}" for n in names if n not in exp) + "]")
    lines.append("")
    lines.append("end C26.Skel.Gen")
    return "\n".join(lines) + "\n"


if __name__ == "__main__":
    import os
    import sys
    sys.path.insert(0, os.path.dirname(os.path.dirname(os.path.abspath(__file__))))
    import common  # noqa: F401
    from props import c26_sweep as S
    for c in S.all_transformations():
        sk = skeleton(c)
        print(f"{c.__name__:45s} {'safe  ' if is_safe(sk) else 'UNSAFE'} {show(sk or [])}")
