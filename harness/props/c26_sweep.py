"""C26 — the generic differential sweep (exploration): every Transformation subclass found by
introspection x every node / consecutive-node list of a program x option combinations.
`attempt()` applies inside try/except and compares a snapshot (written code + every symbol table +
scalar node attributes) taken before and after.  Everything here runs against the real PSyclone
code only; nothing is modelled."""
import contextlib
import enum
import importlib
import inspect
import io
import itertools
import os
import pkgutil
import re

from props import c26_progs

_CACHE = {}


# ---------------------------------------------------------------------------------------------
# transformations by introspection
def all_transformations():
    """Concrete Transformation subclasses of the live tree, sorted by qualified name."""
    if "trans" in _CACHE:
        return _CACHE["trans"]
    import psyclone.domain
    import psyclone.psyad.transformations  # noqa: F401
    import psyclone.psyir.transformations  # noqa: F401
    import psyclone.transformations  # noqa: F401
    from psyclone.psyGen import Transformation
    for m in pkgutil.walk_packages(psyclone.domain.__path__, "psyclone.domain."):
        try:
            importlib.import_module(m.name)
        except Exception:  # pylint: disable=broad-except
            pass
    seen = []

    def subs(c):
        for s in c.__subclasses__():
            if s not in seen:
                seen.append(s)
            subs(s)
    subs(Transformation)
    out = [c for c in seen if not inspect.isabstract(c) and c.__module__.startswith("psyclone.")
           and ".tests." not in c.__module__]
    out.sort(key=lambda c: (c.__module__, c.__name__))
    _CACHE["trans"] = out
    return out


def trans_by_name(name):
    for c in all_transformations():
        if c.__name__ == name:
            return c
    raise KeyError(name)


# constructor variants (label -> kwargs); the default variant "" is `cls()`
CTOR = {
    "OMPLoopTrans": {"": {}, "pdo": {"omp_directive": "paralleldo"}, "loop": {"omp_directive": "loop"},
                     "tdpd": {"omp_directive": "teamsdistributeparalleldo"},
                     "dyn": {"omp_schedule": "dynamic,2"}},
    "OMPParallelLoopTrans": {"": {}, "dyn": {"omp_schedule": "dynamic"}},
    "Dynamo0p3OMPLoopTrans": {"": {}, "dyn": {"omp_schedule": "dynamic"}},
    "GOceanOMPLoopTrans": {"": {}, "loop": {"omp_directive": "loop"}},
    "OMPTaskloopTrans": {"": {}, "gs": {"grainsize": 4}, "nt": {"num_tasks": 2, "nogroup": True}},
    "OMPSingleTrans": {"": {}, "nowait": {"nowait": True}},
}


def make_trans(cls, variant, tree):
    """Instantiate; AdjointTransformation subclasses need active variables of the tree."""
    from psyclone.psyad.transformations.adjoint_trans import AdjointTransformation
    if issubclass(cls, AdjointTransformation):
        from psyclone.psyir.nodes import Routine
        from psyclone.psyir.symbols import DataSymbol, ScalarType, ArrayType
        act = []
        for r in tree.root.walk(Routine):
            for s in r.symbol_table.datasymbols:
                dt = s.datatype
                intr = getattr(dt, "intrinsic", None)
                if isinstance(dt, (ScalarType, ArrayType)) and intr == ScalarType.Intrinsic.REAL \
                        and s.name not in ("k",):
                    act.append(s)
        if not act:
            return None
        return cls(act)
    kwargs = CTOR.get(cls.__name__, {"": {}}).get(variant, {})
    return cls(**kwargs)


def variants(cls):
    return list(CTOR.get(cls.__name__, {"": {}}))


def second_param(cls):
    try:
        ps = list(inspect.signature(cls.apply).parameters)
    except (TypeError, ValueError):
        return None
    return ps[2] if len(ps) > 2 else None


def n_positional(cls):
    """number of positional target arguments of apply (before `options`)"""
    try:
        ps = list(inspect.signature(cls.apply).parameters.values())[1:]
    except (TypeError, ValueError):
        return 1
    n = 0
    for p in ps:
        if p.name == "options" or p.kind in (p.VAR_POSITIONAL, p.VAR_KEYWORD):
            break
        n += 1
    return max(n, 1)


# ---------------------------------------------------------------------------------------------
# options: keys named in the docstrings of apply/validate along the MRO, values from a table
OPTION_VALUES = {
    "collapse": [2, 3, 1, 0, -1, "x", True, 99],
    "tilesize": [4, 2, 8, 32, 40, 0, -2, "x", 1.5],
    "chunksize": [4, 2, 8, 32, 40, 1, 0, -3, "x", 2.5],
    "force": [True, False],
    "verbose": [True, False],
    "reprod": [True, False],
    "depth": [1, 2, 0, -1, "x", 3],
    "region_name": [["mod", "reg"], "bad", ["a"], [1, 2]],
    "prefix": ["extract", "1bad", "", "profile"],
    "create_driver": [True],
    "independent": [True, False],
    "sequential": [True, False],
    "gang": [True, False],
    "vector": [True, False],
    "default_present": [True, False, 3],
    "nowait": [True, False],
    "node-type-check": [False, True],
    "allow_string": [True, False],
    "allow_strings": [True],
    "apply_to_first": [True],
    "cellshape": ["quadrilateral", "triangle", 3],
    "element_order": [0, 1, -1, "x"],
    "number_of_layers": [20, 0, -1, "x"],
    "quadrature": [True, False, 2],
    "device_string": ["nvidia", ""],
    "privates": [["t"], "t"],
    "async_queue": [1, True, "x"],
    "enable_profiling": [True, False],
    "out_of_order": [True, False],
    "local_size": [4, 64, "x"],
    "queue_number": [2, "x"],
    "end_of_todos": [True],
    "move_up": [True],
    "ignore_dependencies_for": [["a"], "a", ["zz"]],
    "loop-var-name": ["ix"],
    "routine-symbol-table": [None],
    "preserve_reductions": [True],
    "allow_non_pure_calls": [True],
    "kernel-name": ["kern_x"],
    "loop_type": ["null"],
    "type": ["x"],
}
GENERIC_KEYS = ["collapse", "force", "verbose", "region_name", "node-type-check"]


def option_keys(cls):
    keys = []
    for c in cls.__mro__:
        for fn in ("apply", "validate"):
            f = c.__dict__.get(fn)
            doc = getattr(f, "__doc__", None) or ""
            for k in re.findall(r"options\[\s*[\"']([^\"']+)[\"']\s*\]", doc):
                if k not in keys:
                    keys.append(k)
            try:
                src = inspect.getsource(f) if f else ""
            except (OSError, TypeError):
                src = ""
            for k in re.findall(r"options(?:\.get\(|\[)\s*[\"']([^\"']+)[\"']", src):
                if k not in keys:
                    keys.append(k)
    return [k for k in keys if k != "option-name"]


def option_pool(cls):
    """deterministic list of option specs: None, {}, singletons of each documented key x value,
    a few generic foreign keys, pairs of documented keys, and malformed option objects"""
    if ("pool", cls) in _CACHE:
        return _CACHE[("pool", cls)]
    keys = option_keys(cls)
    pool = [None, {}]
    for k in keys:
        for v in OPTION_VALUES.get(k, [True, False, 1, "x"]):
            pool.append({k: v})
    for k in GENERIC_KEYS:
        if k not in keys:
            pool.append({k: OPTION_VALUES[k][0]})
    for k1, k2 in itertools.combinations(keys[:6], 2):
        pool.append({k1: OPTION_VALUES.get(k1, [True])[0], k2: OPTION_VALUES.get(k2, [True])[0]})
        pool.append({k1: OPTION_VALUES.get(k1, [True])[-1], k2: OPTION_VALUES.get(k2, [True])[0]})
    pool.append("JUNK:str")
    pool.append("JUNK:list")
    _CACHE[("pool", cls)] = pool
    return pool


def real_options(spec):
    if spec is None:
        return None
    if spec == "JUNK:str":
        return "options"
    if spec == "JUNK:list":
        return ["collapse", 2]
    out = dict(spec)
    rn = out.get("region_name")
    if isinstance(rn, list):
        out["region_name"] = tuple(rn)
    return out


# ---------------------------------------------------------------------------------------------
# programs and fresh trees
class Tree:
    """one mutable instance of a program: `root` (PSyIR root), optional `psy`"""

    def __init__(self, root, psy=None, api=None):
        self.root, self.psy, self.api = root, psy, api


class Program:
    """factory of fresh trees; `spec` is a JSON-able description for replay files"""

    def __init__(self, spec, repo):
        self.spec, self.repo = spec, repo
        self.kind = spec["kind"]
        self._parsed = None
        self.name = spec.get("name") or spec.get("file")

    def source(self):
        s = self.spec
        if "source" in s:
            return s["source"]
        if s["kind"] == "generic":
            return c26_progs.GENERIC[s["name"]]
        if s["kind"] == "alg":
            return c26_progs.ALG_LFRIC if s["api"] == "lfric" else c26_progs.ALG_GOCEAN
        return None

    def fresh(self):
        from psyclone.configuration import Config
        s = self.spec
        if self.kind in ("generic", "alg", "minif"):
            Config.get().api = s.get("api", "nemo") if self.kind == "alg" else "nemo"
            if self._parsed is None:
                from psyclone.psyir.frontend.fortran import FortranReader
                self._parsed = FortranReader().psyir_from_source(self.source())
            return self._history(Tree(self._parsed.copy()))
        # PSy-layer invoke
        from psyclone.parse.algorithm import parse
        from psyclone.psyGen import PSyFactory, CodedKern
        api = s["api"]
        Config.get().api = api
        if self._parsed is None:
            _, info = parse(c26_progs.test_file(self.repo, s["file"]), api=api)
            self._parsed = info
        psy = PSyFactory(api, distributed_memory=s["dm"]).create(self._parsed)
        root = psy.invokes.invoke_list[0].schedule.root
        for k in root.walk(CodedKern):
            try:
                k.get_kernel_schedule()
            except Exception:  # pylint: disable=broad-except
                pass
        tree = Tree(root, psy, api)
        warm_up(tree)
        return self._history(tree)

    def _history(self, tree):
        """apply the accepted transformations listed under spec["pre"] (program with a history)"""
        for cname, variant, target, optspec in self.spec.get("pre", []):
            trans = make_trans(trans_by_name(cname), variant, tree)
            with contextlib.redirect_stdout(io.StringIO()):
                trans.apply(*real_target(tree, target), options=real_options(optspec))
        if self.spec.get("pre"):
            warm_up(tree)
        return tree


def warm_up(tree):
    """PSy-layer trees compute some things lazily and store them in the tree on first *read*
    (LFRicLoop.start_expr/stop_expr replace the bound children and declare loopN_start/stop; code
    generation declares further symbols).  Reading them here, before the baseline snapshot, keeps such
    caches from being mistaken for a change made by a refused transformation."""
    from psyclone.psyir.nodes import Loop
    if tree.psy is None:
        return
    for _ in range(2):
        for loop in tree.root.walk(Loop):
            for attr in ("start_expr", "stop_expr", "step_expr"):
                try:
                    getattr(loop, attr)
                except Exception:  # pylint: disable=broad-except
                    pass
        code_of(tree)


def program_specs(rng=None, n_minif=0, nstmts=5):
    specs = [{"kind": "generic", "name": n} for n in c26_progs.GENERIC]
    specs += [{"kind": "alg", "api": "lfric", "name": "alg_lfric"},
              {"kind": "alg", "api": "gocean1.0", "name": "alg_gocean"}]
    specs += [{"kind": "psy", "api": a, "file": f, "dm": dm} for a, f, dm in c26_progs.INVOKES]
    for i in range(n_minif):
        specs.append({"kind": "minif", "name": f"minif{i}", "source": c26_progs.minif_source(rng, nstmts)})
    return specs


# ---------------------------------------------------------------------------------------------
# snapshot
_SKIP_ATTR = {"_parent", "_children", "_symbol_table", "_ast", "_ast_end", "_parent_symbol_table"}


def _val(v, depth=0):
    from psyclone.psyir.symbols import Symbol
    if isinstance(v, (str, int, float, bool)):
        return repr(v)
    if isinstance(v, enum.Enum):
        return str(v)
    if isinstance(v, Symbol):
        return "sym:" + v.name
    if isinstance(v, (list, tuple)) and depth < 2:
        return "[" + ",".join(_val(x, depth + 1) for x in v) + "]"
    if isinstance(v, dict) and depth < 2:
        return "{" + ",".join(f"{_val(k, 2)}:{_val(x, depth + 1)}" for k, x in v.items()) + "}"
    return "-"


def _symtab(table, out):
    out.append(f"  default_visibility={table.default_visibility}")
    for name, sym in table.symbols_dict.items():
        extra = ""
        iv = getattr(sym, "initial_value", None)
        if iv is not None:
            extra = " init=" + iv.debug_string().strip()
        out.append(f"  sym {name} {type(sym).__name__} {sym} vis={sym.visibility}{extra}")
    for tag, sym in sorted(table.get_tags().items()):
        out.append(f"  tag {tag} -> {sym.name}")
    out.append("  view: " + table.view())


def structure(root):
    from psyclone.psyir.nodes import ScopingNode
    out = []

    def rec(node, depth):
        attrs = []
        for k in sorted(vars(node)):
            if k in _SKIP_ATTR:
                continue
            if k == "_argument_names":     # [(id(child), name)], reconciled lazily with the children on
                try:                       # every read of `argument_names`: read the reconciled view
                    names = list(node.argument_names)
                except Exception:  # pylint: disable=broad-except
                    names = [x[1] for x in vars(node)[k]]
                attrs.append("argnames=" + _val(names))
                continue
            s = _val(vars(node)[k])
            if s != "-":
                attrs.append(f"{k}={s}")
        out.append(f"{'.' * depth}{type(node).__name__} {' '.join(attrs)}")
        if isinstance(node, ScopingNode):
            _symtab(node.symbol_table, out)
        for c in node.children:
            if c.parent is not node:
                out.append(f"{'.' * depth} !parent-link-broken")
            rec(c, depth + 1)
    rec(root, 0)
    return "\n".join(out)


def code_of(tree):
    from psyclone.psyGen import CodedKern
    try:
        with contextlib.redirect_stdout(io.StringIO()):
            if tree.psy is not None and not str(tree.api).startswith("gocean"):
                txt = str(tree.psy.gen)
            else:
                # generic PSyIR, and GOcean (whose psy.gen lowers the PSy-layer tree IN PLACE: the writer lowers a copy)
                from psyclone.psyir.backend.fortran import FortranWriter
                txt = FortranWriter()(tree.root)
    except Exception as err:  # pylint: disable=broad-except
        txt = f"CODE-GENERATION-FAILS: {type(err).__name__}: {str(err)[:300]}"
    if tree.psy is not None:
        from psyclone.psyir.backend.fortran import FortranWriter
        for k in tree.root.walk(CodedKern):
            ks = getattr(k, "_kern_schedule", None)
            if ks is not None:
                try:
                    txt += f"\n! kernel {k.name} modified={k.modified} inline={k.module_inline}\n" \
                           + FortranWriter()(ks.root) + "\n" + structure(ks.root)
                except Exception as err:  # pylint: disable=broad-except
                    txt += f"\n! kernel {k.name}: writer fails {type(err).__name__}"
    return txt


def outside_tree():
    """state outside the PSyIR that changes the code written by LATER transformations: the PSyData region-name
    counters (a bumped counter renames every later region), and files written into the scratch directory"""
    out = []
    try:
        from psyclone.psyir.transformations.psy_data_trans import PSyDataTrans
        out.append("region-name counters: " + repr(sorted(PSyDataTrans._used_kernel_names.items())))
    except Exception:  # pylint: disable=broad-except
        pass
    try:
        out.append("files: " + repr(sorted(os.listdir("."))))
    except OSError:
        pass
    return "\n".join(out)


def snapshot(tree):
    # structure first: code generation of the PSy layer may add symbols lazily; `fresh` has
    # already generated once, so both parts are stable afterwards (checked by `stable`)
    return structure_of(tree) + "\n=====\n" + code_of(tree)


def structure_of(tree):
    return structure(tree.root) + "\n" + outside_tree()


def first_diff(a, b):
    la, lb = a.split("\n"), b.split("\n")
    for i, (x, y) in enumerate(zip(la, lb)):
        if x != y:
            return {"line": i, "before": x[:400], "after": y[:400]}
    if len(la) != len(lb):
        longer, tag = (la, "before") if len(la) > len(lb) else (lb, "after")
        return {"line": min(len(la), len(lb)), "only_" + tag: longer[min(len(la), len(lb))][:400],
                "len_before": len(la), "len_after": len(lb)}
    return None


# ---------------------------------------------------------------------------------------------
# targets
def path_of(node, root):
    path = []
    while node is not root:
        if node.parent is None:
            return None
        path.append(node.position)
        node = node.parent
    return path[::-1]


def resolve(root, path):
    n = root
    for i in path:
        n = n.children[i]
    return n


def targets_of(tree, npos, rng=None, max_lists=40, max_pairs=80, second=None):
    """JSON-able target specs for a transformation with `npos` positional target arguments."""
    from psyclone.psyir.nodes import Schedule, Statement, Loop
    from psyclone.psyGen import CodedKern
    root = tree.root
    nodes = list(_walk(root))
    out = []
    if npos == 1:
        out += [["node", path_of(n, root)] for n in nodes]
        lists = []
        for s in nodes:
            if isinstance(s, Schedule) and len(s.children) >= 1:
                m = len(s.children)
                for i in range(m):
                    for j in range(i + 1, m + 1):
                        if j - i >= 2 or m == 1:
                            lists.append(["list", path_of(s, root), i, j])
                if m >= 3:
                    lists.append(["nclist", path_of(s, root), 0, 2])   # non-consecutive children
        if rng is not None and len(lists) > max_lists:
            lists = rng.sample(lists, max_lists)
        out += lists
        for k in nodes:
            if isinstance(k, CodedKern) and getattr(k, "_kern_schedule", None) is not None:
                out.append(["kernsched", path_of(k, root)])
        out += [["junk", "none"], ["junk", "str"], ["junk", "emptylist"], ["junk", "mixedlist"]]
    elif second == "index":
        from psyclone.psyir.nodes import Call
        for n in nodes:
            if isinstance(n, (Call, Loop)):
                out += [["nodeidx", path_of(n, root), i] for i in (0, 1, 7, -1)]
        out.append(["nodeidx", [], 0])
    else:
        cands = [n for n in nodes if isinstance(n, Statement)]
        loops = [n for n in cands if isinstance(n, Loop)]
        pairs = [(a, b) for a in loops for b in loops if a is not b]
        others = [(a, b) for a in cands for b in cands if a is not b and not (isinstance(a, Loop) and isinstance(b, Loop))]
        if rng is not None:
            if len(pairs) > max_pairs:
                pairs = rng.sample(pairs, max_pairs)
            if len(others) > max_pairs:
                others = rng.sample(others, max_pairs)
        else:
            others = others[:4 * max_pairs]
        out += [["pair", path_of(a, root), path_of(b, root)] for a, b in pairs + others]
        if cands:
            out.append(["pairjunk", path_of(cands[0], root)])
    return out


def _walk(node):
    yield node
    for c in node.children:
        yield from _walk(c)


def real_target(tree, t):
    kind = t[0]
    root = tree.root
    if kind == "node":
        return (resolve(root, t[1]),)
    if kind == "list":
        s = resolve(root, t[1])
        return (list(s.children[t[2]:t[3]]),)
    if kind == "nclist":
        s = resolve(root, t[1])
        return ([s.children[t[2]], s.children[t[3]]],)
    if kind == "kernsched":
        return (resolve(root, t[1]).get_kernel_schedule(),)
    if kind == "pair":
        return (resolve(root, t[1]), resolve(root, t[2]))
    if kind == "nodeidx":
        return (resolve(root, t[1]), t[2])
    if kind == "pairjunk":
        return (resolve(root, t[1]), None)
    if kind == "junk":
        return ({"none": None, "str": "a node", "emptylist": [],
                 "mixedlist": [resolve(root, []), 3]}[t[1]],)
    raise ValueError(kind)


def describe_target(tree, t):
    try:
        args = real_target(tree, t)
    except Exception:  # pylint: disable=broad-except
        return str(t)
    out = []
    for a in args:
        if isinstance(a, list):
            out.append("[" + ", ".join(type(x).__name__ for x in a) + "]")
        else:
            txt = ""
            if hasattr(a, "debug_string"):
                try:
                    txt = " `" + a.debug_string().strip().split("\n")[0][:60] + "`"
                except Exception:  # pylint: disable=broad-except
                    txt = ""
            out.append(type(a).__name__ + txt)
    return ", ".join(out)


# ---------------------------------------------------------------------------------------------
# one attempt
def attempt(tree, cls, variant, target, optspec, before=None, snapfn=None, monitor=False):
    """-> dict(outcome = accepted | refused | error:<Type> | skip, changed = bool, diff, message)"""
    from psyclone.psyir.transformations import TransformationError
    snapfn = snapfn or snapshot
    before = before if before is not None else snapfn(tree)
    try:
        trans = make_trans(cls, variant, tree)
    except Exception as err:  # pylint: disable=broad-except
        return {"outcome": "skip", "changed": False, "message": f"constructor: {type(err).__name__}"}
    if trans is None:
        return {"outcome": "skip", "changed": False, "message": "no instance"}
    try:
        args = real_target(tree, target)
    except Exception as err:  # pylint: disable=broad-except
        return {"outcome": "skip", "changed": False, "message": f"target: {type(err).__name__}"}
    opts = real_options(optspec)
    msg = ""
    if monitor:
        from props import c26_monitor
        c26_monitor.start(tree.root)
    try:
        with contextlib.redirect_stdout(io.StringIO()), contextlib.redirect_stderr(io.StringIO()):
            trans.apply(*args, options=opts)
        outcome = "accepted"
    except TransformationError as err:
        outcome, msg = "refused", str(err.value if hasattr(err, "value") else err)[:300]
        phase, where = refusal_phase(err, trans)
    except RecursionError as err:
        outcome, msg = "error:RecursionError", str(err)[:100]
    except Exception as err:  # pylint: disable=broad-except
        outcome, msg = "error:" + type(err).__name__, str(err)[:300]
    res = {"outcome": outcome, "changed": False, "message": msg}
    if monitor:
        res["events"] = c26_monitor.stop()
    if outcome == "refused":
        res["phase"], res["where"] = phase, where
    if outcome != "accepted":
        after = snapfn(tree)
        if after != before:
            res["changed"] = True
            res["diff"] = first_diff(before, after)
    return res


def refusal_phase(err, trans):
    """("validate" | "apply", "file:function:line" of the raise).  "validate" = the exception left
    the outermost apply() through that transformation's own validate() call; "apply" = it was raised
    later (directly, or by a nested transformation / tree operation)."""
    frames = []
    tb = err.__traceback__
    while tb is not None:
        frames.append(tb.tb_frame)
        last_line = tb.tb_lineno
        tb = tb.tb_next
    frames = frames[1:]          # drop attempt()
    phase = "apply"
    for f in frames:
        if f.f_code.co_name == "apply" and f.f_locals.get("self") is trans:
            continue
        if f.f_code.co_name == "validate" and f.f_locals.get("self") is trans:
            phase = "validate"
        break
    last = frames[-1] if frames else None
    where = ""
    if last is not None:
        where = f"{os.path.basename(last.f_code.co_filename)}:{last.f_code.co_name}:{last_line}"
    return phase, where


def scratch_dir():
    """code generation of some transformed trees writes kernel files: run inside a scratch dir"""
    import tempfile
    from psyclone.configuration import Config
    d = tempfile.mkdtemp(prefix="c26-")
    os.chdir(d)
    Config.get()._kernel_output_dir = d
    return d


# ---------------------------------------------------------------------------------------------
# the sweep over one program
def target_key(tree, t):
    """class of a target, used to prune: after `prune_after` uninteresting results of one
    transformation on targets of one class the remaining targets of that class are sampled"""
    if t[0] in ("node", "kernsched", "nodeidx"):
        try:
            return t[0] + ":" + type(resolve(tree.root, t[1])).__name__
        except Exception:  # pylint: disable=broad-except
            return t[0]
    if t[0] == "pair":
        try:
            return "pair:" + type(resolve(tree.root, t[1])).__name__ + "," + type(resolve(tree.root, t[2])).__name__
        except Exception:  # pylint: disable=broad-except
            return "pair"
    return t[0]


class Sweep:
    """Runs attempts on one program, keeping one working tree as long as it is unchanged.
    Two-level snapshot: structure + symbol tables after every refusal, the written code every
    `code_every` refusals (a difference is then bisected by re-running those attempts one by one on
    fresh trees with the full snapshot)."""

    def __init__(self, prog, rng, deadline, stats, code_every=25):
        import collections
        import time
        self.prog, self.rng, self.deadline, self.stats = prog, rng, deadline, stats
        self.time = time
        self.code_every = code_every
        self.findings = []        # refused + changed
        self.other = []           # non-TransformationError exceptions that changed the tree
        self.late = collections.Counter()   # (trans, where) of refusals raised after validate
        self.accepted = {}        # transformation name -> one accepted (variant, target, options): seeds of histories
        self.safe_skeletons = set()   # classes whose extracted skeleton is safe: monitored (see c26_monitor)
        self.nonconforming = []       # refusals of such classes that were preceded by a mutation event
        self.n = 0
        self.tree = None
        self.pending = []
        self._renew()

    def _renew(self):
        self.tree = self.prog.fresh()
        structure_of(self.tree)
        self.base_c = code_of(self.tree)
        self.base_s = structure_of(self.tree)      # after code generation: lazily filled caches are in
        if structure_of(self.tree) != self.base_s or code_of(self.tree) != self.base_c:
            raise RuntimeError("snapshot of an untouched tree is not stable")
        self.pending = []

    def out_of_time(self):
        return self.time.time() > self.deadline

    def _record(self, cls, variant, target, optspec, res, level):
        rec = {"program": self.prog.spec, "trans": cls.__name__, "variant": variant, "target": target,
               "options": optspec, "outcome": res["outcome"], "message": res["message"],
               "phase": res.get("phase"), "where": res.get("where"), "diff": res.get("diff"),
               "level": level}
        try:
            rec["target_text"] = describe_target(self.prog.fresh(), target)
        except Exception:  # pylint: disable=broad-except
            rec["target_text"] = ""
        (self.findings if res["outcome"] == "refused" else self.other).append(rec)

    def flush(self):
        """compare the written code for the refusals since the last comparison"""
        if not self.pending:
            return
        if code_of(self.tree) != self.base_c:
            for (cls, variant, target, optspec) in self.pending:
                tree = self.prog.fresh()
                res = attempt(tree, cls, variant, target, optspec)
                if res["changed"]:
                    self._record(cls, variant, target, optspec, res, "code")
            self._renew()
        self.pending = []

    def do(self, cls, variant, target, optspec):
        self.n += 1
        mon = self.tree.psy is None and cls.__name__ in self.safe_skeletons
        res = attempt(self.tree, cls, variant, target, optspec, before=self.base_s, snapfn=structure_of, monitor=mon)
        out = res["outcome"]
        if mon:
            self.stats["monitored"] += 1
            if out == "refused" and res.get("events"):
                self.nonconforming.append({"program": self.prog.spec, "trans": cls.__name__, "variant": variant,
                                           "target": target, "options": optspec, "events": res["events"][:6],
                                           "where": res.get("where"), "changed": res["changed"]})
        self.stats[out.split(":")[0]] += 1
        if out == "refused":
            self.stats["refused_in_" + res["phase"]] += 1
            if res["phase"] == "apply":
                self.late[(cls.__name__, res["where"])] += 1
        if res["changed"]:
            self.stats["changed_" + out.split(":")[0]] += 1
            self._record(cls, variant, target, optspec, res, "structure")
            self._renew()
        elif out == "accepted":
            if cls.__name__ not in self.accepted or self.rng.random() < 0.2:
                self.accepted[cls.__name__] = (variant, target, optspec)
            # the working tree is now transformed: take a fresh one and put it through the refusals
            # whose written code has not been compared yet
            pending = self.pending
            self._renew()
            for (c, v, t, o) in pending:
                attempt(self.tree, c, v, t, o, before="", snapfn=lambda tree: "")
            self.pending = pending
        elif out != "skip":
            self.pending.append((cls, variant, target, optspec))
            if len(self.pending) >= self.code_every:
                self.flush()
        return res

    def run(self, classes, prune_after=3, keep=0.05, max_opts=None, opt_probe=1):
        """phase A: every transformation x target with options None (pruned per target class);
        phase B: every option of the pool (all constructor variants) on the targets found relevant;
        phase C: every option once on `opt_probe` random other targets."""
        rng = self.rng
        for cls in classes:
            if self.out_of_time():
                break
            npos = n_positional(cls)
            tgs = targets_of(self.tree, npos, rng, second=second_param(cls))
            rng.shuffle(tgs)
            pool = option_pool(cls)
            dull = {}
            relevant, irrelevant = [], []
            typecheck_where = None
            probe = self.do(cls, "", ["junk", "str"] if npos == 1 else ["pairjunk", []], None)
            if probe["outcome"] == "refused":
                typecheck_where = probe["where"]
            for t in tgs:
                if self.out_of_time():
                    break
                key = target_key(self.tree, t)
                if prune_after and dull.get(key, 0) >= prune_after and rng.random() > keep:
                    self.stats["pruned"] += 1
                    irrelevant.append(t)
                    continue
                res = self.do(cls, "", t, None)
                interesting = (res["outcome"] == "accepted" or res["changed"] or
                               (res["outcome"] == "refused" and res["where"] != typecheck_where))
                if interesting:
                    dull[key] = 0
                    relevant.append(t)
                else:
                    dull[key] = dull.get(key, 0) + 1
                    irrelevant.append(t)
            opts = pool[1:]
            for t in relevant:
                todo = [(v, o) for v in variants(cls) for o in opts if not (v == "" and o is None)]
                if max_opts is not None and len(todo) > max_opts:
                    todo = rng.sample(todo, max_opts)
                for v, o in todo:
                    if self.out_of_time():
                        break
                    self.do(cls, v, t, o)
            for v in variants(cls):
                for o in opts:
                    for _ in range(opt_probe):
                        if self.out_of_time() or not irrelevant:
                            break
                        self.do(cls, v, rng.choice(irrelevant), o)
        self.flush()


# ---------------------------------------------------------------------------------------------
# change-directed budget (DESIGN 3.3): source fingerprints of the transformation classes
def fingerprint(cls):
    """hash of the source of every psyclone class in the MRO of a transformation"""
    import hashlib
    hsh = hashlib.sha1()
    for c in cls.__mro__:
        if not c.__module__.startswith("psyclone."):
            continue
        try:
            hsh.update(inspect.getsource(c).encode())
        except (OSError, TypeError):
            hsh.update(c.__name__.encode())
    return hsh.hexdigest()[:16]


def changed_classes():
    """transformation classes whose source differs from the recorded fingerprints (never reported by
    itself; such classes are swept first, unpruned, with every option)"""
    try:
        from props import c26_fingerprints
    except ImportError:
        return []
    ref = c26_fingerprints.FINGERPRINTS
    return [c for c in all_transformations() if ref.get(c.__name__) != fingerprint(c)]
