"""C01 generator: builds BOTH the Fortran text and the source AST (S-expression of
lean/PsyVerif/Model/Frontend.lean `Src`) of random programs.  The AST is never derived
from fparser2/PSyIR."""

INT, REAL = "integer", "real"
# does the reader compare construct names case-sensitively (pinned behaviour, a known finding)?  Set by the
# harness from a probe of the live code, so that the expected Loop-vs-CodeBlock structure follows the code.
NAME_CASE_SENSITIVE = True


class Arr:
    def __init__(self, name, lo, hi, typ, lo2=None, hi2=None):
        self.name, self.lo, self.hi, self.typ, self.lo2, self.hi2 = name, lo, hi, typ, lo2, hi2

    @property
    def rank(self):
        return 1 if self.lo2 is None else 2

    @property
    def typed(self):
        # a negative literal bound is a unary expression: the reader keeps the declaration
        # as an UnsupportedFortranType and queries SIZE/LBOUND at run time
        return self.lo >= 0 and (self.lo2 is None or self.lo2 >= 0)

    @property
    def extent2(self):
        return self.hi2 - self.lo2 + 1

    @property
    def extent(self):
        return self.hi - self.lo + 1

    def decl(self):
        dim = f"{self.hi}" if self.lo == 1 else f"{self.lo}:{self.hi}"
        if self.lo2 is not None:
            dim += ", " + (f"{self.hi2}" if self.lo2 == 1 else f"{self.lo2}:{self.hi2}")
        return f"  {self.typ}, dimension({dim}) :: {self.name}"


class Routine:
    def __init__(self, name, text, ast, modelled, feats):
        self.name, self.text, self.ast, self.modelled, self.feats = name, text, ast, modelled, feats


class Program:
    def __init__(self):
        self.routines = []
        self.source = ""
        self.arrays = {}
        self.names = None
        self.feats = set()


class Gen:
    def __init__(self, rng, names, focus=None):
        self.r, self.names, self.focus = rng, names, focus
        r = rng
        self.N = r.randint(4, 7)
        self.realfam = r.random() < 0.5
        self.iscal, self.rscal, self.lscal = ["s0", "s1", "t"], ["x0"], ["fl", "fg", "fh"]
        self.loopvars = ["i", "j", "k"]
        for n in self.iscal + self.rscal + self.lscal + self.loopvars + ["ii"]:
            names.id(n)
        self.arrs = {}
        rt = REAL if self.realfam else INT
        for nm, typ, ext in (("a", INT, self.N), ("b", INT, self.N), ("c", rt, self.N), ("d", rt, self.N),
                             ("e", INT, 2 * self.N + 1), ("f", rt, 2 * self.N + 1)):
            lo = r.choice([1, 1, 0, 2, 3, -3, -1])
            self.arrs[nm] = Arr(nm, lo, lo + ext - 1, typ)
            names.id(nm)
        # rank-2 arrays: u, q of shape N1 x N2 and the bigger g
        self.N1, self.N2 = r.randint(2, 4), r.randint(2, 4)
        self.arrs2 = {}
        for nm, e1, e2 in (("u", self.N1, self.N2), ("q", self.N1, self.N2), ("g", self.N1 + 2, self.N2 + 3)):
            l1, l2 = r.choice([1, 1, 0, 2, -1]), r.choice([1, 0, 0, 3, -2])
            self.arrs2[nm] = Arr(nm, l1, l1 + e1 - 1, INT, l2, l2 + e2 - 1)
            names.id(nm)
        names.id("jj")
        self.tag = 0
        self.label = 0
        self.nconstruct = 0
        self.cnames = {}
        self.name_case_sensitive = NAME_CASE_SENSITIVE
        self.tagtext = {}
        self.feats = set()
        self.clean = True
        self.modelled = True

    # ------------------------------------------------------------------ expressions
    def id(self, n):
        return self.names.id(n)

    def arrs_of(self, typ, fam=None):
        out = [a for a in self.arrs.values() if a.typ == typ]
        if fam == 1:
            out = [a for a in out if a.extent == self.N]
        if fam == 2:
            out = [a for a in out if a.extent != self.N]
        return out

    def index(self, arr, live):
        """in-bounds subscript: (text, ast)"""
        r = self.r
        cands = []
        for v, (mn, mx) in live.items():
            cmin, cmax = arr.lo - mn, arr.hi - mx
            if cmin <= cmax:
                cands.append((v, cmin, cmax))
        if cands and r.random() < 0.8:
            v, cmin, cmax = r.choice(cands)
            c = r.randint(cmin, cmax)
            if c == 0:
                return v, ["var", self.id(v)]
            if c > 0:
                return f"{v} + {c}", ["bin", "add", ["var", self.id(v)], ["lit", c]]
            return f"{v} - {-c}", ["bin", "sub", ["var", self.id(v)], ["lit", -c]]
        c = r.randint(arr.lo, arr.hi)
        return lit_text(c, INT), lit_ast(c)

    def leaf(self, typ, live):
        r = self.r
        x = r.random()
        if x < 0.25:
            c = r.randint(0, 6)
            return lit_text(c, typ), ["lit", c]
        if x < 0.55:
            pool = (self.iscal + list(live)) if typ == INT else self.rscal
            v = r.choice(pool)
            return v, ["var", self.id(v)]
        if typ == INT and x > 0.93:
            return self.reduction_e(r.choice(self.arrs_of(INT)))
        arr = r.choice(self.arrs_of(typ) or self.arrs_of(INT))
        if arr.typ != typ:
            c = r.randint(0, 6)
            return lit_text(c, typ), ["lit", c]
        it, ia = self.index(arr, live)
        return f"{arr.name}({it})", ["idx1", self.id(arr.name), ia]

    def expr(self, typ, live, depth=0):
        r = self.r
        if depth >= 2 or r.random() < 0.3:
            return self.leaf(typ, live)
        x = r.random()
        sub = lambda: self.expr(typ, live, depth + 1)   # noqa: E731
        if x < 0.45:
            op, nm = r.choice([("+", "add"), ("-", "sub"), ("+", "add"), ("-", "sub"), ("*", "mul")])
            (at, aa), (bt, ba) = sub(), sub()
            return f"({at} {op} {bt})", ["bin", nm, aa, ba]
        if x < 0.6:
            nm = r.choice(["min", "max"])
            args = [sub() for _ in range(r.choice([2, 2, 3]))]
            ast = args[0][1]
            for _, a in args[1:]:
                ast = ["bin", nm, ast, a]
            return f"{nm}({', '.join(t for t, _ in args)})", ast
        if x < 0.68:
            at, aa = sub()
            return f"abs({at})", ["un", "abs", aa]
        if x < 0.74:
            at, aa = sub()
            return f"(-{at})", ["un", "neg", aa]
        if x < 0.82:
            (at, aa), (bt, ba) = sub(), sub()
            form = r.random()
            if form < 0.6:
                return f"sign({at}, {bt})", ["bin", "sign", aa, ba]
            if form < 0.8:
                self.feats.add("named-args")
                return f"sign(a={at}, b={bt})", ["bin", "sign", aa, ba]
            self.feats.add("named-args")
            return f"sign(b={bt}, a={at})", ["bin", "sign", aa, ba]
        if x < 0.9 and typ == INT:
            at, aa = sub()
            c = r.randint(2, 5)
            if r.random() < 0.5:
                return f"mod({at}, {c})", ["bin", "mod", aa, ["lit", c]]
            return f"({at} / {c})", ["bin", "div", aa, ["lit", c]]
        if x < 0.95:
            # type conversion: identity on the integral-valued domain
            other = REAL if typ == INT else INT
            at, aa = self.expr(other, live, depth + 1)
            return (f"int({at})" if typ == INT else f"real({at})"), aa
        at, aa = self.leaf(typ, live)
        return f"({at} ** 2)", ["bin", "pow", aa, ["lit", 2]]

    def lexpr(self, live, depth=0, maxdepth=3):
        """logical expression mixing .and./.or./.not./.eqv./.neqv., logical variables and relational
        sub-expressions; EVERY compound operand is parenthesised in the text, so the text denotes
        exactly the tree of the AST whatever the operator precedences are"""
        r = self.r
        if depth >= maxdepth or (depth >= 1 and r.random() < 0.22):
            x = r.random()
            if x < 0.6:
                v = r.choice(self.lscal)
                return v, ["var", self.id(v)]
            if x < 0.68:
                b = r.choice([0, 1])
                return [".false.", ".true."][b], ["lit", b]
            op, nm = r.choice([(">", "gt"), ("<", "lt"), (">=", "ge"), ("<=", "le"), ("==", "eq"), ("/=", "ne")])
            (at, aa), (bt, ba) = self.expr(INT, live, 2), self.expr(INT, live, 2)
            return f"({at} {op} {bt})", ["bin", nm, aa, ba]
        self.feats.add("logical-depth-%d" % min(maxdepth, 4))
        if r.random() < 0.18:
            at, aa = self.lexpr(live, depth + 1, maxdepth)
            return f"(.not. {at})", ["un", "not", aa]
        op, nm = r.choice([(".and.", "and"), (".or.", "or"), (".or.", "or"), (".eqv.", "eqv"), (".neqv.", "neqv"),
                           (".eqv.", "eqv")])
        (at, aa), (bt, ba) = self.lexpr(live, depth + 1, maxdepth), self.lexpr(live, depth + 1, maxdepth)
        return f"({at} {op} {bt})", ["bin", nm, aa, ba]

    def cond(self, live, depth=0):
        r = self.r
        if depth == 0 and r.random() < 0.4:
            return self.lexpr(live, 0, r.choice([2, 3, 3, 4]))
        x = r.random()
        if depth < 1 and x < 0.2:
            op, nm = r.choice([(".and.", "and"), (".or.", "or"), (".eqv.", "eqv"), (".neqv.", "neqv")])
            (at, aa), (bt, ba) = self.cond(live, 1), self.cond(live, 1)
            return f"({at} {op} {bt})", ["bin", nm, aa, ba]
        if x < 0.28:
            at, aa = self.cond(live, 1)
            return f"(.not. {at})", ["un", "not", aa]
        if x < 0.36:
            v = r.choice(self.lscal)
            return v, ["var", self.id(v)]
        typ = REAL if (self.realfam and r.random() < 0.3) else INT
        op, nm = r.choice([(">", "gt"), ("<", "lt"), (">=", "ge"), ("<=", "le"), ("==", "eq"), ("/=", "ne")])
        (at, aa), (bt, ba) = self.expr(typ, live, 1), self.expr(typ, live, 1)
        return f"{at} {op} {bt}", ["bin", nm, aa, ba]

    # ------------------------------------------------------------------ WHERE
    def section(self, arr, allow_bad=True):
        """a section of extent N of `arr`: (text, (lo,hi,st)) with None for omitted parts"""
        r, N = self.r, self.N
        allow_bad = allow_bad and not self.clean
        if arr.extent == N:
            x = r.random()
            if x < 0.62:
                return ":", (None, None, None)
            if x < 0.72:
                return f"{arr.lo}:{arr.hi}", (arr.lo, arr.hi, None)
            if x < 0.78:
                return f"{arr.lo}:", (arr.lo, None, None)
            if x < 0.84:
                return f":{arr.hi}", (None, arr.hi, None)
            if x < 0.88:
                return f"{arr.lo}:{arr.hi}:1", (arr.lo, arr.hi, 1)
            if x < 0.91:
                return "::1", (None, None, 1)
            if allow_bad:
                self.feats.add("stride")
                return f"{arr.hi}:{arr.lo}:-1", (arr.hi, arr.lo, -1)
            return ":", (None, None, None)
        # the big family: extent 2N+1
        x = r.random()
        if x < 0.75 or not allow_bad:
            p = r.randint(arr.lo, arr.hi - N + 1)
            return f"{p}:{p + N - 1}", (p, p + N - 1, None)
        self.feats.add("stride")
        if x < 0.9:
            p = r.randint(arr.lo, arr.hi - 2 * N + 2)
            return f"{p}:{p + 2 * N - 2}:2", (p, p + 2 * N - 2, 2)
        p = r.randint(arr.lo + N - 1, arr.hi)
        return f"{p}:{p - N + 1}:-1", (p, p - N + 1, -1)

    def aleaf(self, typ, assigned):
        r = self.r
        x = r.random()
        if x < 0.15:
            c = r.randint(0, 6)
            return lit_text(c, typ), ["scal", ["lit", c]]
        if x < 0.3:
            v = r.choice(self.iscal if typ == INT else self.rscal)
            return v, ["scal", ["var", self.id(v)]]
        if x < 0.36:
            # in a `clean` WHERE scalar element references only read the big arrays (never assigned by a lowered WHERE)
            arr = r.choice(self.arrs_of(typ, fam=2) if self.clean else self.arrs_of(typ))
            c = r.randint(arr.lo, arr.hi)
            return f"{arr.name}({lit_text(c, INT)})", ["scal", ["idx1", self.id(arr.name), lit_ast(c)]]
        if x < 0.43:
            # in a `clean` WHERE reductions only read the big arrays, which a lowered WHERE never assigns
            arr = r.choice(self.arrs_of(typ, fam=2) if self.clean else self.arrs_of(typ))
            return self.reduction_a(arr)
        arr = r.choice(self.arrs_of(typ))
        st, (lo, hi, s) = self.section(arr)
        return f"{arr.name}({st})", sec_ast(self.id(arr.name), lo, hi, s)

    def reduction_text(self, arr, kind, dim):
        """SUM / MAXVAL / MINVAL of a whole rank-1 array, with positional or named arguments"""
        r = self.r
        n = arr.name
        if dim:
            return r.choice([f"{kind}({n}, dim=1)", f"{kind}(dim=1, array={n})", f"{kind}(array={n}, dim=1)"])
        if r.random() < 0.25:
            self.feats.add("named-args")
            return f"{kind}(array={n})"
        return f"{kind}({n})"

    def reduction_a(self, arr):
        r = self.r
        kind = r.choice(["sum", "sum", "maxval", "minval"])
        if r.random() < 0.12:
            self.feats.add("sumdim")
            return self.reduction_text(arr, kind, True), ["reddim", kind, self.id(arr.name)]
        self.feats.add("sum")
        return self.reduction_text(arr, kind, False), ["red", kind, self.id(arr.name)]

    def reduction_e(self, arr):
        """a reduction inside a scalar expression: the AST is the unrolled expression (C01.redExpr)"""
        r = self.r
        kind = r.choice(["sum", "maxval", "minval"])
        self.feats.add("reduction-in-expression")
        aid = self.id(arr.name)
        op = {"sum": "add", "maxval": "max", "minval": "min"}[kind]
        ast = ["lit", 0] if kind == "sum" else ["idx1", aid, ["lit", arr.lo]]
        for k in range(arr.lo, arr.hi + 1):
            ast = ["bin", op, ast, ["idx1", aid, ["lit", k]]]
        return self.reduction_text(arr, kind, r.random() < 0.3), ast

    def aexpr(self, typ, assigned, depth=0, need_sec=False):
        r = self.r
        if need_sec and depth >= 1:
            arr = r.choice(self.arrs_of(typ))
            st, (lo, hi, s) = self.section(arr)
            return f"{arr.name}({st})", sec_ast(self.id(arr.name), lo, hi, s)
        if depth >= 2 or (r.random() < 0.35 and not need_sec):
            return self.aleaf(typ, assigned)
        x = r.random()
        if x < 0.6:
            op, nm = r.choice([("+", "add"), ("-", "sub"), ("*", "mul")])
            at, aa = self.aexpr(typ, assigned, depth + 1, need_sec)
            bt, ba = self.aexpr(typ, assigned, depth + 1)
            if r.random() < 0.5 and not need_sec:
                at, aa, bt, ba = bt, ba, at, aa
            return f"({at} {op} {bt})", ["bin", nm, aa, ba]
        if x < 0.75:
            nm = r.choice(["min", "max"])
            at, aa = self.aexpr(typ, assigned, depth + 1, need_sec)
            bt, ba = self.aexpr(typ, assigned, depth + 1)
            return f"{nm}({at}, {bt})", ["bin", nm, aa, ba]
        if x < 0.85:
            at, aa = self.aexpr(typ, assigned, depth + 1, need_sec)
            return f"abs({at})", ["un", "abs", aa]
        if typ == INT:
            at, aa = self.aexpr(typ, assigned, depth + 1, need_sec)
            c = r.randint(2, 4)
            return f"mod({at}, {c})", ["bin", "mod", aa, ["scal", ["lit", c]]]
        at, aa = self.aexpr(typ, assigned, depth + 1, need_sec)
        return f"(-{at})", ["un", "neg", aa]

    def mask(self, typ):
        r = self.r
        op, nm = r.choice([(">", "gt"), ("<", "lt"), (">=", "ge"), ("<=", "le"), ("==", "eq"), ("/=", "ne")])
        at, aa = self.aexpr(typ, [], 1, need_sec=True)
        bt, ba = self.aexpr(typ, [], 1)
        if r.random() < 0.25:
            at, aa, bt, ba = bt, ba, at, aa
        return f"{at} {op} {bt}", ["bin", nm, aa, ba]

    def lmask(self, typ, depth=0):
        """array-valued logical mask: relational leaves over sections joined by logical operators"""
        r = self.r
        if depth >= 2 or (depth >= 1 and r.random() < 0.35):
            if depth >= 1 and r.random() < 0.2:
                v = r.choice(self.lscal)
                return v, ["scal", ["var", self.id(v)]]
            t, a = self.mask(typ)
            return f"({t})", a
        self.feats.add("where-logical-mask")
        if r.random() < 0.15:
            at, aa = self.lmask(typ, depth + 1)
            return f"(.not. {at})", ["un", "not", aa]
        op, nm = r.choice([(".and.", "and"), (".or.", "or"), (".or.", "or"), (".eqv.", "eqv"), (".neqv.", "neqv")])
        at, aa = self.lmask(typ, depth + 1)
        bt, ba = self.lmask(typ, depth + 1)
        if firstsec(aa) is None and firstsec(ba) is None:
            t, a = self.mask(typ)
            at, aa = f"({t})", a
        return f"({at} {op} {bt})", ["bin", nm, aa, ba]

    def anymask(self, typ):
        if self.r.random() < 0.35:
            t, a = self.lmask(typ)
            if firstsec(a) is not None:     # a mask must be array-valued
                return t, a
        return self.mask(typ)

    def wassign(self, typ):
        r = self.r
        arr = r.choice(self.arrs_of(typ, fam=1))
        x = r.random()
        if x < 0.85:
            st, sec = ":", (None, None, None)
        elif x < 0.95:
            st, sec = f"{arr.lo}:{arr.hi}", (arr.lo, arr.hi, None)
        else:
            arr = r.choice(self.arrs_of(typ, fam=2))
            p = r.randint(arr.lo, arr.hi - self.N + 1)
            st, sec = f"{p}:{p + self.N - 1}", (p, p + self.N - 1, None)
        rt, ra = self.aexpr(typ, [], 0)
        return f"{arr.name}({st}) = {rt}", ["wa", self.id(arr.name), ["sec"] + [opt(v) for v in sec], ra]

    def where(self, ind):
        r = self.r
        self.tag += 1
        tag = self.tag
        typ = REAL if (self.realfam and r.random() < 0.4) else INT
        self.feats.add("where")
        self.clean = r.random() < 0.8
        mt, ma = self.anymask(typ)
        nbody = r.choice([1, 1, 2, 3])
        body = [self.wassign(typ) for _ in range(nbody)]
        clauses = []   # (masktext|None, maskast, [assigns])
        if r.random() < 0.45:
            for _ in range(r.choice([0, 1, 1, 2])):
                t, a = self.anymask(typ)
                clauses.append((t, a, [self.wassign(typ) for _ in range(r.choice([1, 1, 2]))]))
                self.feats.add("elsewhere-masked")
            if r.random() < 0.6 or not clauses:
                clauses.append((None, None, [self.wassign(typ) for _ in range(r.choice([1, 1, 2]))]))
                self.feats.add("elsewhere")
        rest = ["nil"]
        for t, a, ws in reversed(clauses):
            rest = ["final", [w for _, w in ws]] if t is None else ["masked", a, [w for _, w in ws], rest]
        ast = ["where", tag, 1000 + 2 * tag, ["masked", ma, [w for _, w in body], rest]]
        if nbody == 1 and not clauses and r.random() < 0.5:
            lines = [f"{ind}where ({mt}) {body[0][0]}"]
        else:
            lines = [f"{ind}where ({mt})"] + [f"{ind}  {t}" for t, _ in body]
            for t, a, ws in clauses:
                lines.append(f"{ind}elsewhere" + (f" ({t})" if t is not None else ""))
                lines += [f"{ind}  {wt}" for wt, _ in ws]
            lines.append(f"{ind}end where")
        self.tagtext[tag] = squash("".join(lines))
        return lines, ast, tag

    # ------------------------------------------------------------------ rank-2 WHERE
    def section2(self, arr):
        """an N1 x N2 section of a rank-2 array: (text, (lo,hi,st), (lo2,hi2,st2))"""
        r = self.r

        def dim(lo, hi, n):
            if hi - lo + 1 == n:
                x = r.random()
                if x < 0.6:
                    return ":", (None, None, None)
                if x < 0.75:
                    return f"{lo}:{hi}", (lo, hi, None)
                if x < 0.83:
                    return f"{lo}:", (lo, None, None)
                if x < 0.9:
                    return f":{hi}", (None, hi, None)
                if x < 0.95 or self.clean:
                    return "::1", (None, None, 1)
                self.feats.add("stride")
                return f"{hi}:{lo}:-1", (hi, lo, -1)
            p = r.randint(lo, hi - n + 1)
            if not self.clean and r.random() < 0.15 and p + 2 * n - 2 <= hi:
                self.feats.add("stride")
                return f"{p}:{p + 2 * n - 2}:2", (p, p + 2 * n - 2, 2)
            return f"{p}:{p + n - 1}", (p, p + n - 1, None)
        t1, s1 = dim(arr.lo, arr.hi, self.N1)
        t2, s2 = dim(arr.lo2, arr.hi2, self.N2)
        return f"{t1}, {t2}", s1, s2

    def aleaf2(self):
        r = self.r
        x = r.random()
        if x < 0.15:
            c = r.randint(0, 6)
            return str(c), ["scal", ["lit", c]]
        if x < 0.3:
            v = r.choice(self.iscal)
            return v, ["scal", ["var", self.id(v)]]
        if x < 0.37:
            arr = self.arrs2["g"] if self.clean else r.choice(list(self.arrs2.values()))
            c1, c2 = r.randint(arr.lo, arr.hi), r.randint(arr.lo2, arr.hi2)
            return f"{arr.name}({c1}, {c2})", ["scal", ["idx2", self.id(arr.name), lit_ast(c1), lit_ast(c2)]]
        if x < 0.43:
            return self.reduction_a(r.choice(self.arrs_of(INT, fam=2)))     # reduction of a rank-1 array: a scalar
        arr = r.choice(list(self.arrs2.values()))
        t, s1, s2 = self.section2(arr)
        return f"{arr.name}({t})", ["sec2", self.id(arr.name)] + [opt(v) for v in s1] + [opt(v) for v in s2]

    def aexpr2(self, depth=0, need_sec=False):
        r = self.r
        if need_sec and depth >= 1:
            arr = r.choice(list(self.arrs2.values()))
            t, s1, s2 = self.section2(arr)
            return f"{arr.name}({t})", ["sec2", self.id(arr.name)] + [opt(v) for v in s1] + [opt(v) for v in s2]
        if depth >= 2 or (r.random() < 0.35 and not need_sec):
            return self.aleaf2()
        x = r.random()
        if x < 0.6:
            op, nm = r.choice([("+", "add"), ("-", "sub"), ("*", "mul")])
            at, aa = self.aexpr2(depth + 1, need_sec)
            bt, ba = self.aexpr2(depth + 1)
            return f"({at} {op} {bt})", ["bin", nm, aa, ba]
        if x < 0.78:
            nm = r.choice(["min", "max"])
            at, aa = self.aexpr2(depth + 1, need_sec)
            bt, ba = self.aexpr2(depth + 1)
            return f"{nm}({at}, {bt})", ["bin", nm, aa, ba]
        if x < 0.9:
            at, aa = self.aexpr2(depth + 1, need_sec)
            return f"abs({at})", ["un", "abs", aa]
        at, aa = self.aexpr2(depth + 1, need_sec)
        c = r.randint(2, 4)
        return f"mod({at}, {c})", ["bin", "mod", aa, ["scal", ["lit", c]]]

    def mask2(self):
        r = self.r
        op, nm = r.choice([(">", "gt"), ("<", "lt"), (">=", "ge"), ("<=", "le"), ("==", "eq"), ("/=", "ne")])
        at, aa = self.aexpr2(1, need_sec=True)
        bt, ba = self.aexpr2(1)
        if r.random() < 0.25 and firstsec2(ba) is not None:
            at, aa, bt, ba = bt, ba, at, aa
        t, a = f"{at} {op} {bt}", ["bin", nm, aa, ba]
        if r.random() < 0.25:
            t2, a2 = self.mask2() if r.random() < 0.5 else (r.choice(self.lscal), None)
            if a2 is None:
                a2 = ["scal", ["var", self.id(t2)]]
            else:
                t2 = f"({t2})"
            lop, lnm = r.choice([(".and.", "and"), (".or.", "or"), (".eqv.", "eqv")])
            self.feats.add("where-logical-mask")
            return f"(({t}) {lop} {t2})", ["bin", lnm, a, a2]
        return t, a

    def wassign2(self):
        r = self.r
        arr = r.choice([self.arrs2["u"], self.arrs2["q"]])
        x = r.random()
        if x < 0.85:
            st, s1, s2 = ":, :", (None, None, None), (None, None, None)
        elif x < 0.95:
            st, s1, s2 = f"{arr.lo}:{arr.hi}, :", (arr.lo, arr.hi, None), (None, None, None)
        else:
            arr = self.arrs2["g"]        # not a full range: the reader refuses the construct
            st = f"{arr.lo}:{arr.lo + self.N1 - 1}, {arr.lo2}:{arr.lo2 + self.N2 - 1}"
            s1, s2 = (arr.lo, arr.lo + self.N1 - 1, None), (arr.lo2, arr.lo2 + self.N2 - 1, None)
        rt, ra = self.aexpr2(0)
        return f"{arr.name}({st}) = {rt}", ["wa2", self.id(arr.name), ["sec"] + [opt(v) for v in s1],
                                           ["sec"] + [opt(v) for v in s2], ra]

    def where2(self, ind):
        r = self.r
        self.tag += 1
        tag = self.tag
        self.feats.add("where")
        self.feats.add("where-rank2")
        self.clean = r.random() < 0.8
        mt, ma = self.mask2()
        body = [self.wassign2() for _ in range(r.choice([1, 1, 2, 3]))]
        clauses = []
        if r.random() < 0.45:
            for _ in range(r.choice([0, 1, 1])):
                t, a = self.mask2()
                clauses.append((t, a, [self.wassign2() for _ in range(r.choice([1, 2]))]))
                self.feats.add("elsewhere-masked")
            if r.random() < 0.6 or not clauses:
                clauses.append((None, None, [self.wassign2() for _ in range(r.choice([1, 2]))]))
                self.feats.add("elsewhere")
        rest = ["nil"]
        for t, a, ws in reversed(clauses):
            rest = ["final", [w for _, w in ws]] if t is None else ["masked", a, [w for _, w in ws], rest]
        ast = ["where", tag, 1000 + 2 * tag, ["masked", ma, [w for _, w in body], rest]]
        if len(body) == 1 and not clauses and r.random() < 0.5:
            lines = [f"{ind}where ({mt}) {body[0][0]}"]
        else:
            lines = [f"{ind}where ({mt})"] + [f"{ind}  {t}" for t, _ in body]
            for t, a, ws in clauses:
                lines.append(f"{ind}elsewhere" + (f" ({t})" if t is not None else ""))
                lines += [f"{ind}  {wt}" for wt, _ in ws]
            lines.append(f"{ind}end where")
        self.tagtext[tag] = squash("".join(lines))
        return lines, ast, tag

    def arrassign2(self, ind):
        """top-level rank-2 array assignment: kept as array notation by the reader (opaque in the model)"""
        self.clean = self.r.random() < 0.5
        wt, _ = self.wassign2()
        self.feats.add("array-assign")
        return [f"{ind}{wt}"], ["cb", self.newtag(wt)], self.tag

    def arrassign(self, ind):
        self.tag += 1
        self.clean = self.r.random() < 0.5
        typ = REAL if (self.realfam and self.r.random() < 0.4) else INT
        wt, wa = self.wassign(typ)
        self.feats.add("array-assign")
        self.tagtext[self.tag] = squash(wt)
        return [f"{ind}{wt}"], ["arr", self.tag, wa[1], wa[2], wa[3]], self.tag

    # ------------------------------------------------------------------ SELECT CASE
    def select(self, live, ind, depth, force_logical=False, mkbody=None):
        r = self.r
        self.feats.add("select")
        if force_logical or r.random() < 0.3:
            if r.random() < 0.6:
                v = r.choice(self.lscal)
                seltext, selast = v, ["var", self.id(v)]
            else:
                seltext, selast = self.lexpr(live, 0, r.choice([2, 3]))
            lg = 1
            T, F = ("val", 1, ".true."), ("val", 0, ".false.")
            items = r.choice([[[T], [F]], [[F], [T]], [[T]], [[F]], [[T, F]], [[F, T]], [[T, F]]])
            self.feats.add("select-logical")
            if len(items[0]) > 1:
                self.feats.add("select-logical-list")
        else:
            seltext, selast = self.expr(INT, live, 1)
            lg = 0
            # disjoint items over cut points
            pts = sorted(r.sample(range(-3, 10), r.randint(2, 7)))
            pool = []
            i = 0
            first = True
            while i < len(pts):
                x = r.random()
                if first and x < 0.25:
                    pool.append(("range", None, pts[i]))
                    i += 1
                elif i + 1 < len(pts) and x < 0.55:
                    pool.append(("range", pts[i], pts[i + 1]))
                    i += 2
                elif i == len(pts) - 1 and x < 0.7:
                    pool.append(("range", pts[i], None))
                    i += 1
                elif i + 1 < len(pts) and x < 0.6:
                    pool.append(("range", pts[i + 1], pts[i]))     # empty range hi < lo
                    i += 2
                else:
                    pool.append(("val", pts[i]))
                    i += 1
                first = False
            r.shuffle(pool)
            ncase = r.randint(1, min(4, len(pool)))
            items = [[] for _ in range(ncase)]
            for n, it in enumerate(pool):
                items[n % ncase].append(it)
        has_default = r.random() < 0.65
        clauses = [("case", it) for it in items]
        if has_default:
            clauses.insert(r.randint(0, len(clauses)), ("default", None))
            self.feats.add("select-default-pos-%s" % ("last" if clauses[-1][0] == "default" else "inner"))
        lines = [f"{ind}select case ({seltext})"]
        built = []
        for kidx, (kind, its) in enumerate(clauses):
            if mkbody is not None:
                blines, bast = mkbody(kidx, ind + "  ")
            else:
                blines, bast = self.block(live, r.choice([1, 1, 2]), ind + "  ", depth + 1, allow_empty=True)
            if kind == "default":
                lines.append(f"{ind}case default")
                built.append(("default", None, bast))
            else:
                txt, vals = [], []
                for it in its:
                    if it[0] == "val":
                        txt.append(it[2] if len(it) > 2 else str(it[1]))
                        vals.append(["val", it[1]])
                    else:
                        lo, hi = it[1], it[2]
                        txt.append(f"{'' if lo is None else lo}:{'' if hi is None else hi}")
                        vals.append(["range", opt(lo), opt(hi)])
                        self.feats.add("select-range")
                lines.append(f"{ind}case ({', '.join(txt)})")
                built.append(("case", vals, bast))
            lines += blines
        lines.append(f"{ind}end select")
        chain = ["caseend"]
        for kind, vals, bast in reversed(built):
            chain = ["default", bast, chain] if kind == "default" else ["case", vals, bast, chain]
        return lines, ["select", lg, selast, chain]

    # ------------------------------------------------------------------ statements
    def assign(self, live, ind):
        r = self.r
        x = r.random()
        if x < 0.2:
            v = r.choice(self.iscal)
            t, a = self.expr(INT, live)
            return [f"{ind}{v} = {t}"], ["assign", self.id(v), a]
        if x < 0.27:
            t, a = self.expr(REAL, live)
            return [f"{ind}x0 = {t}"], ["assign", self.id("x0"), a]
        if x < 0.34:
            v = r.choice(self.lscal)
            t, a = self.cond(live)
            return [f"{ind}{v} = {t}"], ["assign", self.id(v), a]
        if x < 0.42:
            arr = r.choice(list(self.arrs2.values()))
            c1, c2 = r.randint(arr.lo, arr.hi), r.randint(arr.lo2, arr.hi2)
            t, a = self.expr(INT, live)
            return [f"{ind}{arr.name}({c1}, {c2}) = {t}"], ["store2", self.id(arr.name), lit_ast(c1), lit_ast(c2), a]
        arr = r.choice(list(self.arrs.values()))
        it, ia = self.index(arr, live)
        t, a = self.expr(arr.typ if r.random() < 0.9 else INT, live)
        return [f"{ind}{arr.name}({it}) = {t}"], ["store1", self.id(arr.name), ia, a]

    def loop(self, live, ind, depth):
        r = self.r
        free = [v for v in self.loopvars if v not in live]
        v = free[0]
        kind = r.random()
        if kind < 0.5:
            lo, hi, st = r.randint(0, 2), r.randint(2, 5), None
        elif kind < 0.62:
            lo, hi, st = r.randint(0, 2), r.randint(3, 6), r.choice([2, 3, 1])
        elif kind < 0.8:
            lo, hi, st = r.randint(3, 6), r.randint(0, 2), r.choice([-1, -2])
            self.feats.add("do-negative-step")
        elif kind < 0.92:
            lo, hi, st = r.randint(3, 6), r.randint(0, 2), r.choice([None, 2])     # zero trip
            self.feats.add("do-zero-trip")
        else:
            lo, hi, st = r.randint(0, 2), r.randint(3, 5), r.choice([-1, -3])      # zero trip, negative step
            self.feats.add("do-zero-trip")
        self.feats.add("do")
        live2 = dict(live)
        live2[v] = (min(lo, hi), max(lo, hi))
        blines, bast = self.block(live2, r.randint(1, 3), ind + "  ", depth + 1)
        if r.random() < 0.2:
            jl, ja = self.jump(live2, ind + "  ", r.choice(["exit", "cycle"]))
            if r.random() < 0.5:
                blines, bast = jl + blines, ["seqs", ja] + bast[1:]
            else:
                blines, bast = blines + jl, bast + [ja]
        head = f"{ind}do {v} = {lo}, {hi}" + ("" if st is None else f", {st}")
        stast = "none" if st is None else lit_ast(st)
        return [head] + blines + [f"{ind}end do"], ["do", self.id(v), ["lit", lo], ["lit", hi], stast, bast]

    # ------------------------------------------------------------------ unsupported statements (CodeBlocks)
    def cname(self, spelling):
        """id of a construct name (Fortran names are case-insensitive; a reader that compares them
        case-sensitively is mirrored by giving different spellings different ids)"""
        key = spelling if self.name_case_sensitive else spelling.lower()
        if key not in self.cnames:
            self.cnames[key] = 500 + len(self.cnames)
        return self.cnames[key]

    def newtag(self, text):
        self.tag += 1
        self.tagtext[self.tag] = squash(text)
        return self.tag

    def jcond(self, live):
        """short condition, preferably on a loop variable"""
        r = self.r
        if live and r.random() < 0.7:
            v = r.choice(list(live))
            mn, mx = live[v]
            c = r.randint(mn, mx)
            op, nm = r.choice([("==", "eq"), (">", "gt"), ("<", "lt"), ("/=", "ne")])
            return f"{v} {op} {c}", ["bin", nm, ["var", self.id(v)], ["lit", c]]
        return self.cond(live, 1)

    def jump(self, live, ind, kind, name=None):
        """`if (c) exit|cycle [name]` -> IfBlock holding a CodeBlock"""
        stmt = kind + (f" {name}" if name else "")
        ct, ca = self.jcond(live)
        tag = self.newtag(stmt)
        self.feats.add(kind + ("-named" if name else ""))
        jast = ["jump", tag, 0 if kind == "exit" else 1, self.cname(name) if name else "none"]
        if self.r.random() < 0.7:
            return [f"{ind}if ({ct}) {stmt}"], ["ite", ca, jast, ["skip"]]
        lines, ast = self.assign(live, ind + "  ")
        return [f"{ind}if ({ct}) then"] + lines + [f"{ind}  {stmt}", f"{ind}end if"], \
            ["ite", ca, ["seqs", ast, jast], ["skip"]]

    def loop_bounds(self):
        r = self.r
        kind = r.random()
        if kind < 0.6:
            return r.randint(0, 2), r.randint(3, 6), None
        if kind < 0.75:
            return r.randint(0, 2), r.randint(3, 6), 2
        if kind < 0.92:
            return r.randint(4, 6), r.randint(0, 2), -1
        return r.randint(3, 5), r.randint(0, 2), None          # zero trip

    def jloop(self, live, ind, depth):
        """DO construct (named or not) with EXIT / CYCLE, possibly from a nested loop.  The reader keeps a named DO
        whose name is referred to inside it as ONE CodeBlock; otherwise it builds a Loop (the name is dropped) and
        every EXIT/CYCLE statement becomes a CodeBlock."""
        r = self.r
        free = [v for v in self.loopvars if v not in live]
        v = free[0]
        lo, hi, st = self.loop_bounds()
        self.nconstruct += 1
        named = r.random() < 0.7
        name = r.choice(["rows", "outer", "scan", "lp", "Sweep"]) + str(self.nconstruct) if named else None
        self.feats.add("do-named" if named else "do-with-jump")
        live2 = dict(live)
        live2[v] = (min(lo, hi), max(lo, hi))
        i2 = ind + "  "
        spelled = []          # spellings of the construct name used by EXIT/CYCLE inside

        def refname():
            if not named or r.random() < 0.35:
                return None
            sp = name
            if r.random() < 0.07:
                sp = name.upper() if name.upper() != name else name.lower()
                self.feats.add("construct-name-other-case")
                if self.name_case_sensitive:
                    self.feats.add("known:C01-construct-name-case")
            spelled.append(sp)
            return sp
        parts = []            # (lines, ast)
        for _ in range(r.randint(1, 2)):
            parts.append(self.block(live2, 1, i2, depth + 1))
        for _ in range(r.randint(1, 2)):
            parts.insert(r.randint(0, len(parts)), self.jump(live2, i2, r.choice(["exit", "cycle"]), refname()))
        if len(free) > 1 and r.random() < 0.5:
            # nested loop with a jump that may refer to the outer construct
            w = free[1]
            lo2, hi2, st2 = self.loop_bounds()
            live3 = dict(live2)
            live3[w] = (min(lo2, hi2), max(lo2, hi2))
            i3 = i2 + "  "
            inner = [self.jump(live3, i3, r.choice(["exit", "cycle"]), refname()), self.block(live3, 1, i3, depth + 2)]
            r.shuffle(inner)
            il = [f"{i2}do {w} = {lo2}, {hi2}" + ("" if st2 is None else f", {st2}")]
            ia = []
            for ls, a in inner:
                il += ls
                ia.append(a)
            il.append(f"{i2}end do")
            parts.insert(r.randint(0, len(parts)), (il, ["do", self.id(w), ["lit", lo2], ["lit", hi2],
                                                         "none" if st2 is None else lit_ast(st2), ["seqs"] + ia]))
            self.feats.add("jump-from-nested-loop")
        head = (f"{name}: " if named else "") + f"do {v} = {lo}, {hi}" + ("" if st is None else f", {st}")
        lines = [ind + head]
        asts = []
        for ls, a in parts:
            lines += ls
            asts.append(a)
        lines.append(f"{ind}end do" + (f" {name}" if named else ""))
        doast = ["do", self.id(v), ["lit", lo], ["lit", hi], "none" if st is None else lit_ast(st), ["seqs"] + asts]
        if not named:
            return lines, doast
        # whether the construct is kept as one CodeBlock (its name is referred to inside) is decided by C01.lower
        if self.cname(name) in [self.cname(x) for x in spelled]:
            self.feats.add("do-named-refused")
        return lines, ["named", self.newtag("".join(lines)), self.cname(name), doast]

    def refused_template(self, live, ind):
        """named constructs kept verbatim as one CodeBlock: counted DO / DO WHILE whose name is used by CYCLE/EXIT
        from a nested DO WHILE, label-DO"""
        r = self.r
        free = [v for v in self.loopvars if v not in live]
        v, w = free[0], free[1]
        self.nconstruct += 1
        nm = r.choice(["scan", "Rows", "blk"]) + str(self.nconstruct)
        a, c = r.choice(self.iscal), r.randint(2, 9)
        kind = r.choice(["cycle", "exit"])
        V = lambda n: ["var", self.id(n)]                      # noqa: E731
        inc = lambda n, e: ["assign", self.id(n), ["bin", "add", V(n), e]]   # noqa: E731
        x = r.random()
        if x < 0.4:
            hi = r.randint(3, 6)
            lines = [f"{nm}: do {v} = {hi}, 1, -1", f"  {w} = 0", f"  do while ({w} < {v})",
                     f"    {w} = {w} + 1", f"    {a} = {a} + {w}", f"    if ({a} > {c}) {kind} {nm}", "  end do",
                     f"  {a} = {a} - 1", f"end do {nm}"]
            self.feats.add("do-named-refused")
            jt = self.newtag(f"{kind} {nm}")
            wl = ["while", ["bin", "lt", V(w), V(v)],
                  ["seqs", inc(w, ["lit", 1]), inc(a, V(w)),
                   ["ite", ["bin", "gt", V(a), ["lit", c]], ["jump", jt, 0 if kind == "exit" else 1, self.cname(nm)], ["skip"]]]]
            body = ["seqs", ["assign", self.id(w), ["lit", 0]], wl,
                    ["assign", self.id(a), ["bin", "sub", V(a), ["lit", 1]]]]
            ast = ["named", self.newtag("".join(lines)), self.cname(nm),
                   ["do", self.id(v), ["lit", hi], ["lit", 1], lit_ast(-1), body]]
            return [ind + ln for ln in lines], ast
        if x < 0.7:
            n = r.randint(3, 6)
            lines = [f"{w} = 0", f"{nm}: do while ({w} < {n})", f"  {w} = {w} + 1",
                     f"  if (mod({w}, 2) == 0) cycle {nm}", f"  do {v} = 1, 3", f"    if ({v} > {w}) {kind} {nm}",
                     f"    {a} = {a} + {v}", "  end do", f"end do {nm}"]
            self.feats.add("do-while-named-refused")
            j1 = self.newtag(f"cycle {nm}")
            j2 = self.newtag(f"{kind} {nm}")
            inner = ["do", self.id(v), ["lit", 1], ["lit", 3], "none",
                     ["seqs", ["ite", ["bin", "gt", V(v), V(w)], ["jump", j2, 0 if kind == "exit" else 1, self.cname(nm)], ["skip"]],
                      inc(a, V(v))]]
            wl = ["while", ["bin", "lt", V(w), ["lit", n]],
                  ["seqs", inc(w, ["lit", 1]),
                   ["ite", ["bin", "eq", ["bin", "mod", V(w), ["lit", 2]], ["lit", 0]], ["jump", j1, 1, self.cname(nm)], ["skip"]],
                   inner]]
            ast = ["seqs", ["assign", self.id(w), ["lit", 0]], ["named", self.newtag("".join(lines[1:])), self.cname(nm), wl]]
            return [ind + ln for ln in lines], ast
        self.label += 10
        lines = [f"do {self.label} {v} = 1, {r.randint(2, 5)}", f"  {a} = {a} + {v} * {c}",
                 f"{self.label} continue"]
        self.feats.add("label-do")
        return [ind + ln for ln in lines], ["cb", self.newtag("".join(lines))]

    def goto_block(self, live, ind, depth):
        """forward GOTO to a labelled CONTINUE in the same block"""
        self.label += 10
        lab = self.label
        ct, ca = self.jcond(live)
        t1 = self.newtag(f"goto {lab}")
        ml, ma = self.block(live, self.r.randint(1, 2), ind, depth + 1)
        t2 = self.newtag(f"{lab} continue")
        self.feats.add("goto")
        return [f"{ind}if ({ct}) goto {lab}"] + ml + [f"{ind}{lab} continue"], \
            ["seqs", ["ite", ca, ["jump", t1, 2, lab], ["skip"]], ma, ["jump", t2, 3, lab]]

    def while_loop(self, live, ind, depth):
        """DO WHILE / DO forever with EXIT: a WhileLoop in the PSyIR, `doWhile` in the model"""
        r = self.r
        free = [v for v in self.loopvars if v not in live]
        v = free[0]
        n = r.randint(2, 5)
        live2 = dict(live)
        live2[v] = (0, n + 1)
        self.feats.add("do-while")
        i2 = ind + "  "
        bl, ba = self.block(live2, r.randint(1, 2), i2, depth + 1)
        jl, ja = self.jump(live2, i2, r.choice(["exit", "cycle"]))
        vid = self.id(v)
        incv = ["assign", vid, ["bin", "add", ["var", vid], ["lit", 1]]]
        init = ["assign", vid, ["lit", 0]]
        if r.random() < 0.6:
            lines = [f"{ind}{v} = 0", f"{ind}do while ({v} < {n})", f"{i2}{v} = {v} + 1"] + jl + bl + [f"{ind}end do"]
            return lines, ["seqs", init, ["while", ["bin", "lt", ["var", vid], ["lit", n]], ["seqs", incv, ja] + ba[1:]]]
        et = self.newtag("exit")
        self.feats.add("do-forever")
        lines = [f"{ind}{v} = 0", f"{ind}do", f"{i2}{v} = {v} + 1", f"{i2}if ({v} > {n}) exit"] + jl + bl + [f"{ind}end do"]
        ex = ["ite", ["bin", "gt", ["var", vid], ["lit", n]], ["jump", et, 0, "none"], ["skip"]]
        return lines, ["seqs", init, ["while", "none", ["seqs", incv, ex, ja] + ba[1:]]]

    def unsupported(self, live, ind, depth):
        r = self.r
        free = [v for v in self.loopvars if v not in live]
        x = r.random()
        if x < 0.45 and free and depth < 2:
            return self.jloop(live, ind, depth)
        if x < 0.65 and len(free) >= 2:
            return self.refused_template(live, ind)
        if x < 0.85:
            return self.goto_block(live, ind, depth)
        if x < 0.93 and free and depth < 2:
            return self.while_loop(live, ind, depth)
        if live:
            return self.jump(live, ind, r.choice(["exit", "cycle"]))
        return self.goto_block(live, ind, depth)

    def ifstmt(self, live, ind, depth):
        r = self.r
        self.feats.add("if")
        ct, ca = self.cond(live)
        if r.random() < 0.2:
            lines, ast = self.assign(live, "")
            return [f"{ind}if ({ct}) {lines[0]}"], ["ite", ca, ast, ["skip"]]
        nm = ""
        if r.random() < 0.25:
            self.nconstruct += 1
            nm = r.choice(["chk", "Test", "sel"]) + str(self.nconstruct)
            self.feats.add("if-named")
        tl, ta = self.block(live, r.choice([1, 2]), ind + "  ", depth + 1)
        if nm and r.random() < 0.08:
            # EXIT from a named IF: the reader drops the construct name (known finding)
            jl, ja = self.jump(live, ind + "  ", "exit", nm)
            tl, ta = jl + tl, ["seqs", ja] + ta[1:]
            self.feats.add("known:C01-named-if-exit")
        lines = [f"{ind}{nm + ': ' if nm else ''}if ({ct}) then"] + tl
        elifs = []
        for _ in range(r.choice([0, 0, 1, 2])):
            c2t, c2a = self.cond(live)
            bl, ba = self.block(live, 1, ind + "  ", depth + 1)
            lines += [f"{ind}else if ({c2t}) then{' ' + nm if nm else ''}"] + bl
            elifs.append((c2a, ba))
            self.feats.add("else-if")
        els = ["skip"]
        if r.random() < 0.5:
            el, ea = self.block(live, 1, ind + "  ", depth + 1)
            lines += [f"{ind}else{' ' + nm if nm else ''}"] + el
            els = ea
        lines.append(f"{ind}end if{' ' + nm if nm else ''}")
        for c2a, ba in reversed(elifs):
            els = ["ite", c2a, ba, els]
        if nm:
            return lines, ["namedif", self.cname(nm), ["ite", ca, ta, els]]
        return lines, ["ite", ca, ta, els]

    def truth_block(self, ind):
        """loops over all truth assignments of fl, fg, fh; the outcome of deep logical expressions (IF
        conditions, logical assignment, logical SELECT CASE with value lists) is recorded per assignment in e(..)"""
        r = self.r
        self.feats.add("truth-table")
        live = {"i": (0, 1), "j": (0, 1), "k": (0, 1)}
        i2 = ind + "      "
        lines, asts = [], []
        for v, lv in (("fl", "i"), ("fg", "j"), ("fh", "k")):
            lines.append(f"{i2}{v} = {lv} == 1")
            asts.append(["assign", self.id(v), ["bin", "eq", ["var", self.id(lv)], ["lit", 1]]])
        lines.append(f"{i2}s0 = 0")
        asts.append(["assign", self.id("s0"), ["lit", 0]])
        s0 = ["var", self.id("s0")]
        w = 1
        for _ in range(r.randint(2, 4)):
            x = r.random()
            inc = lambda c: ["assign", self.id("s0"), ["bin", "add", s0, ["lit", c]]]   # noqa: E731
            if x < 0.45:
                ct, ca = self.lexpr(live, 0, r.choice([3, 3, 4]))
                lines.append(f"{i2}if ({ct}) s0 = s0 + {w}")
                asts.append(["ite", ca, inc(w), ["skip"]])
            elif x < 0.6:
                ct, ca = self.lexpr(live, 0, r.choice([3, 4]))
                lines += [f"{i2}if ({ct}) then", f"{i2}  s0 = s0 + {w}", f"{i2}else", f"{i2}  s0 = s0 + {16 * w}", f"{i2}end if"]
                asts.append(["ite", ca, ["seqs", inc(w)], ["seqs", inc(16 * w)]])
            elif x < 0.7:
                v = r.choice(self.lscal)
                ct, ca = self.lexpr(live, 0, 3)
                lines.append(f"{i2}{v} = {ct}")
                asts.append(["assign", self.id(v), ca])
            else:
                ww = w
                ls, a = self.select(live, i2, 5, force_logical=True,
                                    mkbody=lambda kidx, bi: ([f"{bi}s0 = s0 + {ww * 16 ** kidx}"],
                                                             ["seqs", inc(ww * 16 ** kidx)]))
                lines += ls
                asts.append(a)
            w *= 2
        e = self.arrs["e"]
        idx = ["bin", "add", ["bin", "add", ["bin", "mul", ["var", self.id("i")], ["lit", 4]],
                              ["bin", "mul", ["var", self.id("j")], ["lit", 2]]], ["var", self.id("k")]]
        it = "(((i * 4) + (j * 2)) + k)"
        if e.lo > 0:
            it, idx = f"{it} + {e.lo}", ["bin", "add", idx, ["lit", e.lo]]
        elif e.lo < 0:
            it, idx = f"{it} - {-e.lo}", ["bin", "sub", idx, ["lit", -e.lo]]
        lines.append(f"{i2}e({it}) = s0")
        asts.append(["store1", self.id("e"), idx, s0])
        body = ["seqs"] + asts
        out = [f"{ind}do i = 0, 1", f"{ind}  do j = 0, 1", f"{ind}    do k = 0, 1"] + lines + \
              [f"{ind}    end do", f"{ind}  end do", f"{ind}end do"]
        ast = body
        for v in ("k", "j", "i"):
            ast = ["do", self.id(v), ["lit", 0], ["lit", 1], "none", ["seqs", ast] if v != "k" else ast]
        return out, ast

    def block(self, live, n, ind, depth, allow_empty=False):
        r = self.r
        lines, asts = [], []
        if allow_empty and r.random() < 0.08:
            n = 0
        for _ in range(n):
            x = r.random()
            if self.focus == "where" and x < 0.5:
                x = 0.45
            if self.focus == "select" and x < 0.5:
                x = 0.25
            if self.focus == "unsupported" and x < 0.45:
                x = 0.6
            if x < 0.14 and depth < 2 and len(live) < 3:
                ls, a = self.loop(live, ind, depth)
            elif x < 0.24 and depth < 3:
                ls, a = self.ifstmt(live, ind, depth)
            elif x < 0.36 and depth < 3:
                ls, a = self.select(live, ind, depth)
            elif x < 0.52:
                ls, a, _ = self.where2(ind) if r.random() < 0.3 else self.where(ind)
            elif x < 0.57:
                ls, a, _ = self.arrassign2(ind) if r.random() < 0.25 else self.arrassign(ind)
            elif x < 0.67 and depth < 3:
                ls, a = self.unsupported(live, ind, depth)
            else:
                ls, a = self.assign(live, ind)
            lines += ls
            asts.append(a)
        return lines, ["seqs"] + asts

    # ------------------------------------------------------------------ program
    def program(self):
        r = self.r
        p = Program()
        p.arrays = dict(self.arrs)
        p.arrays.update(self.arrs2)
        p.names = self.names
        p.tagtext = self.tagtext
        nrout = r.choice([1, 1, 2, 3])
        mod = ["module m", "  implicit none",
               "  integer :: " + ", ".join(self.iscal), "  real :: x0", "  logical :: fl, fg, fh"]
        mod += [a.decl() for a in self.arrs.values()] + [a.decl() for a in self.arrs2.values()]
        mod += ["contains", "  subroutine init()", "    integer :: ii, jj"]
        for s in self.iscal:
            mod.append(f"    {s} = {r.randint(-2, 7)}")
        mod.append(f"    x0 = {r.randint(0, 5)}.0")
        mod.append(f"    fl = {r.choice(['.true.', '.false.'])}")
        mod.append(f"    fg = {r.choice(['.true.', '.false.'])}")
        mod.append(f"    fh = {r.choice(['.true.', '.false.'])}")
        for a in self.arrs.values():
            k, c, m, o = r.randint(1, 7), r.randint(0, 9), r.choice([5, 7, 11]), r.randint(0, 4)
            mod += [f"    do ii = {a.lo}, {a.hi}", f"      {a.name}(ii) = mod(ii * {k} + {c + 40}, {m}) - {o}", "    end do"]
        for a in self.arrs2.values():
            k, c, m = r.randint(1, 5), r.randint(1, 5), r.choice([5, 7, 11])
            mod += [f"    do jj = {a.lo2}, {a.hi2}", f"      do ii = {a.lo}, {a.hi}",
                    f"        {a.name}(ii, jj) = mod(ii * {k} + jj * {c} + 60, {m}) - 2", "      end do", "    end do"]
        mod.append("  end subroutine init")
        for n in range(nrout):
            self.feats = set()
            self.modelled = True
            lines, ast = self.block({}, r.randint(2, 4), "    ", 0)
            if r.random() < 0.45:
                tl, ta = self.truth_block("    ")
                lines, ast = tl + lines, ["seqs", ta] + ast[1:]
            mod += [f"  subroutine r{n}()", "    integer :: i, j, k"] + lines + [f"  end subroutine r{n}"]
            p.routines.append(Routine(f"r{n}", "\n".join(lines), ast, self.modelled, set(self.feats)))
            p.feats |= self.feats
        mod.append("end module m")
        main = ["program p", "  use m", "  implicit none", "  call init()"]
        main += [f"  call r{n}()" for n in range(nrout)]
        main += [f"  print *, {s}" for s in self.iscal + self.rscal + self.lscal]
        main += [f"  print *, {a}" for a in list(self.arrs) + list(self.arrs2)]
        main.append("end program p")
        p.source = "\n".join(mod + main) + "\n"
        return p


def firstsec(a):
    """first array section of an AExpr AST in pre-order (None if it has none)"""
    if not isinstance(a, list) or not a:
        return None
    if a[0] == "sec":
        return a
    if a[0] in ("scal", "sum", "sumdim", "red", "reddim"):
        return None
    for y in a[1:]:
        f = firstsec(y)
        if f is not None:
            return f
    return None


def squash(t):
    return "".join(t.split()).lower()


def opt(v):
    return "none" if v is None else v


def lit_text(c, typ):
    return f"{c}.0" if typ == REAL else str(c)


def lit_ast(c):
    return ["un", "neg", ["lit", -c]] if c < 0 else ["lit", c]


def sec_ast(aid, lo, hi, st):
    return ["sec", aid, opt(lo), opt(hi), opt(st)]


def env_sx(p):
    return [[p.names.id(a.name), a.lo, a.hi, 1 if a.typed else 0] + ([a.lo2, a.hi2] if a.rank == 2 else [])
            for a in p.arrays.values()]


def firstsec2(a):
    if not isinstance(a, list) or not a:
        return None
    if a[0] == "sec2":
        return a
    if a[0] in ("scal", "sum", "sumdim", "red", "reddim"):
        return None
    for y in a[1:]:
        f = firstsec2(y)
        if f is not None:
            return f
    return None


def gen_program(rng, names, focus=None):
    return Gen(rng, names, focus).program()
