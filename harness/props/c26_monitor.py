"""C26 — run-time monitor used to cross-check the protocol skeletons (props/c26_skel.py): records every structural
mutation of the monitored tree (ChildrenList operations on nodes below the root, SymbolTable.add / remove /
rename_symbol / swap_symbol_properties / attach / detach on tables of scopes below the root) made during one apply().
Copies made by a validate() have another root and are not counted.  For a transformation whose skeleton is safe no
such event may precede an escaping TransformationError."""
_STATE = {"installed": False, "active": None}
LIST_METHODS = ("append", "__setitem__", "insert", "extend", "__iadd__", "__delitem__", "remove", "pop", "reverse",
                "clear", "__imul__", "sort")
TABLE_METHODS = ("add", "remove", "rename_symbol", "swap_symbol_properties", "attach", "detach")


def _root_of(node):
    seen = 0
    while getattr(node, "_parent", None) is not None and seen < 10000:
        node = node._parent
        seen += 1
    return node


def install():
    if _STATE["installed"]:
        return
    from psyclone.psyir.nodes.node import ChildrenList
    from psyclone.psyir.symbols import SymbolTable

    def wrap_list(name):
        orig = getattr(ChildrenList, name)

        def wrapper(self, *args, **kwargs):
            mon = _STATE["active"]
            if mon is not None:
                owner = getattr(self, "_node_reference", None)
                if owner is not None and _root_of(owner) is mon["root"]:
                    mon["events"].append("children." + name)
            return orig(self, *args, **kwargs)
        wrapper.__name__ = name
        setattr(ChildrenList, name, wrapper)

    def wrap_table(name):
        orig = getattr(SymbolTable, name)

        def wrapper(self, *args, **kwargs):
            mon = _STATE["active"]
            if mon is not None and not (name == "rename_symbol" and kwargs.get("dry_run")):
                scope = getattr(self, "_node", None)
                if scope is not None and _root_of(scope) is mon["root"]:
                    mon["events"].append("symbol_table." + name)
            return orig(self, *args, **kwargs)
        wrapper.__name__ = name
        setattr(SymbolTable, name, wrapper)

    for n in LIST_METHODS:
        wrap_list(n)
    for n in TABLE_METHODS:
        wrap_table(n)
    _STATE["installed"] = True


def start(root):
    install()
    _STATE["active"] = {"root": root, "events": []}


def stop():
    mon, _STATE["active"] = _STATE["active"], None
    return mon["events"] if mon else []
