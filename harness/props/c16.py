"""C16 — SymbolTable histories: real psyclone.psyir.symbols.SymbolTable vs. the Lean model
C16.step (lean/PsyVerif/Model/SymTab.lean), plus direct evaluation of the property's clauses
(Inv, innermost lookup, freshness, merge-once, atomicity) on the real tables after every op."""
import json
import os

from common import driver, sx, known_findings, ROOT

NONE = "~"
BASES = ["a", "b", "x", "sin", "cos", "m", "n", "tmp", "v"]
TAGS = ["t1", "t2", "T1", "g"]
KINDS = ["generic", "data", "routine", "container", "intrinsic", "datatype"]
IFACES = ["auto", "arg", "unres", "static", "common"]
# defects that are repaired by a fix patch (fixes/C16-*.patch): the model follows the FIXED code, so meeting one of
# them on the real code is a violation, whatever known_findings.json still lists
FIXED_IN_MODEL = {"C16-merge-specialise-before-raise"}
ERR = {"KeyError": "Key", "ValueError": "Value", "SymbolError": "Symbol", "TypeError": "Type",
       "NotImplementedError": "NotImpl", "InternalError": "Internal"}


def _imports():
    # imported lazily so that VERIF_REPO / sys.path set up by common is used
    from psyclone.psyir import symbols as S
    from psyclone.psyir import nodes as N
    return S, N


# --------------------------------------------------------------------------- world

class World:
    """The real objects of one history: a forest of PSyIR nodes, the tables, the symbol objects."""

    def __init__(self, shape, extra_tables):
        S, N = _imports()
        self.S, self.N = S, N
        self.shape, self.extra = shape, extra_tables
        self.nodes = []       # real nodes, index = model node id
        self.tabs = []        # real tables, index = model table id
        self.dead = set()     # tables consumed by a successful merge
        self.objs = []        # symbol objects, index = model symbol id
        self.ids = {}         # id(obj) -> model symbol id
        self.counter = 0
        for tree in shape:
            self._build(tree)
        for n in self.nodes:
            if isinstance(n, N.ScopingNode):
                n.symbol_table.detach()
                t = S.SymbolTable()
                t.attach(n)
                self.tabs.append(t)
        for _ in range(extra_tables):
            self.tabs.append(S.SymbolTable())

    def _build(self, depth):
        """depth 1: Routine; 2: Container>Routine; 3: Container>Routine>Loop>Schedule;
        4: … >Loop>Schedule>Loop>Schedule"""
        S, N = self.S, self.N
        if depth == 1:
            r = N.Routine.create("r", S.SymbolTable(), [])
            self.nodes.append(r)
            return
        c = N.Container("c")
        r = N.Routine.create("r", S.SymbolTable(), [])
        c.addchild(r)
        self.nodes += [c, r]
        parent = r
        for _ in range(depth - 2):
            var = S.DataSymbol("lv", S.INTEGER_TYPE)
            one = lambda: N.Literal("1", S.INTEGER_TYPE)   # noqa: E731
            loop = N.Loop.create(var, one(), one(), one(), [])
            parent.addchild(loop)
            self.nodes += [loop, loop.loop_body]
            parent = loop.loop_body

    def header(self, intr):
        N = self.N
        nodes = []
        for n in self.nodes:
            anc, p = [], n.parent
            while p is not None:
                anc.append(next(i for i, m in enumerate(self.nodes) if m is p))
                p = p.parent
            nodes.append([1 if isinstance(n, N.ScopingNode) else 0] + anc)
        tabs = []
        for t in self.tabs:
            tabs.append(NONE if t.node is None else next(i for i, m in enumerate(self.nodes) if m is t.node))
        return [["nodes"] + nodes, ["tabs"] + tabs, ["intr"] + intr]

    # -- symbols ---------------------------------------------------------
    def register(self, obj):
        if id(obj) not in self.ids:
            self.ids[id(obj)] = self.counter
            self.objs.append(obj)
            self.counter += 1
        return self.ids[id(obj)]

    def mk_iface(self, iface):
        S = self.S
        if isinstance(iface, list):
            _, cid, _cname, orig = iface
            return S.ImportInterface(self.objs[cid], orig_name=None if orig == NONE else orig)
        return {"auto": S.AutomaticInterface, "arg": S.ArgumentInterface, "unres": S.UnresolvedInterface,
                "static": S.StaticInterface, "common": S.CommonBlockInterface}[iface]()

    def sym_args(self, kind, iface, wild):
        """(class, kwargs) for constructing a symbol of the model kind"""
        S, N = self.S, self.N
        if kind == "container":
            return S.ContainerSymbol, {"wildcard_import": bool(wild)}
        kw = {"interface": self.mk_iface(iface)}
        if kind == "generic":
            return S.Symbol, kw
        if kind == "data":
            return S.DataSymbol, dict(kw, datatype=S.INTEGER_TYPE)
        if kind == "routine":
            return S.RoutineSymbol, kw
        if kind == "intrinsic":
            return S.IntrinsicSymbol, dict(kw, intrinsic=N.IntrinsicCall.Intrinsic.ABS)
        return S.DataTypeSymbol, dict(kw, datatype=S.UnresolvedType())

    def make(self, name, kind, iface, wild):
        cls, kw = self.sym_args(kind, iface, wild)
        return cls(name, **kw)

    # -- canonical dump ----------------------------------------------------
    def kind_of(self, s):
        return {"Symbol": "generic", "DataSymbol": "data", "RoutineSymbol": "routine",
                "ContainerSymbol": "container", "IntrinsicSymbol": "intrinsic",
                "DataTypeSymbol": "datatype"}.get(type(s).__name__, type(s).__name__)

    def iface_of(self, s):
        i = s.interface
        n = type(i).__name__
        if n == "ImportInterface":
            cid = self.ids.get(id(i.container_symbol), "?")
            return f"imp({cid}/{i.container_symbol.name}/{i.orig_name or NONE})"
        return {"AutomaticInterface": "auto", "FortranModuleInterface": "auto", "ArgumentInterface": "arg",
                "UnresolvedInterface": "unres", "StaticInterface": "static",
                "CommonBlockInterface": "common"}.get(n, n)

    def dump_table(self, ti):
        t = self.tabs[ti]
        nd = "-" if t.node is None else str(next(i for i, m in enumerate(self.nodes) if m is t.node))
        if ti in self.dead:
            return f"@{nd}[]{{}}()"
        ents = ",".join(
            f"{k or NONE}={self.ids.get(id(s), '?')}:{s.name or NONE}:{self.kind_of(s)}:{self.iface_of(s)}:"
            f"{1 if getattr(s, 'wildcard_import', False) else 0}" for k, s in t._symbols.items())
        tags = ",".join(f"{g}={self.ids.get(id(s), '?')}" for g, s in t._tags.items())
        args = ",".join(str(self.ids.get(id(s), "?")) for s in t._argument_list)
        return f"@{nd}[{ents}]{{{tags}}}({args})"

    def dump(self):
        return ";".join(self.dump_table(i) for i in range(len(self.tabs)))

    # -- the scopes enclosing a table, computed independently of SymbolTable ------------
    def enclosing(self, ti, limit=None):
        """tables of the enclosing scoping nodes, innermost first, not going above node `limit`
        and not beyond a ScopingNode that has no table"""
        N = self.N
        t = self.tabs[ti]
        out = [t]
        n = t.node
        lim = None if limit is None else self.nodes[limit]
        while n is not None and n is not lim and n.parent is not None:
            n = n.parent
            if isinstance(n, N.ScopingNode):
                if n.symbol_table is None:
                    break
                out.append(n.symbol_table)
        return out


# --------------------------------------------------------------------------- executing one op on the real code

def execute(w, op):
    """Run one protocol op on the real tables. Returns (outcome string, info dict for the clauses)."""
    S = w.S
    kind = op[0]
    info = {}
    T = (lambda i: w.tabs[i])
    nn = (lambda x: None if x == NONE else x)
    try:
        if kind == "create":
            w.tabs.append(S.SymbolTable())
            return "ok", info
        if kind == "add":
            _, t, name, k, iface, wild, tag = op
            obj = w.make(name, k, iface, wild)
            i = w.register(obj)
            T(t).add(obj, tag=nn(tag))
            return f"sym:{i}", info
        if kind == "new":
            _, t, root, tag, sh, k, allow, iface, wild = op
            cls, kw = w.sym_args(k, iface, wild)
            if iface == "auto" and "interface" in kw:
                del kw["interface"]
            try:
                obj = T(t).new_symbol(nn(root), tag=nn(tag), shadowing=bool(sh), symbol_type=cls,
                                      allow_renaming=bool(allow), **kw)
            except KeyError:
                w.counter += 1      # the symbol object was created before add() refused the tag
                w.objs.append(None)
                raise
            info["fresh"] = (t, obj.name, bool(sh), None)
            return f"sym:{w.register(obj)}", info
        if kind == "next":
            _, t, root, sh, other = op
            name = T(t).next_available_name(nn(root), shadowing=bool(sh),
                                            other_table=None if other == NONE else T(other))
            info["fresh"] = (t, name, bool(sh), None if other == NONE else other)
            return f"name:{name}", info
        if kind == "lookup":
            _, t, name, limit = op
            info["lookup"] = (t, name, None if limit == NONE else limit)
            s = T(t).lookup(name, scope_limit=None if limit == NONE else w.nodes[limit])
            info["found"] = s
            return f"sym:{w.ids.get(id(s), '?')}", info
        if kind == "ltag":
            _, t, tag, limit = op
            s = T(t).lookup_with_tag(tag, scope_limit=None if limit == NONE else w.nodes[limit])
            return f"sym:{w.ids.get(id(s), '?')}", info
        if kind == "foc":
            _, t, name, k, iface = op
            kw = {}
            if k != NONE:
                cls, kw = w.sym_args(k, iface, 0)
                kw["symbol_type"] = cls
            else:
                kw["interface"] = w.mk_iface(iface)
            known = set(w.ids)
            s = T(t).find_or_create(name, **kw)
            if id(s) not in known:
                info["fresh"] = (t, s.name, False, None)
            return f"sym:{w.register(s)}", info
        if kind == "foct":
            _, t, tag, root, k, iface = op
            kw = {}
            if k != NONE:
                cls, kw = w.sym_args(k, iface, 0)
                kw["symbol_type"] = cls
            else:
                kw["interface"] = w.mk_iface(iface)
            known = set(w.ids)
            s = T(t).find_or_create_tag(tag, root_name=nn(root), **kw)
            if id(s) not in known:
                info["fresh"] = (t, s.name, False, None)
            return f"sym:{w.register(s)}", info
        if kind == "rename":
            _, t, i, name = op
            T(t).rename_symbol(w.objs[i], name)
            return "ok", info
        if kind == "remove":
            _, t, i = op
            T(t).remove(w.objs[i])
            return "ok", info
        if kind == "swap":
            _, t, i, name, k, iface, wild = op
            obj = w.make(name, k, iface, wild)
            j = w.register(obj)
            T(t).swap(w.objs[i], obj)
            return f"sym:{j}", info
        if kind == "args":
            _, t, ids = op
            T(t).specify_argument_list([w.objs[i] for i in ids])
            return "ok", info
        if kind == "swapprops":
            _, t, i, j = op
            T(t).swap_symbol_properties(w.objs[i], w.objs[j])
            return "ok", info
        if kind == "merge":
            _, t, o, skip = op
            osyms = list(T(o).symbols)
            forbidden = set(T(o)._symbols.keys())
            for tb in w.enclosing(t):
                forbidden |= set(tb._symbols.keys())
            info["merge"] = (t, o, skip, list(T(t).symbols), osyms,
                             {id(s): s.name for s in T(t).symbols + osyms}, forbidden,
                             {id(s): (s.is_import and not any(s.interface.container_symbol is x for x in osyms))
                              for s in osyms},
                             {id(s): s.is_import for s in osyms})
            # observe every rename performed inside merge(): the generated name must be fresh at that moment
            orig_rename = S.SymbolTable.rename_symbol
            tself, tother, scopes = T(t), T(o), w.enclosing(t)
            stale = []

            def spy(table, symbol, name, dry_run=False):
                if not dry_run and isinstance(name, str):
                    taken = set(tother._symbols.keys())
                    for tb in scopes:
                        taken |= set(tb._symbols.keys())
                    if name.lower() in taken:
                        stale.append((symbol.name, name, sorted(taken)))
                return orig_rename(table, symbol, name, dry_run=dry_run)
            S.SymbolTable.rename_symbol = spy
            info["stale"] = stale
            try:
                tself.merge(tother, symbols_to_skip=[w.objs[i] for i in skip])
            finally:
                S.SymbolTable.rename_symbol = orig_rename
            w.dead.add(o)
            info["merged"] = True
            return "ok", info
        if kind == "attach":
            _, t, n = op
            T(t).attach(w.nodes[n])
            return "ok", info
        if kind == "detach":
            _, t = op
            T(t).detach()
            return "ok", info
        raise ValueError("unknown op " + str(op))
    except Exception as e:   # noqa: BLE001 - the exception class IS the observable
        name = type(e).__name__
        if kind not in ("create",) and name in ERR:
            return "err:" + ERR[name], info
        raise


# --------------------------------------------------------------------------- the property, on the real tables

def low(s):
    return s.lower()


def clause_inv(w):
    for ti, t in enumerate(w.tabs):
        if ti in w.dead:
            continue
        names = [low(s.name) for s in t._symbols.values()]
        if list(t._symbols.keys()) != names:
            return f"table {ti}: keys {list(t._symbols.keys())} are not the lower-cased names {names}"
        if len(set(names)) != len(names):
            return f"table {ti}: names not unique case-insensitively: {names}"
        for g, s in t._tags.items():
            if not any(s is x for x in t._symbols.values()):
                return f"table {ti}: tag {g} refers to a symbol ({s.name}) that is not in the table"
    return None


def clause_lookup(w, info, outcome):
    if "lookup" not in info:
        return None
    t, name, limit = info["lookup"]
    expected = None
    for tb in w.enclosing(t, limit):
        for s in tb._symbols.values():
            if low(s.name) == low(name):
                expected = s
                break
        if expected is not None:
            break
    got = info.get("found")
    if outcome.startswith("sym:"):
        if got is not expected:
            return (f"lookup({name}) from table {t} returned {got.name}#{w.ids.get(id(got))} but the innermost "
                    f"enclosing scope holding the name has {None if expected is None else expected.name}"
                    f"#{None if expected is None else w.ids.get(id(expected))}")
    elif outcome == "err:Key":
        if expected is not None:
            return f"lookup({name}) from table {t} raised KeyError but an enclosing scope holds {expected.name}"
    return None


def clause_fresh(w, info, pre_keys):
    """pre_keys: table index -> set of keys before the op"""
    if "fresh" not in info:
        return None
    t, name, shadowing, other = info["fresh"]
    forbidden = set(pre_keys[t])
    if not shadowing:
        for tb in w.enclosing(t)[1:]:
            forbidden |= pre_keys[next(i for i, x in enumerate(w.tabs) if x is tb)]
    if other is not None:
        forbidden |= pre_keys[other]
    if low(name) in forbidden:
        return f"generated name {name} clashes (case-insensitively) with {sorted(forbidden)}"
    return None


def clause_merge(w, info):
    """merge-once and freshness of the renames of a successful merge.
    Returns None or (clause, text, offending symbol)."""
    if not info.get("merged"):
        return None
    S = w.S
    t, o, skip, self_pre, other_pre, names_pre, forbidden = info["merge"][:7]
    now = list(w.tabs[t].symbols)
    skipobjs = [w.objs[i] for i in skip]
    pre_self_keys = {low(names_pre[id(s)]) for s in self_pre}
    pre_other_keys = {low(names_pre[id(s)]) for s in other_pre}
    # every name generated for a rename must be fresh w.r.t. the receiving table, its enclosing scopes
    # and the merged table as they were when the merge started
    for s in self_pre + other_pre:
        if s.name != names_pre[id(s)] and low(s.name) in forbidden:
            return ("fresh", f"merge renamed {names_pre[id(s)]} to {s.name}, a name already used in the receiving "
                    f"table, its enclosing scopes or the merged table: {sorted(forbidden)}", s)
    for s in self_pre:
        if sum(1 for x in now if x is s) != 1:
            return ("merge-once", f"symbol {names_pre[id(s)]} of the receiving table is present "
                    f"{sum(1 for x in now if x is s)} times", s)
    for s in other_pre:
        cnt = sum(1 for x in now if x is s)
        if any(s is k for k in skipobjs):
            continue
        if cnt == 1:
            continue
        if cnt > 1:
            return ("merge-once", f"symbol {s.name} was added {cnt} times", s)
        same = [x for x in now if low(x.name) == low(names_pre[id(s)])]
        # absorbed only by the entry that had that name BEFORE the merge
        same = [x for x in same if any(x is y for y in self_pre) and low(names_pre[id(x)]) == low(names_pre[id(s)])]
        if isinstance(s, S.ContainerSymbol) and same and isinstance(same[0], S.ContainerSymbol):
            continue
        if s.is_import and same and same[0].is_import and same[0].interface == s.interface:
            continue
        if s.is_unresolved and same and same[0].is_unresolved:
            continue
        return ("merge-once", f"non-skipped symbol {names_pre[id(s)]} of the merged table is not in the result", s)
    for s in self_pre + other_pre:
        if s.name != names_pre[id(s)]:
            k = low(names_pre[id(s)])
            if not (k in pre_self_keys and k in pre_other_keys):
                return ("merge-once", f"symbol {names_pre[id(s)]} was renamed to {s.name} without a clash", s)
    return None


# --------------------------------------------------------------------------- known-finding classifiers

def classify(w, op, info, clause, outcome, before, after, culprit=None):
    """Which known defect class (if any) explains a failed clause of a merge / swap_symbol_properties."""
    if op[0] == "swapprops" and clause == "atomic" and outcome == "err:Type":
        # only the interface of symbol1 may differ
        import re
        strip = (lambda d: re.sub(r"(=%d:[^:]*:[^:]*:)(imp\([^)]*\)|[a-z]+)" % op[2], r"\1I", d))
        return "C16-swapprops-partial" if strip(before) == strip(after) else None
    if op[0] != "merge" or "merge" not in info:
        return None
    S = w.S
    _, t, o, skip = op
    other_syms = info["merge"][4]

    def outer_import(s):
        return s.is_import and not any(s.interface.container_symbol is x for x in other_syms)
    if clause == "merge-once":
        # only the silent drop of a symbol that is itself imported from a container outside the merged table
        if culprit is not None and any(culprit is x for x in other_syms) and info["merge"][7].get(id(culprit)) \
                and "is not in the result" in info.get("why", ""):
            return "C16-merge-outer-import-dropped"
        return None
    if clause != "atomic":
        return None
    if outcome in ("err:Internal", "err:Key") and any(info["merge"][7].get(id(s)) for s in other_syms):
        return "C16-merge-import-from-outer-container"
    self_pre, names_pre = info["merge"][3], info["merge"][5]
    if outcome == "err:Symbol":
        for s in other_syms:
            for x in self_pre:
                if (names_pre[id(x)].lower() == names_pre[id(s)].lower() and isinstance(s, S.IntrinsicSymbol)
                        and isinstance(x, S.IntrinsicSymbol) and not (s.is_unresolved and x.is_unresolved)):
                    return "C16-merge-intrinsic-pair-unrenamable"
    skipobjs = [w.objs[i] for i in skip]
    if outcome == "err:Symbol" and any(isinstance(s, S.ContainerSymbol) or info["merge"][8].get(id(s)) for s in skipobjs):
        return "C16-merge-skip-ignored-in-container-phase"
    strip = (lambda d: d.replace(":intrinsic:", ":K:").replace(":generic:", ":K:").replace(":routine:", ":K:"))
    if strip(before) == strip(after):
        return "C16-merge-specialise-before-raise"
    return None


# --------------------------------------------------------------------------- generator

def case_variant(rng, s):
    r = rng.random()
    if r < 0.5:
        return s
    if r < 0.75:
        return s.upper()
    return s.capitalize()


def gen_name(rng):
    b = rng.choice(BASES)
    r = rng.random()
    if r < 0.25:
        b = b + "_" + str(rng.randint(1, 2))
    elif r < 0.28:
        b = b + "_1_1"
    return case_variant(rng, b)


def live_syms(w, t):
    return [w.ids[id(s)] for s in w.tabs[t]._symbols.values() if id(s) in w.ids]


def gen_iface(rng, w, t, allow_import=True):
    r = rng.random()
    if allow_import and r < 0.3:
        conts = []
        for tb in w.enclosing(t) + ([rng.choice(w.tabs)] if rng.random() < 0.1 else []):
            conts += [s for s in tb._symbols.values() if type(s).__name__ == "ContainerSymbol" and id(s) in w.ids]
        if conts:
            c = rng.choice(conts)
            return ["imp", w.ids[id(c)], c.name, rng.choice([NONE, NONE, "orig"])]
    return rng.choices(IFACES, weights=[5, 2, 3, 1, 1])[0]


def gen_kind(rng):
    return rng.choices(KINDS, weights=[4, 6, 2, 3, 1, 1])[0]


def gen_symspec(rng, w, t):
    k = gen_kind(rng)
    if k == "container":
        return k, "auto", rng.choice([0, 0, 1])
    return k, gen_iface(rng, w, t), 0


def leaf_scope(w, o):
    """the table is detached or no ScopingNode lies below its node (so that nothing can see it after a merge)"""
    n = w.tabs[o].node
    if n is None:
        return True
    return not any(isinstance(d, w.N.ScopingNode) for d in n.walk(w.N.Node)[1:])


def gen_op(rng, w, malformed):
    live = [i for i in range(len(w.tabs)) if i not in w.dead]
    t = rng.choice(live)
    def validsym():
        if malformed or rng.random() < 0.15:
            pool = [w.ids[id(s)] for i in live for s in w.tabs[i]._symbols.values() if id(s) in w.ids]
        else:
            pool = live_syms(w, t)
        return rng.choice(pool) if pool else None
    r = rng.random()
    tag = rng.choice(TAGS) if rng.random() < 0.3 else NONE
    if r < 0.22:
        k, iface, wild = gen_symspec(rng, w, t)
        return ["add", t, gen_name(rng), k, iface, wild, tag]
    if r < 0.34:
        k, iface, wild = gen_symspec(rng, w, t)
        root = NONE if rng.random() < 0.05 else gen_name(rng)
        return ["new", t, root, tag, rng.choice([0, 0, 1]), k, rng.choice([1, 1, 1, 0]), iface, wild]
    if r < 0.40:
        other = rng.choice(live) if rng.random() < 0.4 else NONE
        return ["next", t, NONE if rng.random() < 0.05 else gen_name(rng), rng.choice([0, 0, 1]), other]
    if r < 0.50:
        limit = NONE
        if w.nodes and rng.random() < 0.4:
            limit = rng.randrange(len(w.nodes))
        return ["lookup", t, gen_name(rng), limit]
    if r < 0.54:
        limit = rng.randrange(len(w.nodes)) if w.nodes and rng.random() < 0.3 else NONE
        return ["ltag", t, rng.choice(TAGS), limit]
    if r < 0.60:
        k = rng.choice([NONE, NONE, "data", "routine", "generic", "container"])
        iface = "auto" if k == "container" else gen_iface(rng, w, t)
        return ["foc", t, gen_name(rng), k, iface]
    if r < 0.65:
        k = rng.choice([NONE, NONE, "data", "routine", "generic"])
        return ["foct", t, rng.choice(TAGS), rng.choice([NONE, gen_name(rng)]), k, gen_iface(rng, w, t)]
    if r < 0.74:
        i = validsym()
        if i is not None:
            return ["rename", t, i, gen_name(rng)]
    if r < 0.80:
        i = validsym()
        if i is not None:
            return ["remove", t, i]
    if r < 0.84:
        i = validsym()
        if i is not None:
            k, iface, wild = gen_symspec(rng, w, t)
            name = w.objs[i].name if rng.random() < 0.8 else gen_name(rng)
            return ["swap", t, i, case_variant(rng, name.lower()), k, iface, wild]
    if r < 0.855:
        ls = live_syms(w, t)
        if len(ls) >= 2:
            data = [i for i in ls if type(w.objs[i]).__name__ == "DataSymbol"]
            pick = data if len(data) >= 2 and rng.random() < 0.6 else ls
            i, j = rng.sample(pick, 2)
            return ["swapprops", t, i, j]
    if r < 0.87:
        ls = [i for i in live_syms(w, t)]
        good = [i for i in ls if type(w.objs[i]).__name__ == "DataSymbol" and w.objs[i].is_argument]
        pick = good if rng.random() < 0.8 else ls
        rng.shuffle(pick)
        return ["args", t, pick[:3]]
    if r < 0.95:
        cands = [o for o in live if o != t and not any(w.tabs[o] is x for x in w.enclosing(t))
                 and not any(w.tabs[t] is x for x in w.enclosing(o)) and leaf_scope(w, o)]
        if cands:
            o = rng.choice(cands)
            skip = []
            osyms = live_syms(w, o)
            if osyms and rng.random() < 0.3:
                skip = rng.sample(osyms, min(len(osyms), rng.randint(1, 2)))
            return ["merge", t, o, skip]
    if r < 0.97:
        return ["create"]
    if r < 0.985 and w.nodes:
        return ["attach", t, rng.randrange(len(w.nodes))]
    return ["detach", t]


FOCUS_BASES = ["sin", "m", "v", "a", "cos", "x"]


def focus_name(rng, w, t, o):
    """names from a pool of 2-3 bases per history, as the base itself or shaped like one of the candidates that
    next_available_name would generate for a name already present in one of the two tables (<name>_1, <name>_2)"""
    if not hasattr(w, "focus_pool"):
        w.focus_pool = rng.sample(FOCUS_BASES, rng.choice([2, 2, 3]))
    r = rng.random()
    if r < 0.35:
        present = [s.name for i in (t, o) for s in w.tabs[i]._symbols.values()]
        if present:
            return case_variant(rng, rng.choice(present).lower() + "_" + str(rng.choice([1, 1, 1, 2])))
    b = rng.choice(w.focus_pool)
    if r < 0.5:
        b += rng.choice(["_1", "_1", "_2", "_1_1"])
    return case_variant(rng, b)


def gen_focus_op(rng, w, t, o):
    """ops that populate the two tables of a coming merge (and their enclosing scopes) with clashing names,
    names shaped like fresh-name candidates, containers, imports, unresolved symbols and intrinsic names"""
    S = w.S
    r = rng.random()
    outer = [i for i, tb in enumerate(w.tabs) if any(tb is x for x in w.enclosing(o)[1:] + w.enclosing(t)[1:])]
    where = rng.choice([t, o, t, o, o] + outer)
    name = focus_name(rng, w, t, o)
    if r < 0.2:
        return ["add", where, name, "container", "auto", rng.choice([0, 0, 1]), NONE]
    if r < 0.5:
        conts = [s for tb in w.enclosing(where) for s in tb._symbols.values()
                 if isinstance(s, S.ContainerSymbol) and id(s) in w.ids]
        if conts:
            c = rng.choice(conts)
            return ["add", where, name, rng.choice(["data", "generic", "routine"]),
                    ["imp", w.ids[id(c)], c.name, rng.choice([NONE, NONE, "orig"])], 0, NONE]
        if rng.random() < 0.6:
            return ["add", where, case_variant(rng, rng.choice(w.focus_pool)), "container", "auto", rng.choice([0, 0, 1]), NONE]
    if r < 0.68:
        return ["add", where, name, rng.choice(["generic", "generic", "routine", "data", "intrinsic"]), "unres", 0, NONE]
    if r < 0.92:
        return ["add", where, name, rng.choice(["data", "generic", "routine"]),
                rng.choice(["auto", "auto", "auto", "arg", "static", "common"]), 0, rng.choice([NONE, NONE, "t1"])]
    return ["new", where, name, NONE, 0, rng.choice(["data", "generic"]), 1, "auto", 0]


def gen_world(rng):
    r = rng.random()
    if r < 0.15:
        shape = [1]
    elif r < 0.35:
        shape = [2]
    elif r < 0.6:
        shape = [3]
    elif r < 0.7:
        shape = [4]
    elif r < 0.9:
        shape = [rng.choice([2, 3]), rng.choice([1, 2])]
    else:
        shape = []
    return shape, rng.choice([0, 1, 1, 2]) + (1 if not shape else 0)


def intrinsic_names():
    _, N = _imports()
    pool = {b for b in BASES} | {b + "_1" for b in BASES} | {b + "_2" for b in BASES}
    return sorted(n.lower() for n in N.IntrinsicCall.Intrinsic.__members__ if n.lower() in pool)


# --------------------------------------------------------------------------- running histories

def run_history(shape, extra, ops_or_gen, intr, rng=None, nops=0, malformed=False, focus_merge=False):
    """Execute a history on the real code, evaluating the clauses after every op.
    ops_or_gen: list of ops (replay/corpus) or None (generate online with rng).
    Returns dict(ops, outputs, problems=[(index, clause, text, classifier)])."""
    w = World(shape, extra)
    header = w.header(intr)
    ops, outs, problems = [], [], []
    n = len(ops_or_gen) if ops_or_gen is not None else nops
    focus = None
    if ops_or_gen is None and focus_merge:
        live = list(range(len(w.tabs)))
        pairs = [(t, o) for t in live for o in live if o != t and leaf_scope(w, o)
                 and not any(w.tabs[o] is x for x in w.enclosing(t)) and not any(w.tabs[t] is x for x in w.enclosing(o))]
        if pairs:
            focus = rng.choice(pairs) + (rng.randint(min(5, max(3, n - 2)), max(3, n - 2)),)
    for k in range(n):
        if ops_or_gen is not None:
            op = ops_or_gen[k]
        elif focus and k < focus[2]:
            op = gen_focus_op(rng, w, focus[0], focus[1])
        elif focus and k == focus[2]:
            osyms = live_syms(w, focus[1])
            skip = rng.sample(osyms, min(len(osyms), rng.randint(1, 2))) if osyms and rng.random() < 0.3 else []
            op = ["merge", focus[0], focus[1], skip]
        else:
            op = gen_op(rng, w, malformed)
        before = w.dump()
        pre_keys = {i: set(t._symbols.keys()) for i, t in enumerate(w.tabs)}
        try:
            outcome, info = execute(w, op)
        except Exception as e:   # noqa: BLE001
            outcome, info = f"err:Other:{type(e).__name__}", {}
        after = w.dump()
        ops.append(op)
        outs.append(outcome + "|" + after)
        stop = False
        why = clause_inv(w)
        if why:
            problems.append((k, "inv", why, None))
        why = clause_lookup(w, info, outcome)
        if why:
            problems.append((k, "lookup", why, None))
        why = clause_fresh(w, info, pre_keys)
        if why:
            problems.append((k, "fresh", why, None))
        if info.get("stale"):
            a, b, taken = info["stale"][0]
            problems.append((k, "fresh", f"merge renamed {a} to {b} although that name was in use at that moment in the "
                             f"receiving table, its enclosing scopes or the merged table: {taken}", None))
        res = clause_merge(w, info)
        if res:
            info["why"] = res[1]
            problems.append((k, res[0], res[1],
                             classify(w, op, info, res[0], outcome, before, after, culprit=res[2])))
        if outcome.startswith("err:") and before != after:
            cls = classify(w, op, info, "atomic", outcome, before, after)
            problems.append((k, "atomic", f"rejected {op[0]} ({outcome}) changed the tables:\n  before {before}\n  after  {after}", cls))
            stop = (op[0] == "merge")   # symbols may now be shared between two tables: outside the model's alphabet
        if outcome.startswith("err:Other"):
            stop = True
        if stop:
            break
    return {"shape": shape, "extra": extra, "header": header, "ops": ops, "outs": outs, "problems": problems}


def line_of(h):
    return sx(["hist"] + h["header"] + [["ops"] + h["ops"]])


def op_weight(h):
    return len({o[0] for o in h["ops"]})


def corpus_cases():
    d = os.path.join(ROOT, "corpus", "C16")
    out = []
    if os.path.isdir(d):
        for f in sorted(os.listdir(d)):
            if f.endswith(".json"):
                out.append(json.load(open(os.path.join(d, f))))
    return out


def run(chk):
    chk.cov["rule"] = ("histories of <=25 symbol-table operations generated online against the real tables over a forest "
                       "of 0-2 PSyIR trees (Routine / Container>Routine / ...>Loop>Schedule(>Loop>Schedule)) plus detached "
                       "tables; names from 9 bases with case variants and _1/_2 suffixes, 4 tags, 6 symbol kinds, 6 interfaces "
                       "(incl. ImportInterface to a container in scope, wildcard containers, unresolved); 60% of the histories set up a merge: "
                       "2-3 bases per history, names shaped like the fresh-name candidates (<name>_1/_2) of symbols already present, "
                       "as imports/locals/unresolved in either table and in enclosing scopes, in both orders; a malformed stream "
                       "uses arbitrary symbol objects; non-trivial = at least 4 distinct op kinds and one refusal or merge; "
                       "distinct by canonical JSON of the op list")
    chk.assumptions += [
        "a Symbol object is an entry of at most one table in use; the table given to merge() is not used afterwards "
        "(the model stores symbol records by value and empties the merged table)",
        "names and tags are non-empty ASCII; no CodeBlock/Call nodes in the scopes; no GenericInterfaceSymbol; "
        "visibility arguments unused",
        "lookup()/get_symbols() stop at a ScopingNode whose table is detached (modelled quirk of parent_symbol_table)",
        "the model follows the code WITH fixes/C16-defer-specialise.patch (check_for_clashes defers specialise()); on a "
        "tree without it the check reports the specialise-before-raise input as a VIOLATION",
        "swap_symbol_properties is only applied to two symbols that are entries of the table"]
    chk.cov["trusted_base"] = ["Lean 4.33.0 kernel", "axioms propext/Classical.choice/Quot.sound only (audited)",
                               "harness/props/c16.py: world builder, canonical dump, clause evaluators",
                               "CPython dict/OrderedDict insertion-order semantics (association lists in the model)"]
    chk.lean()
    intr = intrinsic_names()
    hist = []
    # corpus first
    for c in corpus_cases():
        hist.append(run_history(c["shape"], c["extra"], c["ops"], intr))
    n = 8000 if chk.tier == "thorough" else 1200
    for k in range(n):
        shape, extra = gen_world(chk.rng)
        malformed = chk.rng.random() < 0.15
        focus = (k % 5 >= 2)
        hist.append(run_history(shape, extra, None, intr, rng=chk.rng, nops=chk.rng.randint(8 if focus else 4, 25),
                                malformed=malformed, focus_merge=focus))
    model = driver("C16", [line_of(h) for h in hist])
    known = {e["id"]: e for e in known_findings("C16") if e["id"] not in FIXED_IN_MODEL}
    dist, errs, seen_known = {}, {}, set()
    for h, mo in zip(hist, model):
        mouts = mo.split(" # ") if mo else []
        agreed = (mouts == h["outs"])
        for o, out in zip(h["ops"], h["outs"]):
            dist[o[0]] = dist.get(o[0], 0) + 1
            oc = out.split("|")[0]
            if oc.startswith("err"):
                errs[oc] = errs.get(oc, 0) + 1
        nontriv = op_weight(h) >= 4 and any(o.startswith("err") or p[0] == "merge" for o, p in zip(h["outs"], h["ops"]))
        chk.case({"shape": h["shape"], "extra": h["extra"], "ops": h["ops"]}, nontrivial=nontriv, agreed=agreed)
        for (k, clause, text, cls) in h["problems"]:
            payload = {"shape": h["shape"], "extra": h["extra"], "ops": h["ops"][:k + 1], "clause": clause,
                       "observed": text, "expected": "the clause of C16 named in 'clause' holds after every operation",
                       "kind": "failing-input"}
            if cls in known and agreed:
                seen_known.add(cls)
                continue
            chk.violation(payload)
            return
        if not agreed:
            k = next((i for i, (a, b) in enumerate(zip(mouts, h["outs"])) if a != b), min(len(mouts), len(h["outs"])))
            if len(chk.broken) < 3:     # keep looking for a failing input in the remaining histories
                chk.correspondence_broken(
                    "SymbolTable history differs from C16.step at op %d (%s)"
                    % (k, h["ops"][k][0] if k < len(h["ops"]) else "?"),
                    {"shape": h["shape"], "extra": h["extra"], "ops": h["ops"][:k + 1]},
                    mouts[k] if k < len(mouts) else None, h["outs"][k] if k < len(h["outs"]) else None)
    chk.cov["distribution"] = {"ops": dist, "errors": errs, "known_classes_met_in_random_histories": sorted(seen_known)}
    # known findings: replay the witnesses
    for e in known.values():
        wi = e["witness"]
        h = run_history(wi["shape"], wi["extra"], wi["ops"], intr)
        if any(p[1] == wi.get("clause", "atomic") for p in h["problems"]):
            chk.known(e["what"])


def replay(payload):
    intr = intrinsic_names()
    if "ops" not in payload:
        print(json.dumps(payload, indent=1)[:3000])
        print("no failing input stored (broken proof obligation or correspondence only)")
        return 1
    h = run_history(payload["shape"], payload["extra"], payload["ops"], intr)
    for op, out in zip(h["ops"], h["outs"]):
        print(sx(op), "->", out)
    known = {e["id"] for e in known_findings("C16")} - FIXED_IN_MODEL
    bad = [p for p in h["problems"] if p[3] not in known]
    for (k, clause, text, cls) in h["problems"]:
        print(f"op {k}: clause '{clause}' FAILS: {text}" + (f"  [known finding {cls}]" if cls in known else ""))
    print("property:", "violated" if bad else "holds on this history (up to known findings)")
    return 1 if bad else 0
