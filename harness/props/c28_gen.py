"""C28 helper: seeded generator of Fortran routines with loops, branches, EXIT/CYCLE/RETURN and
forward GOTOs; abstraction of (instrumented) PSyIR trees into the statement type of the Lean model
`C28.Stmt` (S-expressions of lean/Drivers/C28.lean); the checking PSyData stub library and the
gfortran oracle."""
import os
import re
import shutil
import subprocess
import tempfile

LOOPVARS = ["i", "j", "k"]
KINDS = {"ProfileNode": 0, "ExtractNode": 1, "NanTestNode": 2, "ReadOnlyVerifyNode": 3}
TRANS = ["ProfileTrans", "ExtractTrans", "NanTestTrans", "ReadOnlyVerifyTrans"]
PREFIXES = ["profile", "extract", "nan_test", "read_only_verify"]


# ------------------------------------------------------------------ program generator
class Gen:
    """Generates one routine body as a small AST:
    ("assign", text) | ("write",) | ("if", cond, then, else|None, single_line) | ("do", var, body)
    | ("while", depth, body) | ("exit",) | ("cycle",) | ("ret",) | ("goto", L) | ("label", L)
    | ("assoc", body) | ("block", body) | ("ndo", name, var, body) | ("select", [bodies], default|None)
    | ("exitn", name) | ("cyclen", name)
    ASSOCIATE, BLOCK and a DO whose construct name is referenced are kept as whole CodeBlocks by
    PSyclone: everything inside them only exists in the fparser2 parse tree."""

    def __init__(self, rng, budget):
        self.rng = rng
        self.budget = budget
        self.next_label = 100
        self.next_name = 1
        self.features = set()

    def idx(self, loopvars):
        return loopvars[-1] if loopvars else str(self.rng.randint(1, 3))

    def cond(self, loopvars):
        r, ix = self.rng, self.idx(loopvars)
        return r.choice([f"a({ix}) > 0.{r.randint(2, 8)}", f"b({ix}) < 0.{r.randint(2, 8)}",
                         f"x > {r.randint(0, 3)}.5", f"a({ix}) + b({ix}) > 0.{r.randint(5, 9)}"]
                        + ([f"mod({ix}, 2) == 0"] if loopvars else []))

    def assign(self, loopvars):
        r, ix = self.rng, self.idx(loopvars)
        return ("assign", r.choice([f"b({ix}) = b({ix}) + 0.25", f"x = x + a({ix})", f"a({ix}) = x * 0.5",
                                    f"x = x + 1.0", f"b({ix}) = a({ix}) * 0.5"]))

    def transfer(self, in_loop, avail, dname):
        """a control-transfer statement that is legal here (`dname`: construct names of the enclosing
        named DOs, innermost last — EXIT/CYCLE may name any of them: multi-level)"""
        r = self.rng
        opts = [("ret",)] * 2
        if in_loop:
            opts += [("exit",)] * 4 + [("cycle",)] * 3
        for nm in (dname or []):
            opts += [("exitn", nm)] * 2 + [("cyclen", nm)] * 2
        opts += [("goto", L) for L in avail] * 4
        t = r.choice(opts)
        self.features.add({"exitn": "exit", "cyclen": "cycle"}.get(t[0], t[0]))
        return t

    def guarded(self, loopvars, in_loop, labels, dname):
        r = self.rng
        t = self.transfer(in_loop, labels, dname)
        if r.random() < 0.5:
            return ("if", self.cond(loopvars), [t], None, True)
        pre = [self.assign(loopvars)] if r.random() < 0.6 else []
        els = [self.assign(loopvars)] if r.random() < 0.3 else None
        return ("if", self.cond(loopvars), pre + [t], els, False)

    def clean_if(self, loopvars):
        r = self.rng
        then = [self.assign(loopvars) for _ in range(r.randint(1, 2))]
        els = [self.assign(loopvars)] if r.random() < 0.3 else None
        return ("if", self.cond(loopvars), then, els, False)

    def construct(self, depth, loopvars, nwhile, labels, dname, cbdepth):
        """a block construct that PSyclone keeps as one CodeBlock"""
        r = self.rng
        kind = r.choice(["assoc", "assoc", "block", "ndo"] if len(loopvars) < 3 else ["assoc", "block"])
        self.features.add("cb-" + kind)
        self.budget += 2
        if kind == "ndo":
            v = LOOPVARS[len(loopvars)]
            name = f"nm{self.next_name}"
            self.next_name += 1
            body = self.stmts(depth + 1, loopvars + [v], 0, labels, dname=(dname or []) + [name],
                              cbdepth=cbdepth + 1)
            ref = ("if", self.cond(loopvars + [v]), [r.choice([("exitn", name), ("cyclen", name)])], None, True)
            body.insert(r.randint(0, len(body)), ref)    # the name must be referenced
            return ("ndo", name, v, body)
        return (kind, self.stmts(depth + 1, loopvars, nwhile, labels, dname=dname, cbdepth=cbdepth + 1))

    def stmts(self, depth, loopvars, nwhile, avail, top=False, dname=None, cbdepth=0):
        r = self.rng
        n = r.randint(3, 6) if top else (r.randint(2, 5) if cbdepth else r.randint(1, 3))
        own, pos = None, None
        if n >= 2 and r.random() < (0.4 if top else 0.15):
            own, pos = self.next_label, r.randint(1, n)
            self.next_label += 100
        out = []
        for s in range(n):
            if own is not None and s == pos:
                out.append(("label", own))
            labels = avail + ([own] if own is not None and s < pos else [])
            in_loop = bool(loopvars) or nwhile > 0
            if cbdepth:
                # inside a CodeBlock construct: dense mix of clean nested constructs and transfers
                c = r.random()
                if c < 0.22:
                    out.append(self.assign(loopvars))
                elif c < 0.47:
                    out.append(self.clean_if(loopvars))
                elif c < 0.74:
                    out.append(self.guarded(loopvars, in_loop, labels, dname))
                elif c < 0.82 and depth < 4:
                    bodies = [[self.assign(loopvars)] if r.random() < 0.5 else
                              [self.guarded(loopvars, in_loop, labels, dname)] for _ in range(r.randint(1, 2))]
                    dflt = [self.assign(loopvars)] if r.random() < 0.5 else None
                    out.append(("select", bodies, dflt))
                    self.features.add("select")
                elif cbdepth < 2 and depth < 4:
                    out.append(self.construct(depth, loopvars, nwhile, labels, dname, cbdepth))
                else:
                    out.append(self.clean_if(loopvars))
                continue
            if self.budget <= 0:
                out.append(self.assign(loopvars))
                continue
            self.budget -= 1
            c = r.random()
            if c < 0.20:
                out.append(self.assign(loopvars))
            elif c < 0.26:
                out.append(("write",))
            elif c < 0.50:
                out.append(self.guarded(loopvars, in_loop, labels, dname))
            elif c < 0.62 and depth < 3:
                then = self.stmts(depth + 1, loopvars, nwhile, labels, dname=dname)
                els = self.stmts(depth + 1, loopvars, nwhile, labels, dname=dname) if r.random() < 0.4 else None
                out.append(("if", self.cond(loopvars), then, els, False))
            elif c < 0.78 and depth < 3 and len(loopvars) < 3:
                v = LOOPVARS[len(loopvars)]
                out.append(("do", v, self.stmts(depth + 1, loopvars + [v], 0, labels)))
                self.features.add("do")
            elif c < 0.83 and depth < 3 and nwhile < 2:
                d = nwhile + 1
                body = [("assign", f"c{d} = c{d} + 1")] + self.stmts(depth + 1, loopvars, d, labels)
                out.append(("assign", f"c{d} = 0"))
                out.append(("while", d, body))
                self.features.add("while")
            elif c < 0.95 and depth < 3:
                out.append(self.construct(depth, loopvars, nwhile, labels, dname, 0))
            else:
                out.append(self.assign(loopvars))
        if own is not None and pos == n:
            out.append(("label", own))
        if r.random() < 0.08 and not top:
            # a bare transfer as the last statement of a block
            out.append(self.transfer(bool(loopvars) or nwhile > 0, avail, dname))
        return out


def emit(stmts, ind=2):
    pad = " " * ind
    lines = []
    for s in stmts:
        k = s[0]
        if k == "assign":
            lines.append(pad + s[1])
        elif k == "write":
            lines.append(pad + "write(*,*) x")
        elif k == "exit":
            lines.append(pad + "exit")
        elif k == "cycle":
            lines.append(pad + "cycle")
        elif k == "ret":
            lines.append(pad + "return")
        elif k == "goto":
            lines.append(pad + f"goto {s[1]}")
        elif k == "label":
            lines.append(f"{s[1]} continue")
        elif k == "exitn":
            lines.append(pad + f"exit {s[1]}")
        elif k == "cyclen":
            lines.append(pad + f"cycle {s[1]}")
        elif k == "assoc":
            lines.append(pad + "associate (q => x)")
            lines += emit(s[1], ind + 2)
            lines.append(pad + "end associate")
        elif k == "block":
            lines.append(pad + "block")
            lines += emit(s[1], ind + 2)
            lines.append(pad + "end block")
        elif k == "ndo":
            lines.append(pad + f"{s[1]}: do {s[2]} = 1, n")
            lines += emit(s[3], ind + 2)
            lines.append(pad + f"end do {s[1]}")
        elif k == "select":
            lines.append(pad + "select case (int(x))")
            for n, body in enumerate(s[1]):
                lines.append(pad + (f"case ({n})" if n else "case (0, 3)"))
                lines += emit(body, ind + 2)
            if s[2] is not None:
                lines.append(pad + "case default")
                lines += emit(s[2], ind + 2)
            lines.append(pad + "end select")
        elif k == "if":
            _, cond, then, els, single = s
            if single:
                lines.append(pad + f"if ({cond}) " + emit(then, 0)[0].strip())
            else:
                lines.append(pad + f"if ({cond}) then")
                lines += emit(then, ind + 2)
                if els is not None:
                    lines.append(pad + "else")
                    lines += emit(els, ind + 2)
                lines.append(pad + "end if")
        elif k == "do":
            lines.append(pad + f"do {s[1]} = 1, n")
            lines += emit(s[2], ind + 2)
            lines.append(pad + "end do")
        elif k == "while":
            lines.append(pad + f"do while (c{s[1]} < {2 + s[1]})")
            lines += emit(s[2], ind + 2)
            lines.append(pad + "end do")
    return lines


def source_of(stmts, name="work", extra_decl=None):
    return "\n".join([f"subroutine {name}(a, b, n)", "  integer :: n, i, j, k, c1, c2", "  real :: a(n), b(n)",
                      "  real :: x"] + ([f"  real :: {extra_decl}"] if extra_decl else []) + ["  x = 0.0"]
                     + emit(stmts) + [f"end subroutine {name}", ""])


def clash_names(kind):
    p = PREFIXES[kind]
    return [f"{p}_psydatatype", f"{p}_psy_data_mod"]


def clash_of(src, kind):
    """the routine declares a symbol whose name is that of the PSyData type or module of this kind"""
    decl = " ".join(ln.split("::", 1)[1] for ln in src.lower().splitlines() if "::" in ln and "type(" not in ln)
    names = set(re.findall(r"[a-z_][a-z0-9_]*", decl))
    return any(n in names for n in clash_names(kind))


def gen_program(rng):
    """mostly programs with at least one loop and one control transfer"""
    for attempt in range(6):
        g = Gen(rng, rng.randint(5, 10))
        body = g.stmts(0, [], 0, [], top=True)
        f = g.features
        if attempt == 5 or (f & {"do", "while", "cb-ndo"} and f & {"exit", "cycle", "goto", "ret"}) \
                or rng.random() < 0.1:
            break
    extra = None
    if rng.random() < 0.12:
        extra = rng.choice(clash_names(rng.randrange(4)))
        g.features.add("clash")
    return source_of(body, extra_decl=extra), sorted(g.features)


# ------------------------------------------------------------------ real tree -> model S-expression
VAR_RE = re.compile(r"^(profile|extract|nan_test|read_only_verify)_psy_data(?:_(\d+))?$")


class Ids:
    """names -> Nat ids.  PSyData variables follow the scheme of the model (`C28.nextVar`):
    `<prefix>_psy_data` has id `kind`, `<prefix>_psy_data_n` has id `4*n + kind`; module/region/routine
    names are numbered first-come."""

    def __init__(self):
        self.vars, self.names = {}, {}

    def var(self, name):
        m = VAR_RE.match(name.lower())
        if not m:
            raise ValueError(f"C28 abstraction: unexpected PSyData variable name {name}")
        v = 4 * int(m.group(2) or 0) + PREFIXES.index(m.group(1))
        self.vars[name.lower()] = v
        return v

    def name(self, text):
        return self.names.setdefault(text, len(self.names))


CALL_RE = re.compile(r"CALL\s+(\w+)\s*%\s*(\w+)\s*(?:\((.*)\))?\s*$", re.I | re.S)


def abs_fp_list(nodes, ids, lowered_names, dostack=()):
    out = []
    for nd in nodes:
        out += abs_fp(nd, ids, lowered_names, dostack)
    return out


def exit_level(nd, dostack):
    """EXIT/CYCLE [name] -> number of DO constructs (of this CodeBlock) between the statement and the
    loop it belongs to"""
    if nd.items[1] is None:
        return 0
    name = nd.items[1].string.lower()
    inner_first = list(reversed(dostack))
    if name not in inner_first:
        raise ValueError(f"C28 abstraction: EXIT/CYCLE names '{name}', which is not a DO construct of its CodeBlock")
    return inner_first.index(name)


def abs_fp(nd, ids, lowered_names=None, dostack=()):
    """one fparser2 node of a CodeBlock -> model statements.  Block constructs kept as CodeBlocks are
    opened up: ASSOCIATE / BLOCK are statement lists of the enclosing list (their opening statement is
    a step), IF constructs and one-line IFs are `if`, SELECT CASE is a chain of `if`, DO constructs are
    `do`; every other statement is a CodeBlock step `b1`."""
    from fparser.two import Fortran2003 as F
    from fparser.two.utils import BlockBase
    out = []
    label = getattr(getattr(nd, "item", None), "label", None)
    if label:
        out.append(["label", int(label)])
    if isinstance(nd, F.Comment):
        return []
    if isinstance(nd, F.Exit_Stmt):
        out.append(["exit", exit_level(nd, dostack)])
    elif isinstance(nd, F.Cycle_Stmt):
        out.append(["cycle", exit_level(nd, dostack)])
    elif isinstance(nd, F.Return_Stmt):
        out.append("retcb")
    elif isinstance(nd, F.Goto_Stmt):
        out.append(["goto", int(str(nd.items[0]))])
    elif isinstance(nd, F.Continue_Stmt):
        if not label:
            out.append("b1")
    elif isinstance(nd, F.Call_Stmt) and CALL_RE.match(str(nd)) and "psy_data" in str(nd):
        m = CALL_RE.match(str(nd))
        var, meth, args = m.group(1), m.group(2).lower(), m.group(3) or ""
        if meth == "prestart":
            out.append(["start", ids.var(var.lower())])
            if lowered_names is not None:
                lowered_names.append(tuple(re.findall(r'"([^"]*)"', args)[:2]))
        elif meth == "postend":
            out.append(["stop", ids.var(var.lower())])
        # PreDeclareVariable, PreEndDeclaration, ProvideVariable, PreEnd, PostStart:
        # straight-line helper calls, not events
    elif isinstance(nd, F.If_Stmt):
        out.append(["if", ["b"] + abs_fp(nd.items[1], ids, lowered_names, dostack), ["b"]])
    elif isinstance(nd, F.If_Construct):
        out.append(abs_branches(nd.content[1:-1], (F.Else_If_Stmt, F.Else_Stmt), F.Else_Stmt, ids, lowered_names,
                                dostack))
    elif isinstance(nd, F.Case_Construct):
        body = nd.content[1:-1]
        if body and not isinstance(body[0], F.Case_Stmt):
            raise ValueError("C28 abstraction: unexpected SELECT CASE layout")
        out.append("b1")       # evaluation of the selector
        out += abs_cases(body, ids, lowered_names, dostack)
    elif isinstance(nd, (F.Block_Nonlabel_Do_Construct, F.Block_Label_Do_Construct)):
        out.append("b1")       # evaluation of the loop control
        item = nd.content[0].item
        name = (item.name if item is not None and item.name else "").lower()
        out.append(["do", 0, ["b"] + abs_fp_list(nd.content[1:-1], ids, lowered_names, tuple(dostack) + (name,))])
    elif type(nd).__name__ in ("Associate_Construct", "Block_Construct"):
        out.append("b1")       # ASSOCIATE evaluates its selectors
        out += abs_fp_list([c for c in nd.content[1:-1] if not isinstance(c, F.Specification_Part)],
                           ids, lowered_names, dostack)
    elif isinstance(nd, BlockBase):
        raise ValueError(f"C28 abstraction: unexpected block construct {type(nd).__name__} in a CodeBlock")
    else:
        out.append("b1")
    return out


def abs_branches(body, separators, else_type, ids, lowered_names, dostack=()):
    """IF construct body -> nested (if THEN ELSE)"""
    first, rest = [], None
    for k, c in enumerate(body):
        if isinstance(c, separators):
            rest = (c, body[k + 1:])
            break
        first.append(c)
    then = ["b"] + abs_fp_list(first, ids, lowered_names, dostack)
    if rest is None:
        return ["if", then, ["b"]]
    sep, tail = rest
    if isinstance(sep, else_type):
        return ["if", then, ["b"] + abs_fp_list(tail, ids, lowered_names, dostack)]
    return ["if", then, ["b", abs_branches(tail, separators, else_type, ids, lowered_names, dostack)]]


def abs_cases(body, ids, lowered_names, dostack=()):
    """CASE blocks -> list with a chain of `if` (CASE DEFAULT is the final else, wherever it is written)"""
    from fparser.two import Fortran2003 as F
    blocks, cur = [], None
    for c in body:
        if isinstance(c, F.Case_Stmt):
            cur = [c, []]
            blocks.append(cur)
        else:
            cur[1].append(c)
    default = [b for b in blocks if "DEFAULT" in str(b[0]).upper()]
    normal = [b for b in blocks if "DEFAULT" not in str(b[0]).upper()]
    tail = ["b"] + (abs_fp_list(default[0][1], ids, lowered_names, dostack) if default else [])
    if not normal:
        return tail[1:]
    chain = None
    for b in reversed(normal):
        then = ["b"] + abs_fp_list(b[1], ids, lowered_names, dostack)
        chain = ["if", then, tail if chain is None else ["b", chain]]
    return [chain]


def abs_codeblock(cb, ids, lowered_names=None):
    return abs_fp_list(cb.get_ast_nodes, ids, lowered_names)


def abs_node(node, ids, lowered_names=None):
    from psyclone.psyir.nodes import (Assignment, Call, CodeBlock, IfBlock, Loop, WhileLoop, Return,
                                      PSyDataNode, RegionDirective)
    if isinstance(node, PSyDataNode):
        return [["reg", ids.var(node.var_name.lower()), KINDS[type(node).__name__],
                 reg_name(node, ids), abs_sched(node.psy_data_body, ids, lowered_names)]]
    if isinstance(node, CodeBlock):
        return abs_codeblock(node, ids, lowered_names)
    if isinstance(node, IfBlock):
        return [["if", abs_sched(node.if_body, ids, lowered_names),
                 abs_sched(node.else_body, ids, lowered_names) if node.else_body is not None else ["b"]]]
    if isinstance(node, (Loop, WhileLoop)):
        return [["do", 1 if isinstance(node, Loop) else 0, abs_sched(node.loop_body, ids, lowered_names)]]
    if isinstance(node, RegionDirective):
        return [["dir", dir_num(node), abs_sched(node.dir_body, ids, lowered_names)]]
    if isinstance(node, Return):
        return ["ret"]
    if isinstance(node, (Assignment, Call)):
        return ["b0"]
    raise ValueError(f"C28 abstraction: unexpected node {type(node).__name__}")


def dir_num(node):
    from psyclone.psyir import nodes as N
    for cls, num in ((N.OMPParallelDoDirective, 2), (N.OMPParallelDirective, 0), (N.OMPDoDirective, 1),
                     (N.ACCParallelDirective, 3), (N.ACCLoopDirective, 4), (N.ACCKernelsDirective, 5)):
        if isinstance(node, cls):
            return num
    raise ValueError(f"C28 abstraction: unexpected directive {type(node).__name__}")


def make_dir(num, children):
    from psyclone.psyir import nodes as N
    cls = [N.OMPParallelDirective, N.OMPDoDirective, N.OMPParallelDoDirective, N.ACCParallelDirective,
           N.ACCLoopDirective, N.ACCKernelsDirective][num]
    if cls is N.OMPParallelDirective:
        return cls.create(children=children)      # adds the default/private clauses
    return cls(children=children)


def reg_name(node, ids):
    if node.module_name is None and node.region_name is None:
        return "-"
    return [ids.name(node.module_name), ids.name(node.region_name)]


def abs_nodes(nodes, ids, lowered_names=None):
    out = []
    for n in nodes:
        out += abs_node(n, ids, lowered_names)
    return out


def abs_sched(sched, ids, lowered_names=None):
    return ["b"] + abs_nodes(sched.children, ids, lowered_names)


def child_sched(node, sel):
    if sel == "if0":
        return node.if_body
    if sel == "if1":
        return node.else_body
    if sel == "do":
        return node.loop_body
    if sel == "reg":
        return node.psy_data_body
    if sel == "dir":
        return node.dir_body
    raise ValueError(sel)


def schedules(sched, path=()):
    """all (path, Schedule) below and including `sched`; a path is a tuple of (index, selector)"""
    from psyclone.psyir.nodes import IfBlock, Loop, WhileLoop, PSyDataNode, RegionDirective
    yield path, sched
    for i, node in enumerate(sched.children):
        sels = []
        if isinstance(node, IfBlock):
            sels = ["if0"] + (["if1"] if node.else_body is not None else [])
        elif isinstance(node, (Loop, WhileLoop)):
            sels = ["do"]
        elif isinstance(node, PSyDataNode):
            sels = ["reg"]
        elif isinstance(node, RegionDirective):
            sels = ["dir"]
        for sel in sels:
            yield from schedules(child_sched(node, sel), path + ((i, sel),))


def navigate(routine, path):
    sched = routine
    for i, sel in path:
        sched = child_sched(sched.children[i], sel)
    return sched


def frames_of(routine, path, ids):
    """the context of the Schedule at `path`, as the frame list of the driver protocol"""
    frames, sched = [], routine
    for i, sel in path:
        node = sched.children[i]
        if sel == "do":
            from psyclone.psyir.nodes import Loop
            how = ["do", 1 if isinstance(node, Loop) else 0]
        elif sel == "dir":
            how = ["dir", dir_num(node)]
        elif sel == "if0":
            how = ["if0", abs_sched(node.else_body, ids) if node.else_body is not None else ["b"]]
        elif sel == "if1":
            how = ["if1", abs_sched(node.if_body, ids)]
        else:
            how = ["reg", ids.var(node.var_name.lower()), KINDS[type(node).__name__], reg_name(node, ids)]
        frames.append([abs_nodes(sched.children[:i], ids), how, abs_nodes(sched.children[i + 1:], ids)])
        sched = child_sched(node, sel)
    return frames


# ------------------------------------------------------------------ gfortran oracle
CHECK_MOD = """
module c28_check_mod
  implicit none
  integer :: depth = 0, next_id = 0, nstart = 0
  integer :: stack(1000)
contains
  subroutine c28_start(id)
    integer, intent(inout) :: id
    if (id == 0) then
      next_id = next_id + 1
      id = next_id
    end if
    depth = depth + 1
    stack(depth) = id
    nstart = nstart + 1
  end subroutine c28_start
  subroutine c28_end(id)
    integer, intent(in) :: id
    if (depth < 1) then
      print *, "C28-MISMATCH PostEnd without PreStart"
      error stop 3
    end if
    if (stack(depth) /= id) then
      print *, "C28-MISMATCH PostEnd does not close the innermost open region"
      error stop 4
    end if
    depth = depth - 1
  end subroutine c28_end
  subroutine c28_final()
    if (depth /= 0) then
      print *, "C28-MISMATCH region left open: PreStart without PostEnd"
      error stop 5
    end if
  end subroutine c28_final
end module c28_check_mod
"""

STUB_MOD = """
module PFX_psy_data_mod
  use c28_check_mod
  implicit none
  type :: PFX_PSyDataType
    integer :: id = 0
  contains
    procedure :: PreStart, PreDeclareVariable, PreEndDeclaration, ProvideVariable, PreEnd, PostStart, PostEnd
  end type PFX_PSyDataType
contains
  subroutine PreStart(this, module_name, region_name, num_pre, num_post)
    class(PFX_PSyDataType), intent(inout), target :: this
    character(*), intent(in) :: module_name, region_name
    integer, intent(in) :: num_pre, num_post
    call c28_start(this%id)
  end subroutine PreStart
  subroutine PreDeclareVariable(this, name, value)
    class(PFX_PSyDataType), intent(inout), target :: this
    character(*), intent(in) :: name
    type(*), dimension(..), intent(in) :: value
  end subroutine PreDeclareVariable
  subroutine PreEndDeclaration(this)
    class(PFX_PSyDataType), intent(inout), target :: this
  end subroutine PreEndDeclaration
  subroutine ProvideVariable(this, name, value)
    class(PFX_PSyDataType), intent(inout), target :: this
    character(*), intent(in) :: name
    type(*), dimension(..), intent(in) :: value
  end subroutine ProvideVariable
  subroutine PreEnd(this)
    class(PFX_PSyDataType), intent(inout), target :: this
  end subroutine PreEnd
  subroutine PostStart(this)
    class(PFX_PSyDataType), intent(inout), target :: this
  end subroutine PostStart
  subroutine PostEnd(this)
    class(PFX_PSyDataType), intent(inout), target :: this
    call c28_end(this%id)
  end subroutine PostEnd
end module PFX_psy_data_mod
"""

MAIN = """
program c28_main
  use c28_check_mod
  implicit none
  integer, parameter :: n = 4
  real :: a(n), b(n)
  integer :: t, q
  do t = 1, 16
    do q = 1, n
      a(q) = real(mod(t * 7 + q * 3 + t * q, 10)) / 10.0
      b(q) = real(mod(t * 3 + q * 5 + t / 2, 10)) / 10.0
    end do
    call work(a, b, n)
    call c28_final()
  end do
  print *, "C28-OK", nstart
end program c28_main
"""


def stub_library():
    return CHECK_MOD + "".join(STUB_MOD.replace("PFX", p) for p in PREFIXES)


class Gfortran:
    """compiles the stub library once, then instrumented routines against it"""

    def __init__(self):
        self.dir = tempfile.mkdtemp(prefix="c28-")
        with open(os.path.join(self.dir, "stub.f90"), "w") as f:
            f.write(stub_library())
        p = subprocess.run(["gfortran", "-c", "stub.f90"], cwd=self.dir, capture_output=True, text=True)
        if p.returncode != 0:
            self.close()
            raise RuntimeError("gfortran cannot compile the PSyData stub library:\n" + p.stderr[-1500:])

    def run(self, routine_source):
        """returns ("ok", nstart) | ("mismatch", message) | ("skip", why)"""
        with open(os.path.join(self.dir, "case.f90"), "w") as f:
            f.write(routine_source + MAIN)
        p = subprocess.run(["gfortran", "-o", "case", "case.f90", "stub.o"], cwd=self.dir,
                           capture_output=True, text=True)
        if p.returncode != 0:
            return ("skip", "does not compile: " + p.stderr.strip()[-300:])
        try:
            p = subprocess.run(["./case"], cwd=self.dir, capture_output=True, text=True, timeout=20)
        except subprocess.TimeoutExpired:
            return ("skip", "timeout")
        m = re.search(r"C28-MISMATCH ([^\n]*)", p.stdout + p.stderr)
        if m:
            return ("mismatch", m.group(1).strip())
        m = re.search(r"C28-OK\s+(\d+)", p.stdout)
        if p.returncode == 0 and m:
            return ("ok", int(m.group(1)))
        return ("skip", f"exit {p.returncode}: {(p.stdout + p.stderr)[-200:]}")

    def close(self):
        shutil.rmtree(self.dir, ignore_errors=True)
