"""C26 — program corpus of the differential sweep: hand-written generic Fortran modules that offer a
target to (nearly) every PSyIR transformation, seeded MiniF programs from harness/minif.py, an
algorithm-layer program, and LFRic / GOcean invokes from PSyclone's own test files."""
import os

GENERIC = {}

# loops, nests, array ranges, intrinsics, a call that can be inlined, automatic arrays
GENERIC["mix"] = """
module mix_mod
  implicit none
  integer, parameter :: n = 10
  real :: glob(10)
contains
  subroutine work(a, b, c, m, x, y)
    real, intent(inout) :: a(10), b(10), c(10, 10), m(10, 10), x(10), y(10)
    real :: tmp(n), s, t
    real :: loc2(n, n)
    integer :: i, j, k, ii
    s = 0.0
    do j = 1, n
      do i = 1, n
        c(i, j) = m(i, j) + a(i) * b(j)
      end do
    end do
    do i = 1, n
      a(i) = b(i) + 1.0
    end do
    do i = 1, n
      b(i) = a(i) * 2.0
    end do
    do k = 2, n - 1
      t = s + 1.0
      x(k) = x(k + 1) + t
    end do
    a(:) = b(:) + x(:)
    c(:, :) = m(:, :) * 2.0
    a(2:9) = a(1:8)
    tmp = a
    y = matmul(c, x)
    s = sum(a) + maxval(b) - minval(x) * product(y)
    t = abs(s) + sign(s, t) + min(s, t, 1.0) + max(s, 2.0) + dot_product(a, b)
    call helper(a, s)
    call helper(loc2(:, 1), t)
    glob(1) = s + t
    if (s > 0.0) then
      b(1) = 0.0
    else
      b(2) = 1.0
    end if
    ii = 0
    do i = 1, n
      ii = ii + 2
      tmp(i) = real(ii)
      loc2(i, 1) = tmp(i)
    end do
    x(1) = tmp(1) + loc2(1, 1)
  end subroutine work

  subroutine helper(v, r)
    real, intent(inout) :: v(10)
    real, intent(inout) :: r
    integer :: i, idx
    real :: acc
    acc = 0.0
    do i = 1, 10
      idx = i
      acc = acc + v(idx)
    end do
    r = r + acc
  end subroutine helper
end module mix_mod
"""

# symbol clashes for InlineTrans, early return, structure types, saved/static data
GENERIC["inline"] = """
module inl_mod
  use other_mod, only: ext_sub, ext_var
  implicit none
  type :: pt
    real :: v(5)
    integer :: k
  end type pt
  integer :: counter = 0
contains
  subroutine top(a, n, p)
    integer, intent(in) :: n
    real, intent(inout) :: a(n)
    type(pt), intent(inout) :: p
    integer :: i, idx
    real :: acc, r
    acc = 1.0
    idx = 3
    do i = 1, n
      call scale(a, n, i)
    end do
    call early(a(1), r)
    call stat(r)
    call ptsub(p)
    call ptsub2(p%v, p%k)
    call ext_sub(a)
    call scale(a(2:n), n - 1, idx)
    a(1) = func(a(2)) + acc
    call unknown(a, n)
  end subroutine top

  subroutine scale(x, m, j)
    integer, intent(in) :: m, j
    real, intent(inout) :: x(m)
    integer :: idx
    real :: acc
    idx = j
    acc = 2.0
    x(idx) = x(idx) * acc
  end subroutine scale

  subroutine early(v, r)
    real, intent(in) :: v
    real, intent(out) :: r
    r = 0.0
    if (v < 0.0) then
      return
    end if
    r = v
  end subroutine early

  subroutine stat(r)
    real, intent(inout) :: r
    real, save :: keep = 0.0
    keep = keep + r
    counter = counter + 1
    r = keep
  end subroutine stat

  subroutine ptsub(q)
    type(pt), intent(inout) :: q
    integer :: i
    do i = 1, 5
      q%v(i) = q%v(i) + real(q%k)
    end do
  end subroutine ptsub

  subroutine ptsub2(w, kk)
    real, intent(inout) :: w(5)
    integer, intent(in) :: kk
    w(kk) = 0.0
    ext_var = ext_var + 1
  end subroutine ptsub2

  real function func(z)
    real, intent(in) :: z
    func = z * z
  end function func
end module inl_mod
"""

# nests for tiling/chunking/swap/collapse with awkward bounds, directives already present
GENERIC["nests"] = """
subroutine nests(a, b, c, n, m)
  integer, intent(in) :: n, m
  real, intent(inout) :: a(n, m), b(n, m), c(n)
  integer :: i, j, k, l
  real :: t
  do j = 1, m
    do i = 1, n
      a(i, j) = b(i, j) + 1.0
    end do
  end do
  do j = 1, m, 2
    do i = 1, n
      a(i, j) = 0.0
    end do
  end do
  do j = 1, m
    do i = j, n
      b(i, j) = a(i, j)
    end do
  end do
  do j = 1, m
    t = real(j)
    do i = 1, n
      a(i, j) = t
    end do
  end do
  do i = 1, n
    do j = 1, m
      do k = 1, 3
        a(i, j) = a(i, j) + real(k)
      end do
    end do
  end do
  do i = 1, n
    c(i) = 0.0
  end do
  do i = 1, n
    c(i) = c(i) + a(i, 1)
  end do
  do l = 1, n
    c(l) = c(l) * 2.0
  end do
  do i = n, 1, -1
    c(i) = c(i) + 1.0
  end do
  do i = 1, n
    write(*, *) c(i)
  end do
  do while (t > 0.0)
    t = t - 1.0
  end do
end subroutine nests
"""

# array notation and intrinsic reductions in many shapes
GENERIC["arrays"] = """
subroutine arrays(a, b, c, d, n, msk, s3)
  integer, intent(in) :: n
  real, intent(inout) :: a(n), b(n), c(n, n), d(n, n)
  logical, intent(in) :: msk(n)
  real, intent(inout) :: s3(4, 4, 4)
  real :: s, e(10), f(10, 10), r1(10)
  integer :: i, idx(5)
  character(len=4) :: str
  a = b
  a(:) = 0.0
  a(1:n) = b(1:n) * 2.0
  a(1:n:2) = b(1:n:2)
  c(:, 1) = a(:)
  c(:, :) = d(:, :) + c(:, :)
  c(1, :) = d(:, 1)
  a(idx) = 1.0
  a(:) = b(idx(1):idx(2))
  e(:) = f(:, 2) + r1(:)
  e = matmul(f, r1)
  f = matmul(f, f)
  e = matmul(transpose(f), r1)
  s = sum(a)
  s = sum(c, dim=1)
  s = sum(a, mask=msk)
  s = maxval(c(:, 1)) + minval(e)
  s = sum(s3(:, :, 1))
  s = product(e) * 2.0 + sum(f)
  a(:) = sum(c(:, :))
  s = dot_product(e, r1)
  s = dot_product(a(1:n), b(1:n))
  s = abs(s - 1.0) + abs(a(1))
  s = sign(s, a(2))
  s = min(s, a(1), b(2))
  s = max(1.0, s)
  i = max(1, i)
  str = "abcd"
  where (a > 0.0) b = a
  e(:) = e(:) + s
  b(:) = a(size(a):1:-1)
  d(:, :) = c(:, :) + a(:)
  e(2:5) = e(1:4) + f(2:5, 1)
end subroutine arrays
"""

# automatic/local arrays, loop-bound expressions, induction variables, conditional returns
GENERIC["hoist"] = """
module hoist_mod
  implicit none
contains
  subroutine hoist(a, n, m, flag)
    integer, intent(in) :: n, m
    logical, intent(in) :: flag
    real, intent(inout) :: a(n)
    real :: w1(n), w2(n, m), w3(10), w4(2:n)
    real, allocatable :: w5(:)
    integer :: i, j, iv, jv
    real :: t, u
    if (flag) then
      return
    end if
    if (n < 0) return
    w3(:) = 0.0
    iv = 0
    do i = 1, ubound(a, 1) - 1
      t = real(n) * 2.0
      u = t + 1.0
      iv = i + 1
      jv = iv * 2
      w1(i) = a(iv) + t + u
      a(i) = w1(i) + real(jv)
    end do
    do j = lbound(a, 1), min(n, m)
      t = a(j)
      w4(j + 1) = t
      w2(j, 1) = w4(j + 1)
    end do
    do i = 1, n
      t = t + 1.0
      a(i) = t
    end do
    do i = 1, n
      u = a(i)
      do j = 1, m
        t = u
        w2(i, j) = t
      end do
    end do
    allocate(w5(n))
    w5(:) = w2(:, 1)
    a(1) = w5(1)
    deallocate(w5)
  end subroutine hoist
end module hoist_mod
"""

# tangent-linear style code for the psyad AssignmentTrans
GENERIC["tl"] = """
subroutine tl(a, b, c, x, n)
  integer, intent(in) :: n
  real, intent(inout) :: a, b, c, x(n)
  real :: k
  integer :: i
  a = b + c
  a = k * b
  a = a + x(1) * k
  a = b * c
  a = 0.0
  b = b / k + 3.0 * c
  a = b + 1.0
  x(1) = x(2) - x(3)
  do i = 1, n
    x(i) = x(i) * k + a
  end do
end subroutine tl
"""

# an algorithm-layer program (invoke calls) for the algorithm transformations
ALG_LFRIC = """
module alg_mod
  use field_mod, only: field_type
  use testkern_mod, only: testkern_type
  implicit none
contains
  subroutine alg(f1, f2, m1, m2, a)
    use constants_mod, only: r_def
    type(field_type), intent(inout) :: f1, f2, m1, m2
    real(r_def), intent(in) :: a
    integer :: i
    i = 1
    call invoke(testkern_type(a, f1, f2, m1, m2), setval_c(f1, 0.0_r_def), name="first")
    call invoke(testkern_type(a, f1, f2, m1, m2))
    call other(f1)
  end subroutine alg
end module alg_mod
"""

ALG_GOCEAN = """
program alg
  use kind_params_mod
  use grid_mod
  use field_mod
  use compute_cu_mod, only: compute_cu
  use compute_cv_mod, only: compute_cv
  implicit none
  type(r2d_field) :: cu_fld, p_fld, u_fld, cv_fld, v_fld
  integer :: ncycle
  do ncycle = 1, 10
    call invoke(compute_cu(cu_fld, p_fld, u_fld), compute_cv(cv_fld, p_fld, v_fld))
  end do
  call invoke(compute_cu(cu_fld, p_fld, u_fld), name="second")
end program alg
"""

# (api, file below src/psyclone/tests/test_files, distributed_memory)
INVOKES = [
    ("lfric", "dynamo0p3/1_single_invoke.f90", False),
    ("lfric", "dynamo0p3/4_multikernel_invokes.f90", True),
    ("lfric", "dynamo0p3/15.14.4_builtin_and_normal_kernel_invoke.f90", False),
    ("lfric", "dynamo0p3/1.2_multi_invoke.f90", True),
    ("lfric", "dynamo0p3/4.6_multikernel_invokes.f90", False),
    ("lfric", "dynamo0p3/15.9.2_X_innerproduct_X_builtin.f90", True),
    ("lfric", "dynamo0p3/14.4_halo_vector.f90", True),
    ("gocean1.0", "gocean1p0/single_invoke.f90", False),
    ("gocean1.0", "gocean1p0/single_invoke_three_kernels.f90", False),
    ("gocean1.0", "gocean1p0/single_invoke_two_kernels.f90", True),
    ("gocean1.0", "gocean1p0/single_invoke_kern_with_global.f90", False),
    ("gocean1.0", "gocean1p0/test11_different_iterates_over_one_invoke.f90", False),
]


def test_file(repo, rel):
    return os.path.join(repo, "src", "psyclone", "tests", "test_files", rel)


def minif_source(rng, nstmts=5):
    """A seeded MiniF program (harness/minif.py generator) as Fortran text."""
    import minif
    return minif.gen_program(rng, nstmts=nstmts).source(name="gen")
