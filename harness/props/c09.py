"""C09 — OpenMP-parallelised loops compute the serial result on any schedule.

Tie: for generated loops the REAL OMPParallelLoopTrans / OMPLoopTrans+OMPParallelTrans are applied; the private /
firstprivate lists parsed from the lowered directive must equal the Lean model's `C09.inferSharing` (refused loops
are additionally transformed with force=True only to compare the clause lists; need_sync <-> GenerationError).
Property on the real code, for every loop accepted WITHOUT force:
 (i)  the Lean model `C09.execOMP` is run with the REAL clause lists over every iteration permutation and every
      partition of the iterations into threads (trip count <= 4; a fixed family above) and compared with serial `exec`;
 (ii) the real OpenMP output (schedule(runtime), requested through the transformations' public omp_schedule option)
      is compiled with gfortran -fopenmp and run under OMP_NUM_THREADS in {1,2,3,8} x OMP_SCHEDULE in
      {static, "dynamic,1", guided}, several repetitions; every shared variable is compared with the serial run.
Static side: on the pair fragment (every array subscript a literal or loopvar+-c) the real accept/refuse verdict of
ParallelLoopTrans.validate (no force) must equal `C09.validateModel` = scalar rule + the pair loop over ALL ordered pairs
(write, other access of the same array) of `_array_access_parallelisable` (theorems C09_pair_loop_complete,
C09_pairs_indep, C09_validate_pairs_indep).  A systematic statement-order family (`order_family`) puts the other access
of every pair before/after the write, behind a scalar temporary, in an if-branch, in the other branch of the same IfBlock,
in an inner loop, and next to a second write of the same array, in EVERY order of the statements.
A difference is a failing input; it is a known finding only if the clause lists agree with the model and the model
attributes it to a listed class (hypothesis of C09_partial violated in the listed way)."""
import glob
import json
import os
from concurrent.futures import ThreadPoolExecutor

import common
import minif
from common import driver, sx, parse_sx
from props import c09_real as R

CLASS_EXPOSED = "privatised-scalar-read-before-written"
CLASS_SHARED_SCALAR = "shared-scalar-written-by-several-iterations"
CLASS_C08_SUBSCRIPT = "c08-integer-division-or-mod-subscript"


def ids(names_):
    return [R.ALLVARS.index(n) for n in names_]


def omp_line(loop_sexp, priv, fpriv, case):
    q, _ = case.queries()
    return sx(["omp", loop_sexp, ids(priv), ids(fpriv), [[list(l), v] for l, v in case.bindings()], [list(x) for x in q]])


def parse_model(line):
    if not line.startswith("("):
        raise common.Infra("C09 driver: " + line)
    p = parse_sx(line)
    nm = lambda xs: sorted(R.ALLVARS[i] for i in xs)
    out = {"private": nm(p[0]), "firstprivate": nm(p[1]), "sync": nm(p[2])}
    if len(p) == 5:         # refused loop: clause sets + the static model of validate
        out.update(frag=bool(p[3]), valid=bool(p[4]))
    if len(p) > 5:
        out.update(frag=bool(p[12]), valid=bool(p[13]), pairs=bool(p[14]))
        out.update(trips=p[3], indep=bool(p[4]), uncond=bool(p[5]),
                   conflict=(R.ALLVARS[p[6]] if p[6] >= 0 else None), exposed=(R.ALLVARS[p[7]] if p[7] >= 0 else None),
                   serial=p[8], verdict=p[9], static_indep=bool(p[10]), static_uncond=bool(p[11]))
    return out


def shared_mask(case, private_vars):
    """indices of the printed values that belong to shared variables"""
    _, span = case.queries()
    keep = []
    for v, (a, b) in span.items():
        if v not in private_vars:
            keep += list(range(a, b))
    return sorted(keep)


THREADS_THOROUGH = ["1", "2", "3", "4", "5", "8"]
SCHEDS_THOROUGH = ["static", "static,1", "static,2", "dynamic,1", "dynamic,2", "guided", "guided,2"]


def gfortran_compare(case, real, reps, wide=False):
    """-> dict(status, diffs=[{env, observed-or-error}], runs, serial)"""
    st, ser = R.serial_run(case.source())
    if st == "compile-error":
        raise common.Infra("serial program does not compile:\n" + str(ser)[-800:])
    if st != "ok" or ser is None:
        return {"status": "skip-serial-" + st, "diffs": [], "runs": 0, "serial": None}
    privs = set(real["private"]) | set(real["firstprivate"]) | set(R.LOOPVARS)
    keep = shared_mask(case, privs)
    want = [ser[i] for i in keep]
    diffs, runs = [], 0
    runs_iter = (R.omp_runs(real["text"], reps, THREADS_THOROUGH, SCHEDS_THOROUGH) if wide
                 else R.omp_runs(real["text"], reps))
    for env, st2, vals in runs_iter:
        if st2 == "compile-error":
            return {"status": "omp-compile-error", "diffs": [{"env": None, "error": str(vals)[-600:]}], "runs": 0, "serial": ser}
        runs += 1
        if st2 != "ok" or vals is None or len(vals) != len(ser):
            diffs.append({"env": env, "error": st2})
        else:
            got = [vals[i] for i in keep]
            if got != want:
                bad = [k for k in range(len(keep)) if got[k] != want[k]][:6]
                diffs.append({"env": env, "where": [keep[k] for k in bad], "observed": [got[k] for k in bad],
                              "expected": [want[k] for k in bad]})
        if len(diffs) >= 4:
            break
    return {"status": "ok", "diffs": diffs, "runs": runs, "serial": ser}


def classify(case, real, model, clauses_agree, findings):
    """class name of a failing input, or None if it is not covered by a listed finding"""
    if not clauses_agree:
        return None
    listed = {f.get("class") for f in findings}
    if not model["uncond"] and CLASS_EXPOSED in listed:
        return CLASS_EXPOSED
    if not model["indep"]:
        v = model["conflict"]
        if v in R.SCALARS and CLASS_SHARED_SCALAR in listed:
            return CLASS_SHARED_SCALAR
        body = " ".join(case.body)
        if v in R.ARRAYS1 + R.ARRAYS2 and ("/" in body.replace("/=", "") or "mod(" in body) and CLASS_C08_SUBSCRIPT in listed:
            return CLASS_C08_SUBSCRIPT
    return None


class Runner:
    def __init__(self, reps, wide=False):
        self.reps = reps
        self.wide = wide        # thorough tier: more thread counts x schedule kinds/chunks per accepted loop

    def real_part(self, case, mode, user_opts=None):
        src = case.source()
        real = R.transform(src, mode, user_opts=user_opts)
        forced = None
        if real["status"] == "refused" and not case.tag.startswith("family:"):   # family: verdict + behaviour only
            forced = R.transform(src, mode, force=True)
        return real, forced

    def analyse(self, cases_modes, gfortran=True, user_opts=None):
        """-> list of result dicts.  `user_opts`: ONE dict object handed to every transformation of the batch,
        in order (script-like history); None = no options argument."""
        pre = [self.real_part(c, m, user_opts) for c, m in cases_modes]
        lines = []
        for (case, mode), (real, forced) in zip(cases_modes, pre):
            if real["status"] == "accepted":
                lines.append(omp_line(real["loop_sexp"], real["private"], real["firstprivate"], case))
            else:
                lines.append(sx(["sharing", real["loop_sexp"]]))
        outs = driver("C09", lines)
        models = [parse_model(o) for o in outs]

        def gf(k):
            (case, mode), (real, _) = cases_modes[k], pre[k]
            if real["status"] == "accepted" and gfortran:
                # the systematic family is decided exhaustively by the model; one gfortran run per configuration
                fam = case.tag.startswith("family:")
                return gfortran_compare(case, real, 1 if fam and self.reps <= 2 else (2 if fam and self.wide else self.reps),
                                        wide=self.wide and not fam)
            return None
        with ThreadPoolExecutor(max_workers=8) as ex:
            gfs = list(ex.map(gf, range(len(cases_modes))))
        res = []
        for (case, mode), (real, forced), model, g in zip(cases_modes, pre, models, gfs):
            res.append({"case": case, "mode": mode, "real": real, "forced": forced, "model": model, "gf": g})
        return res


def clause_agreement(real, forced, model):
    """-> (agree, description of the real side)"""
    r = real if real["status"] != "refused" else forced
    if r is None:
        return True, {"refused": real["message"][:100]}
    if r["status"] == "accepted":
        impl = {"private": r["private"], "firstprivate": r["firstprivate"], "sync": []}
    elif r["status"] == "generation-error":
        impl = {"generation-error": r["message"][:120]}
        if "synchronisation" not in r["message"]:
            # some other lowering failure (e.g. NotImplementedError `b(b(i)) = ...` wrapped by the writer):
            # no clause lists to compare
            return True, impl
        return len(model["sync"]) > 0, impl
    else:
        return True, {"refused-even-with-force": r["message"][:100]}
    mod = {"private": model["private"], "firstprivate": model["firstprivate"], "sync": model["sync"]}
    return impl == mod, impl


def failing(res):
    """-> (is_failing, evidence dict) for an accepted loop"""
    model, g = res["model"], res["gf"]
    ev = {}
    if model["verdict"][0] != "ok":
        ev["model_with_real_clauses"] = model["verdict"]
    if g and g["diffs"]:
        ev["gfortran"] = g["diffs"][:3]
    return bool(ev), ev


def payload_of(res, ev, why):
    real = res["real"]
    return {"kind": "failing-input", "why": why, "history": res.get("history"),
            "options_passed": real.get("opts_before"), "options_after": real.get("opts_after"), "case": res["case"].to_json(), "mode": res["mode"],
            "loop": [res["case"].header] + res["case"].body + ["enddo"],
            "directive": real.get("directive"), "observed": ev,
            "expected": "every shared variable equals the serial result under every schedule",
            "model": {k: res["model"].get(k) for k in ("private", "firstprivate", "indep", "uncond", "conflict", "exposed", "trips")}}


def process(chk, res, findings, stats):
    case, mode, real, forced, model = res["case"], res["mode"], res["real"], res["forced"], res["model"]
    agree, impl = clause_agreement(real, forced, model)
    stats["status"][real["status"]] = stats["status"].get(real["status"], 0) + 1
    stats["tags"][case.tag] = stats["tags"].get(case.tag, 0) + 1
    cdesc = {"loop": [case.header] + case.body, "mode": mode, "status": real["status"], "clauses": impl}
    if res.get("history"):
        cdesc["options"] = real.get("opts_before")
        stats["history_cases"] += 1
    if real.get("opts_mutated"):
        agree = False
        chk.correspondence_broken("the caller's options dict was modified by the OpenMP transformation", cdesc,
                                  real["opts_before"], real["opts_after"])
    nontrivial = real["status"] == "accepted" and (model.get("trips", 0) >= 2)
    ok = agree
    if not agree:
        chk.correspondence_broken("data-sharing clauses differ from C09.inferSharing", cdesc,
                                  {k: model[k] for k in ("private", "firstprivate", "sync")}, impl)
    # tie of the static side: on the pair fragment (every array subscript a literal or loopvar+-c) the REAL verdict of
    # ParallelLoopTrans.validate (no force) must equal C09.validateModel = scalar rule + pair loop over ALL ordered pairs
    if model.get("frag") and not real.get("opts_mutated") and not (real.get("opts_before") or {}).get("force"):
        real_valid = real["status"] in ("accepted", "generation-error")
        stats["validate_tie"][f"real={int(real_valid)},model={int(model['valid'])}"] = \
            stats["validate_tie"].get(f"real={int(real_valid)},model={int(model['valid'])}", 0) + 1
        if real_valid != model["valid"]:
            ok = False
            chk.correspondence_broken("ParallelLoopTrans.validate verdict differs from C09.validateModel (pair loop) on the pair fragment",
                                      cdesc, {"validateModel": model["valid"]},
                                      {"status": real["status"], "message": real["message"][:300]})
    if real["status"] != "accepted":
        chk.case(cdesc, nontrivial=False, agreed=ok)
        return
    g = res["gf"]
    if g and g["status"] == "ok" and g["serial"] is not None and not minif.overflowed(model["serial"]):
        if g["serial"] != model["serial"]:
            ok = False
            chk.correspondence_broken("MiniF serial semantics differs from gfortran on the exported loop", cdesc,
                                      "model serial values", "gfortran serial values")
    if g:
        stats["gf_runs"] += g["runs"]
        if g["status"] != "ok":
            stats["gf_skipped"] += 1
    stats["trips"][str(model["trips"])] = stats["trips"].get(str(model["trips"]), 0) + 1
    stats["hyp"][f"indep={int(model['indep'])},uncond={int(model['uncond'])}"] = \
        stats["hyp"].get(f"indep={int(model['indep'])},uncond={int(model['uncond'])}", 0) + 1
    if model["verdict"][0] == "ok":
        stats["schedules"] += model["verdict"][1]
    skey = f"static_indep={int(model['static_indep'])},static_uncond={int(model['static_uncond'])}"
    stats["static"][skey] = stats["static"].get(skey, 0) + 1
    # consistency of the driver with C09_static_indep / C09_static_uncond: static check => dynamic hypothesis
    if (model["static_indep"] and not model["indep"]) or (model["static_uncond"] and not model["uncond"]):
        ok = False
        chk.correspondence_broken("driver contradicts C09_static_indep / C09_static_uncond", cdesc,
                                  {k: model[k] for k in ("static_indep", "static_uncond", "indep", "uncond")}, "")
    if model.get("pairs") and not model["indep"]:
        ok = False
        chk.correspondence_broken("driver contradicts theorem C09_pairs_indep", cdesc,
                                  {k: model[k] for k in ("pairs", "indep")}, "")
    stats["pairs"][f"pairs={int(model.get('pairs', False))},frag={int(model.get('frag', False))}"] = \
        stats["pairs"].get(f"pairs={int(model.get('pairs', False))},frag={int(model.get('frag', False))}", 0) + 1
    bad, ev = failing(res)
    # consistency of the driver with C09_partial: hypotheses hold => the model must agree with serial
    if model["indep"] and model["uncond"] and model["verdict"][0] != "ok":
        ok = False
        chk.correspondence_broken("driver contradicts theorem C09_partial", cdesc, model["verdict"], "hypotheses hold")
    if bad:
        cls = classify(case, real, model, agree, findings)
        if cls is None:
            why = ("clause lists differ from the model" if not agree else
                   "no listed class: indep=%s uncond=%s conflict=%s" % (model["indep"], model["uncond"], model["conflict"]))
            chk.violation(payload_of(res, ev, why))
            stats["violations"] += 1
        else:
            stats["known_class"][cls] = stats["known_class"].get(cls, 0) + 1
            if "gfortran" in ev:
                stats["known_class_gfortran"][cls] = stats["known_class_gfortran"].get(cls, 0) + 1
    chk.case(cdesc, nontrivial=nontrivial, agreed=ok)


HISTORY_LOOPS = [        # (header, body, tag): carried dependences that MUST be refused, and independent controls
    ("do i = 1, 4", ["c(i) = mod(c(i-1) + b(i), 1003)"], "hist:recurrence"),
    ("do i = 1, 4", ["c(i) = b(i) + a(i)"], "hist:independent"),
    ("do i = 2, 5", ["do j = 1, 3", "  m(j+1, i) = m(j, i-1) + b(j)", "enddo"], "hist:wavefront"),
    ("do i = 1, 4", ["s = s + a(i)"], "hist:reduction"),
    ("do i = 1, 4", ["t = b(i) + 1", "c(i) = t * 2"], "hist:temp"),
    ("do i = 4, 1, -1", ["a(i) = a(i+1) + 1"], "hist:anti-dependence"),
]


def make_history(rng, gen, nrandom):
    """opts0, prelude step names, and the loops the same dict is then applied to"""
    opts0 = dict(rng.choice(R.OPTS0))
    k = rng.randint(1, 3)
    prelude = [rng.choice(R.PRELUDE_STEPS) for _ in range(k)]
    base = gen.case()
    loops = [R.Case(h, b, base.scal, base.arr1, base.mk, tag) for h, b, tag in rng.sample(HISTORY_LOOPS, 4)]
    loops += [gen.case() for _ in range(nrandom)]
    rng.shuffle(loops)
    return {"opts0": opts0, "prelude": prelude,
            "cases": [(c, rng.choice(["paralleldo", "do+parallel"])) for c in loops]}


def run_history(chk, runner, hist, findings, stats, earlier_prefix=()):
    """prelude with ONE shared dict, then every loop of the history with the same dict object"""
    opts = dict(hist["opts0"])
    log = R.run_prelude(hist["prelude"], opts)
    stats["histories"].append({"opts0": hist["opts0"], "prelude": [(e["step"], e["outcome"]) for e in log]})
    for e in log:
        if e["mutated"]:
            stats["options_mutations"] += 1
            chk.correspondence_broken("the caller's options dict was modified by a transformation",
                                      {"step": e["step"], "outcome": e["outcome"], "opts0": hist["opts0"],
                                       "prelude": hist["prelude"]}, e["before"], e["after"])
    results = runner.analyse(hist["cases"], user_opts=opts)
    for k, res in enumerate(results):
        res["history"] = {"opts0": hist["opts0"], "prelude": hist["prelude"],
                          "earlier": [{"case": c.to_json(), "mode": m} for c, m in hist["cases"][:k]],
                          "note": "the user never set force=True; the same dict object is passed to every call"}
        process(chk, res, findings, stats)


def corpus_histories():
    out = []
    for p in sorted(glob.glob(os.path.join(common.ROOT, "corpus", "C09", "history-*.json"))):
        d = json.load(open(p))
        out.append({"opts0": d["opts0"], "prelude": d["prelude"],
                    "cases": [(R.Case.from_json(x["case"]), x.get("mode", "paralleldo")) for x in d["cases"]]})
    return out


def corpus_cases():
    out = []
    for p in sorted(glob.glob(os.path.join(common.ROOT, "corpus", "C09", "*.json"))):
        if os.path.basename(p).startswith("history-"):
            continue
        d = json.load(open(p))
        out.append((R.Case.from_json(d["case"]), d.get("mode", "paralleldo")))
    return out


def run(chk):
    thorough = chk.tier == "thorough"
    chk.cov["rule"] = ("first the statement-order family (rank-1 bodies of 1-3 statements, every permutation: the other access of a "
                       "(write, other) pair direct / via a scalar temporary / in an if-branch / in the other branch of the same if / "
                       "in an inner loop / next to a second write, distance 0,+-1 (thorough +-2) in the parallel variable), "
                       "then a systematic family of 2-deep nests over a rank-2 array with the OUTER loop parallelised "
                       "(write/read and write/write pairs at distance 0,+-1,+-2 in the parallel variable x offsets 0,+-1 "
                       "in the inner variable x both index orders), then the corpus, then generated Fortran loops (45% targeted shapes: unconditional/conditional/guarded temporaries, "
                       "if/else temporaries, reductions, read-then-write, written-once scalars, nested and zero-trip "
                       "inner loops, inner loop variables used outside, shifted//2/MOD subscripts; 55% random bodies), "
                       "each through OMPParallelLoopTrans or OMPLoopTrans+OMPParallelTrans with schedule(runtime); "
                       "non-trivial = accepted without force and at least 2 iterations; distinct by loop text+mode+clauses")
    chk.assumptions += [
        "OpenMP execution model = C09.execOMP / C09.execOMPfine (sequentially consistent; threads interleave at the "
        "granularity of the top-level statements of the body — theorem C09_race_free_iteration_atomic shows this gives the "
        "same shared result as whole-iteration schedules, so iteration granularity is no longer assumed); weak-memory effects "
        "and real thread timing are NOT exhibited by the model, only sampled by the gfortran runs",
        "for accepted loops passing the static checks (staticIndepB, staticUncondB) the hypotheses of the theorem hold for "
        "every store (C09_static); the driver reports both and the harness cross-checks static => per-input",
        "Fortran DO variables inside a parallel construct are private (OpenMP rule) whether or not listed",
        "schedule(runtime) is requested through the omp_schedule option so that OMP_SCHEDULE selects the schedule",
        "IterIndep is a hypothesis of C09_partial; on the pair fragment it FOLLOWS from the model of validate "
        "(C09_validate_pairs_indep: pair loop over all ordered pairs + privatised scalars) and that model is compared with the "
        "real accept/refuse verdict on every in-fragment case; outside the fragment (2*i, i/2, mod, b(i) subscripts, symbolic "
        "coefficients — C08's domain) the check evaluates IterIndep per input with the driver",
        "gfortran runs with -fcheck=bounds; a serial run that traps is skipped",
        "'accepted without a force option' is judged from the options the USER wrote (history's opts0): a transformation "
        "that writes force=True into the caller's dict does not make later acceptances 'forced'; every call is followed by a "
        "deep comparison of the caller's dict with a copy taken before",
    ]
    chk.cov["trusted_base"] = ["Lean 4.33.0 kernel", "axioms propext/Classical.choice/Quot.sound only (audited)",
                               "MiniF semantics + PSyIR->MiniF exporter (harness/minif.py), cross-checked against gfortran serially on every accepted case",
                               "C09.execOMP/execOMPfine as the meaning of parallel do/private/firstprivate under sequential consistency (statement granularity)",
                               "gfortran 12 / libgomp as execution oracle"]
    chk.lean()
    findings = common.known_findings("C09")
    stats = {"status": {}, "tags": {}, "trips": {}, "hyp": {}, "schedules": 0, "gf_runs": 0, "gf_skipped": 0,
             "violations": 0, "known_class": {}, "known_class_gfortran": {}, "history_cases": 0, "histories": [], "static": {},
             "options_mutations": 0, "validate_tie": {}, "pairs": {}}
    runner = Runner(reps=2, wide=thorough)    # thorough: 6 thread counts x 7 schedules x 2 = 84 runs per accepted loop
    gen = R.Gen(chk.rng)
    n = 320 if thorough else 30      # quick: the systematic families (160 cases) run first; 30 random bodies keep an idle run < ~3 min
    if os.environ.get("VERIF_C09_CASES"):          # self-test aid: fewer random cases (the corpus always runs)
        n = int(os.environ["VERIF_C09_CASES"])
    todo = [(c, "paralleldo" if k % 3 else "do+parallel") for k, c in enumerate(R.family_cases(thorough))]
    todo += corpus_cases()
    for _ in range(n):
        todo.append((gen.case(), chk.rng.choice(["paralleldo", "paralleldo", "do+parallel"])))
    # script-like histories: corpus ones, then seeded ones
    hists = corpus_histories() + [make_history(chk.rng, gen, 2) for _ in range(12 if thorough else 4)]
    for hist in hists:
        run_history(chk, runner, hist, findings, stats)
        if stats["violations"] >= 3:
            break
    batch = 35
    for k in range(0, len(todo), batch):
        if stats["violations"] >= 3:
            break
        for res in runner.analyse(todo[k:k + batch], user_opts=({"reprod": False} if (k // batch) % 2 else None)):
            process(chk, res, findings, stats)
        if stats["violations"] >= 3:
            break
    # known findings
    for f in findings:
        wit = f["witness"]
        case, mode = R.Case.from_json(wit["case"]), wit.get("mode", "paralleldo")
        res = Runner(reps=(20 if thorough else 4)).analyse([(case, mode)])[0]
        if res["real"]["status"] != "accepted":
            continue
        bad, ev = failing(res)
        if bad:
            chk.known(f["what"])
    chk.cov["distribution"] = stats


def replay(payload):
    case, mode = R.Case.from_json(payload["case"]), payload.get("mode", "paralleldo")
    print("\n".join([case.header] + ["  " + b for b in case.body] + ["enddo"]))
    hist = payload.get("history")
    opts = None
    if hist:
        opts = dict(hist["opts0"])
        log = R.run_prelude(hist["prelude"], opts)
        print("history: options", hist["opts0"], "prelude", [(e["step"], e["outcome"]) for e in log])
        for x in hist.get("earlier", []):
            R.transform(R.Case.from_json(x["case"]).source(), x.get("mode", "paralleldo"), user_opts=opts)
        print("options dict handed to the transformation:", opts)
    elif payload.get("options_passed") is not None:
        opts = dict(payload["options_passed"])
    res = Runner(reps=20).analyse([(case, mode)], user_opts=opts)[0]
    real = res["real"]
    if real.get("opts_mutated"):
        print("options dict modified by the call:", real["opts_before"], "->", real["opts_after"])
    print("real transformation:", real["status"], real.get("directive") or real["message"][:200])
    if real["status"] != "accepted":
        print("loop is not accepted: nothing to check")
        return 0
    bad, ev = failing(res)
    print("expected: every shared variable equals the serial result under every schedule")
    print("observed:", json.dumps(ev, default=str)[:1500] if bad else "no difference in %d gfortran runs and %s model schedules"
          % (res["gf"]["runs"], res["model"]["verdict"]))
    return 1 if bad else 0
