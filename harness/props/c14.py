"""C14 — the PSyIR tree stays well-formed under any sequence of edits.

Random edit histories are run through the real ChildrenList/Node code (in-process) and through the
Lean model `C14.step` (driver); after every step the outcome class and the whole heap (parent link,
constructor-parent flag and children list of every node) are compared.  Independently of the model
the property itself (well-formedness of the links, kinds valid at their positions, "unchanged after
an error") is evaluated on the real objects after every step.

The model is that of the code REPAIRED by fixes/C14-childrenlist.patch; on the pinned, unrepaired
tree the real code violates the property and the check reports the failing history."""
import json
import os

import common
from common import driver, sx, parse_sx
from props import c14_kinds

gen = c14_kinds.gen

# ---------------------------------------------------------------------------------------------
# pool of real nodes
# ---------------------------------------------------------------------------------------------
POOL_WEIGHTS = [("Schedule", 4), ("Routine", 1), ("Loop", 3), ("IfBlock", 3), ("WhileLoop", 1),
                ("Assignment", 4), ("Call", 2), ("Reference", 5), ("Literal", 4), ("BinaryOperation", 2),
                ("Return", 2), ("OMPParallelDirective", 1), ("OMPDoDirective", 1),
                ("OMPParallelDoDirective", 1), ("OMPSingleDirective", 1), ("ACCKernelsDirective", 1),
                ("ACCLoopDirective", 1), ("OMPPrivateClause", 1), ("OMPDefaultClause", 1),
                ("OMPNowaitClause", 1), ("OMPTaskwaitDirective", 1)]
CTOR_PARENT_OK = {"Schedule", "Loop", "Assignment", "Reference", "Literal", "Return", "IfBlock"}


def make(name, parent=None):
    import psyclone.psyir.nodes as N
    from psyclone.psyir.symbols import DataSymbol, INTEGER_TYPE
    kw = {} if parent is None else {"parent": parent}
    if name == "Routine":
        return N.Routine("r", **kw)
    if name == "Loop":
        return N.Loop(variable=DataSymbol("i", INTEGER_TYPE), **kw)
    if name == "Reference":
        return N.Reference(DataSymbol("a", INTEGER_TYPE), **kw)
    if name == "Literal":
        return N.Literal("1", INTEGER_TYPE, **kw)
    if name == "BinaryOperation":
        return N.BinaryOperation(N.BinaryOperation.Operator.ADD, **kw)
    return getattr(N, name)(**kw)


def build_pool(spec):
    """spec: list of [class name, index of constructor parent or None]; every node of every
    created subtree is registered (pre-order), so directives bring their Schedule/clauses."""
    from psyclone.psyir.nodes import Node
    nodes = []
    for name, cp in spec:
        obj = make(name, None if cp is None else nodes[cp])
        nodes.extend(obj.walk(Node))
    return nodes


def random_spec(rng):
    names = [n for n, w in POOL_WEIGHTS for _ in range(w)]
    spec, count = [], 0
    for _ in range(rng.randint(8, 16)):
        name = rng.choice(names)
        cp = None
        if count and name in CTOR_PARENT_OK and rng.random() < 0.12:
            cp = rng.randrange(count)
        spec.append([name, cp])
        count = len(build_pool(spec))   # cheap; keeps indices of later ctor parents valid
    return spec


# ---------------------------------------------------------------------------------------------
# export / property evaluation on the real objects
# ---------------------------------------------------------------------------------------------
def snapshot(nodes):
    idx = {id(n): i for i, n in enumerate(nodes)}
    out = []
    for n in nodes:
        par = n.parent
        out.append([-1 if par is None else idx.get(id(par), -2),
                    1 if n.has_constructor_parent else 0,
                    [idx.get(id(c), -2) for c in list.__iter__(n.children)]])
    return out


# argument names used for Call nodes: (string, id up to case, is lower case)
NAMES = [("a", 0, 1), ("b", 1, 1), ("foo", 2, 1), ("Foo", 2, 0)]
NAME_OF = {n: (i, l) for n, i, l in NAMES}


def names_snapshot(nodes):
    """raw `_argument_names` of every call-like node (read without reconciling)"""
    idx = {id(n): i for i, n in enumerate(nodes)}
    out = []
    for n in nodes:
        raw = getattr(n, "_argument_names", None)
        if raw is None:
            out.append([])
        else:
            out.append([[idx.get(e[0], -2)] + ([-1, 0] if e[1] is None else list(NAME_OF.get(e[1], (-3, 0))))
                        for e in raw])
    return out


def wf_reason(nodes):
    """The property's state clauses on the real objects; None if they hold."""
    idx = {id(n): i for i, n in enumerate(nodes)}
    listed = {}
    for p, n in enumerate(nodes):
        kids = list(list.__iter__(n.children))
        seen = set()
        for pos, c in enumerate(kids):
            ci = idx.get(id(c))
            if ci is None:
                return f"node {p} lists an object that is not a node of the tree at position {pos}"
            if id(c) in seen:
                return f"node {p} lists child {ci} more than once"
            seen.add(id(c))
            if c.parent is not n:
                return f"node {p} lists child {ci} at position {pos} but the child's parent is " \
                       f"{idx.get(id(c.parent)) if c.parent is not None else None}"
            if c.has_constructor_parent:
                return f"child {ci} of node {p} still has the constructor-parent flag"
            if not n._validate_child(pos, c):
                return f"child {ci} ({type(c).__name__}) is not valid at position {pos} of node {p} " \
                       f"({type(n).__name__}: {n._children_valid_format})"
            if ci in listed:
                return f"node {ci} is listed by nodes {listed[ci]} and {p}"
            listed[ci] = p
    for i, n in enumerate(nodes):
        if n.parent is not None and not n.has_constructor_parent:
            if listed.get(i) != idx.get(id(n.parent)):
                return f"node {i} has parent {idx.get(id(n.parent))} which does not list it"
        cur, steps = n, 0
        while cur is not None:
            cur = cur.parent
            steps += 1
            if steps > len(nodes) + 1:
                return f"the parent chain of node {i} is cyclic"
    return None


LIST_OPS = ("append", "insert", "extend", "iadd", "setitem", "delitem", "pop", "remove", "reverse", "clear",
            "sort", "imul", "setslice", "delslice")


def apply_real(nodes, op, handles=None):
    """Execute one operation on the real objects.  `handles[p]` is the ChildrenList handle
    `lst = node.children` taken when the pool was built and never re-taken; an operation named
    `h:<method>` goes through it (also after `children =` assignments on that node)."""
    from psyclone.errors import GenerationError
    name = op[0]
    via_handle = name.startswith("h:")
    if via_handle:
        name = name[2:]
        if handles is None:
            handles = take_handles(nodes)

    def kids(p):
        if via_handle and handles is not None:
            return handles[p]
        return nodes[p].children
    try:
        if name == "append":
            kids(op[1]).append(nodes[op[2]])
        elif name == "insert":
            kids(op[1]).insert(op[2], nodes[op[3]])
        elif name == "addchild":
            if len(op) == 3:
                nodes[op[1]].addchild(nodes[op[2]])
            else:
                nodes[op[1]].addchild(nodes[op[2]], op[3])
        elif name == "extend":
            kids(op[1]).extend([nodes[i] for i in op[2]])
        elif name == "iadd":
            if via_handle:
                lst = handles[op[1]]
                lst += [nodes[i] for i in op[2]]
            else:
                nodes[op[1]].children += [nodes[i] for i in op[2]]
        elif name == "setitem":
            kids(op[1])[op[2]] = nodes[op[3]]
        elif name == "delitem":
            del kids(op[1])[op[2]]
        elif name == "pop":
            if op[2] == -1 and len(op) > 3:
                kids(op[1]).pop()
            else:
                kids(op[1]).pop(op[2])
        elif name == "remove":
            kids(op[1]).remove(nodes[op[2]])
        elif name == "reverse":
            kids(op[1]).reverse()
        elif name == "clear":
            kids(op[1]).clear()
        elif name == "sort":
            kids(op[1]).sort()
        elif name == "imul":
            if via_handle:
                lst = handles[op[1]]
                lst *= 2
            else:
                nodes[op[1]].children *= 2
        elif name == "setchildren":
            nodes[op[1]].children = [nodes[i] for i in op[2]]
        elif name == "popall":
            nodes[op[1]].pop_all_children()
        elif name == "detach":
            nodes[op[1]].detach()
        elif name == "replace":
            if len(op) == 3:
                nodes[op[1]].replace_with(nodes[op[2]])
            else:
                nodes[op[1]].replace_with(nodes[op[2]], keep_name_in_context=bool(op[3]))
        elif name == "appendnamed":
            nm = None if len(op) < 4 or op[3] < 0 else NAMES[op[3]][0]
            nodes[op[1]].append_named_arg(nm, nodes[op[2]])
        elif name == "insertnamed":
            nm = None if len(op) < 5 or op[4] < 0 else NAMES[op[4]][0]
            nodes[op[1]].insert_named_arg(nm, nodes[op[3]], op[2])
        elif name == "replacenamed":
            nodes[op[1]].replace_named_arg(NAMES[op[2]][0], nodes[op[3]])
        elif name == "argnames":
            nodes[op[1]].argument_names  # pylint: disable=pointless-statement
        elif name == "setslice":
            kids(op[1])[op[2]:op[3]] = [nodes[i] for i in op[4]]
        elif name == "delslice":
            if len(op) > 4:
                kids(op[1]).pop(slice(op[2], op[3]))
            else:
                del kids(op[1])[op[2]:op[3]]
        elif name == "setchildren-nonlist":
            nodes[op[1]].children = tuple(nodes[i] for i in op[2])
        elif name == "replace-nonnode":
            nodes[op[1]].replace_with("not a node")
        elif name == "replace-badflag":
            nodes[op[1]].replace_with(nodes[op[2]], keep_name_in_context="yes")
        else:
            raise common.Infra("unknown op " + str(op))
        return "ok"
    except GenerationError:
        return "GenerationError"
    except (IndexError, ValueError, TypeError, NotImplementedError) as e:
        return type(e).__name__
    except common.Infra:
        raise
    except BaseException as e:  # e.g. RecursionError from update_signal on a cyclic tree
        if isinstance(e, (KeyboardInterrupt, SystemExit)):
            raise
        return "other:" + type(e).__name__


def take_handles(nodes):
    return [n.children for n in nodes]


def run_history(spec, ops):
    """Run ops on a fresh pool. -> (trace, failure) with trace = [(outcome, snapshot)] and failure =
    None or dict(step, observed, expected)."""
    nodes = build_pool(spec)
    handles = take_handles(nodes)
    trace = []
    before = snapshot(nodes)
    for k, op in enumerate(ops):
        out = apply_real(nodes, op, handles)
        after = snapshot(nodes)
        trace.append((out, after, names_snapshot(nodes)))
        fail = judge(nodes, k, op, out, before, after)
        if fail:
            return trace, fail
        before = after
    return trace, None


def judge(nodes, k, op, out, before, after):
    if out != "ok" and after != before:
        return {"step": k, "op": op, "observed": f"{out} raised and the tree changed",
                "expected": "an operation that raises leaves the tree exactly as it was",
                "before": before, "after": after}
    why = wf_reason(nodes)
    if why:
        return {"step": k, "op": op, "observed": f"outcome {out}; {why}",
                "expected": "parent/children links consistent, each child listed once and valid at its position",
                "before": before, "after": after}
    return None


# ---------------------------------------------------------------------------------------------
# generator
# ---------------------------------------------------------------------------------------------
MAIN_WEIGHTS = [("append", 8), ("insert", 12), ("addchild", 8), ("extend", 6), ("iadd", 3), ("setitem", 9),
                ("delitem", 8), ("pop", 10), ("remove", 6), ("reverse", 3), ("clear", 2), ("sort", 1),
                ("imul", 1), ("setchildren", 6), ("popall", 2), ("detach", 8), ("replace", 9),
                ("appendnamed", 4), ("insertnamed", 4), ("replacenamed", 2), ("argnames", 1), ("setslice", 1), ("delslice", 1),
                ("setchildren-nonlist", 1), ("replace-nonnode", 1), ("replace-badflag", 1)]
SETUP_WEIGHTS = [("append", 6), ("insert", 3), ("addchild", 3), ("extend", 2)]


def is_anc_or_self(x, n):
    cur, steps = n, 0
    while cur is not None and steps < 1000:
        if cur is x:
            return True
        cur, steps = cur.parent, steps + 1
    return False


class OpGen:
    def __init__(self, rng, nodes):
        self.rng, self.nodes = rng, nodes
        self.N = len(nodes)
        self.containers = [i for i, n in enumerate(nodes) if n._children_valid_format not in (None, "<LeafNode>")]

    def any(self):
        return self.rng.randrange(self.N)

    def container(self):
        if self.containers and self.rng.random() < 0.9:
            return self.rng.choice(self.containers)
        return self.any()

    def nonempty(self):
        c = [i for i in self.containers if len(self.nodes[i].children)]
        if c and self.rng.random() < 0.85:
            return self.rng.choice(c)
        return self.container()

    def index(self, p):
        n = len(self.nodes[p].children)
        return self.rng.randint(-n - 2, n + 2)

    def good(self, p, pos, exclude=()):
        """an orphan that the real validator accepts at `pos` of node p (or any node)"""
        par = self.nodes[p]
        c = [i for i, n in enumerate(self.nodes)
             if i not in exclude and (n.parent is None or (n.has_constructor_parent and n.parent is par))
             and par._validate_child(pos, n) and not is_anc_or_self(n, par)]
        if c and self.rng.random() < 0.8:
            return self.rng.choice(c)
        return self.any()

    def op(self, weights):
        o = self.op0(weights)
        if o[0] in LIST_OPS and self.rng.random() < 0.5:
            o[0] = "h:" + o[0]      # through the handle taken when the pool was built
        return o

    def op0(self, weights):
        rng, nodes = self.rng, self.nodes
        name = rng.choice([n for n, w in weights for _ in range(w)])
        if name == "append":
            p = self.container()
            return ["append", p, self.good(p, len(nodes[p].children))]
        if name in ("insert", "addchild"):
            p = self.container()
            if name == "addchild" and rng.random() < 0.4:
                return ["addchild", p, self.good(p, len(nodes[p].children))]
            i = self.index(p)
            n = len(nodes[p].children)
            pos = max(0, n + i) if i < 0 else min(i, n)
            x = self.good(p, pos)
            return ["insert", p, i, x] if name == "insert" else ["addchild", p, x, i]
        if name in ("extend", "iadd"):
            p = self.container()
            xs, n = [], len(nodes[p].children)
            for j in range(rng.choice([0, 1, 1, 2, 2, 3])):
                xs.append(self.good(p, n + j, exclude=xs if rng.random() < 0.9 else ()))
            return [name, p, xs]
        if name == "setitem":
            p = self.nonempty()
            i = self.index(p)
            n = len(nodes[p].children)
            pos = i + n if i < 0 else i
            return ["setitem", p, i, self.good(p, max(pos, 0))]
        if name == "delitem":
            p = self.nonempty()
            return ["delitem", p, self.index(p)]
        if name == "pop":
            p = self.nonempty()
            if rng.random() < 0.25:
                return ["pop", p, -1, "default"]
            return ["pop", p, self.index(p)]
        if name == "remove":
            p = self.nonempty()
            kids = list(list.__iter__(nodes[p].children))
            r = rng.random()
            if kids and r < 0.6:
                kid = rng.choice(kids)
                x = next(i for i, n in enumerate(nodes) if n is kid)
            elif kids and r < 0.85:
                # a different node of the same class as one of the children (no `==`: Call.__eq__
                # would reconcile the argument names behind the model's back)
                c = [i for i, n in enumerate(nodes) if all(n is not k for k in kids)
                     and any(type(n) is type(k) for k in kids)]
                x = rng.choice(c) if c else self.any()
            else:
                x = self.any()
            return ["remove", p, x]
        if name in ("reverse", "clear", "sort", "imul", "popall"):
            return [name, self.nonempty()]
        if name == "setchildren":
            p = self.container()
            idx = {id(n): i for i, n in enumerate(nodes)}
            kids = [idx[id(c)] for c in list.__iter__(nodes[p].children) if id(c) in idx]
            r = rng.random()
            if r < 0.35:
                xs = kids[:]
                rng.shuffle(xs)
                xs = xs[:rng.randint(0, len(xs))]
            elif r < 0.75:
                xs = kids[:rng.randint(0, len(kids))]
                for _ in range(rng.randint(0, 2)):
                    xs.append(self.good(p, len(xs), exclude=xs if rng.random() < 0.9 else ()))
            else:
                xs = [self.any() for _ in range(rng.randint(0, 3))]
            return ["setchildren", p, xs]
        if name == "detach":
            c = [i for i, n in enumerate(nodes) if n.parent is not None]
            return ["detach", rng.choice(c) if c and rng.random() < 0.85 else self.any()]
        if name == "replace":
            c = [i for i, n in enumerate(nodes) if n.parent is not None]
            x = rng.choice(c) if c and rng.random() < 0.85 else self.any()
            par = nodes[x].parent
            if par is not None and not nodes[x].has_constructor_parent and rng.random() < 0.8:
                pi = next(i for i, n in enumerate(nodes) if n is par)
                y = self.good(pi, nodes[x].position)
            else:
                y = self.any()
            r = rng.random()
            return ["replace", x, y] if r < 0.4 else ["replace", x, y, 1 if r < 0.7 else 0]
        if name in ("appendnamed", "insertnamed"):
            calls = [i for i, n in enumerate(nodes) if hasattr(n, "append_named_arg")]
            if not calls:
                return self.op0(weights)
            p = rng.choice(calls)
            n = len(nodes[p].children)
            v = -1 if rng.random() < 0.5 else rng.randrange(len(NAMES))
            if name == "appendnamed":
                return ["appendnamed", p, self.good(p, n), v]
            i = rng.randint(-n - 3, n + 1)
            pos = max(0, n + i + 1) if i + 1 < 0 else min(i + 1, n)
            return ["insertnamed", p, i, self.good(p, pos), v]
        if name in ("replacenamed", "argnames"):
            calls = [i for i, n in enumerate(nodes) if hasattr(n, "append_named_arg")]
            if not calls:
                return self.op0(weights)
            p = rng.choice(calls)
            if name == "argnames":
                return ["argnames", p]
            return ["replacenamed", p, rng.randrange(len(NAMES)), self.good(p, rng.randint(1, 3))]
        if name in ("setslice", "delslice"):
            p = self.nonempty()
            i, j = sorted((self.index(p), self.index(p)))
            if name == "setslice":
                return ["setslice", p, i, j, [self.any() for _ in range(rng.randint(0, 2))]]
            return ["delslice", p, i, j] if rng.random() < 0.7 else ["delslice", p, i, j, "pop"]
        if name == "setchildren-nonlist":
            p = self.container()
            return [name, p, [self.good(p, 0)] if rng.random() < 0.7 else []]
        if name == "replace-nonnode":
            return [name, self.any()]
        if name == "replace-badflag":
            return [name, self.any(), self.any()]
        raise common.Infra("generator: " + name)


def random_history(rng, malformed=False):
    """-> (spec, ops, trace, failure).  Operations are drawn from the current real state."""
    spec = random_spec(rng)
    nodes = build_pool(spec)
    g = OpGen(rng, nodes)
    handles = take_handles(nodes)
    ops, trace = [], []
    n_setup = rng.randint(0, 14)
    n_main = rng.randint(1, 30)
    before = snapshot(nodes)
    for k in range(n_setup + n_main):
        if malformed:
            op = g.op(MAIN_WEIGHTS)
            # malformed stream: operands chosen blindly
            for j in range(1, len(op)):
                base = op[0][2:] if op[0].startswith("h:") else op[0]
                if isinstance(op[j], int) and rng.random() < 0.5 and not (base in ("insert", "setitem", "delitem", "pop", "insertnamed") and j == 2) \
                        and not (base in ("addchild", "replace") and j == 3) and base not in ("setslice", "delslice", "appendnamed", "insertnamed", "replacenamed", "argnames"):
                    op[j] = g.any()
        else:
            op = g.op(SETUP_WEIGHTS if k < n_setup else MAIN_WEIGHTS)
        out = apply_real(nodes, op, handles)
        after = snapshot(nodes)
        ops.append(op)
        trace.append((out, after, names_snapshot(nodes)))
        fail = judge(nodes, k, op, out, before, after)
        if fail:
            return spec, ops, trace, fail
        before = after
    return spec, ops, trace, None


# ---------------------------------------------------------------------------------------------
# model side
# ---------------------------------------------------------------------------------------------
def kind_ids():
    names = [c.__name__ for c in c14_kinds.node_classes()]
    return {n: i for i, n in enumerate(names)}


def to_model(op):
    name = op[0]
    via = name.startswith("h:")
    if via:
        name = name[2:]
    if name == "pop":
        m = ["pop", op[1], op[2]]
    elif name in ("setslice", "delslice", "setchildren-nonlist"):
        m = [name, op[1]]
    elif name == "appendnamed":
        v = -1 if len(op) < 4 else op[3]
        m = ["appendnamed", op[1], op[2]] + ([-1, 0] if v < 0 else list(NAMES[v][1:]))
    elif name == "insertnamed":
        v = -1 if len(op) < 5 else op[4]
        m = ["insertnamed", op[1], op[2], op[3]] + ([-1, 0] if v < 0 else list(NAMES[v][1:]))
    elif name == "replacenamed":
        m = ["replacenamed", op[1]] + list(NAMES[op[2]][1:]) + [op[3]]
    else:
        m = [name] + list(op[1:])
    if via:
        return ["via", m[1], [m[0]] + m[2:]]
    return m


def model_line(spec, ops, kid):
    nodes = build_pool(spec)
    snap = snapshot(nodes)
    recs = [[kid[type(n).__name__], s[0], s[1], s[2], nm] for n, s, nm in zip(nodes, snap, names_snapshot(nodes))]
    mops = [to_model(op) for op in ops]
    return sx([recs, mops])


def parse_model(line):
    out = parse_sx(line)
    res = []
    for step in out:
        if step == "bad-op":
            res.append(("bad-op", None))
        else:
            res.append((step[0], [[r[0], r[1], list(r[2])] for r in step[1]],
                        [[list(e) for e in nm] for nm in step[2]]))
    return res


def shrink(spec, ops):
    """greedy removal of operations while some property failure remains"""
    _, fail = run_history(spec, ops)
    if not fail:
        return ops, fail
    ops = ops[:fail["step"] + 1]
    changed = True
    while changed:
        changed = False
        for j in range(len(ops) - 1, -1, -1):
            cand = ops[:j] + ops[j + 1:]
            _, f = run_history(spec, cand)
            if f:
                ops, fail, changed = cand[:f["step"] + 1], f, True
                break
    return ops, fail


# ---------------------------------------------------------------------------------------------
# corpus: the probed defect classes of the pinned tree, as histories
# ---------------------------------------------------------------------------------------------
def corpus_cases():
    base = [
        # Loop.children.pop(-2) / del children[-2]: displaced Schedule validated at the wrong position
        ([["Loop", None], ["Reference", None], ["Reference", None], ["Reference", None], ["Schedule", None]],
         [["extend", 0, [1, 2, 3, 4]], ["pop", 0, -2]]),
        ([["Loop", None], ["Reference", None], ["Reference", None], ["Reference", None], ["Schedule", None]],
         [["extend", 0, [1, 2, 3, 4]], ["delitem", 0, -2]]),
        # insert with a negative index validates against len - index
        ([["IfBlock", None], ["Reference", None], ["Schedule", None], ["Schedule", None]],
         [["extend", 0, [1, 2]], ["insert", 0, -1, 3]]),
        # remove() locates by == but unlinks by identity
        ([["Schedule", None], ["Assignment", None], ["Assignment", None]],
         [["extend", 0, [1]], ["remove", 0, 2]]),
        ([["Schedule", None], ["Assignment", None], ["Assignment", None]],
         [["extend", 0, [1, 2]], ["remove", 0, 2]]),
        # children setter pops everything before validating
        ([["Schedule", None], ["Assignment", None], ["Literal", None]],
         [["append", 0, 1], ["setchildren", 0, [1, 2]]]),
        # extend with a duplicate
        ([["Schedule", None], ["Assignment", None]], [["extend", 0, [1, 1]]]),
        # an ancestor added below its own descendant
        ([["IfBlock", None], ["Reference", None], ["Schedule", None]],
         [["extend", 0, [1, 2]], ["append", 2, 0]]),
        # a handle taken before a `children =` assignment is used after it (fixed by 6dd9337)
        ([["Schedule", None], ["Assignment", None], ["Assignment", None]],
         [["h:append", 0, 1], ["setchildren", 0, [1]], ["h:append", 0, 2], ["h:pop", 0, -2]]),
        # setitem with a negative index
        ([["Loop", None], ["Reference", None], ["Reference", None], ["Reference", None], ["Schedule", None], ["Literal", None]],
         [["extend", 0, [1, 2, 3, 4]], ["setitem", 0, -2, 5], ["setitem", 0, -1, 5]]),
    ]
    cdir = os.path.join(common.ROOT, "corpus", "C14")
    if os.path.isdir(cdir):
        for f in sorted(os.listdir(cdir)):
            if f.endswith(".json"):
                d = json.load(open(os.path.join(cdir, f)))
                base.append((d["pool"], d["ops"]))
    return base


# ---------------------------------------------------------------------------------------------
# exhaustive enumeration of single operations (and pairs, thorough tier) on two small trees
# ---------------------------------------------------------------------------------------------
EXH_POOLS = [
    # a complete Loop plus spare nodes
    ([["Loop", None], ["Reference", None], ["Reference", None], ["Reference", None], ["Schedule", None],
      ["Literal", None], ["Assignment", None]],
     [["extend", 0, [1, 2, 3, 4]]], [0, 4]),
    # an IfBlock with else-body, a Call with its routine reference, a constructor-parent Assignment
    ([["IfBlock", None], ["Reference", None], ["Schedule", None], ["Schedule", None], ["Assignment", None],
      ["Call", None], ["Reference", None], ["Assignment", 2]],
     [["extend", 0, [1, 2, 3]], ["append", 2, 4], ["append", 5, 6]], [0, 2, 5]),
    # a Call `r(lit, foo=lit)`: replace_with on its children with a named last argument
    ([["Call", None], ["Reference", None], ["Literal", None], ["Literal", None], ["Reference", None],
      ["Literal", None], ["Schedule", None]],
     [["append", 0, 1], ["appendnamed", 0, 2, -1], ["appendnamed", 0, 3, 3]], [0]),
]


def enum_ops(nodes, parents=None, short=False):
    """every operation (all operands, all indices in [-len-2, len+2]) applicable in this state;
    list methods both on the node and through the handle (short: through the handle only)"""
    for o in enum_ops0(nodes, parents, short):
        if o[0] in LIST_OPS:
            if not short:
                yield o
            yield ["h:" + o[0]] + o[1:]
        else:
            yield o


def enum_ops0(nodes, parents=None, short=False):
    N = len(nodes)
    lists = [[]] + [[a] for a in range(N)]
    if not short:
        lists += [[a, b] for a in range(N) for b in range(N)]
    for p in (range(N) if parents is None else parents):
        n = len(nodes[p].children)
        idxs = range(-n - 2, n + 3)
        for x in range(N):
            yield ["append", p, x]
            yield ["addchild", p, x]
            yield ["remove", p, x]
            for i in idxs:
                yield ["insert", p, i, x]
                yield ["setitem", p, i, x]
                if not short:
                    yield ["addchild", p, x, i]
        for i in idxs:
            yield ["delitem", p, i]
            yield ["pop", p, i]
        yield ["pop", p, -1, "default"]
        for name in ("reverse", "clear", "sort", "imul", "popall"):
            yield [name, p]
        for xs in lists:
            yield ["extend", p, xs]
            yield ["setchildren", p, xs]
            if len(xs) == 1:
                yield ["iadd", p, xs]
        yield ["setslice", p, 0, 1, [0]]
        yield ["delslice", p, 0, 1]
        yield ["delslice", p, 0, 1, "pop"]
        yield ["setchildren-nonlist", p, [0]]
        if hasattr(nodes[p], "append_named_arg"):
            yield ["argnames", p]
            for x in range(N):
                for v in (-1, 2, 3):
                    yield ["appendnamed", p, x, v]
                    yield ["replacenamed", p, max(v, 0), x]
                    for i in range(-n - 3, n + 2):
                        yield ["insertnamed", p, i, x, v]
    for x in range(N):
        yield ["detach", x]
        yield ["replace-nonnode", x]
        for y in range(N):
            yield ["replace", x, y]
            yield ["replace", x, y, 0]
            if not short:
                yield ["replace-badflag", x, y]


def exhaustive_histories(depth2):
    for spec, setup, focus in EXH_POOLS:
        nodes = build_pool(spec)
        for op in setup:
            apply_real(nodes, op)
        firsts = list(enum_ops(nodes))
        for op in firsts:
            yield spec, setup + [op]
        if depth2:
            for op1 in enum_ops(nodes, parents=focus, short=True):
                nodes2 = build_pool(spec)
                for op in setup + [op1]:
                    apply_real(nodes2, op)
                for op2 in enum_ops(nodes2, parents=focus[:1], short=True):
                    yield spec, setup + [op1, op2]


# ---------------------------------------------------------------------------------------------
def run(chk):
    chk.cov["rule"] = ("edit histories on a pool of 8..30 real nodes (Schedule, Routine, Loop, IfBlock, WhileLoop, "
                       "Assignment, Call, Reference, Literal, BinaryOperation, Return, OMP/ACC directives and clauses; "
                       "some with a constructor parent): 0..14 tree-building operations followed by 1..30 operations "
                       "drawn from all 24 modelled operations (incl. replace_with with keep_name_in_context, Call.*_named_arg, slice "
                       "forms and wrongly typed arguments) with indices in [-len-2, len+2]; 10% of the histories "
                       "choose operands blindly (malformed stream); before them every single operation (all operands, all "
                       "indices in [-len-2, len+2]) on a complete Loop tree and on an IfBlock/Call tree is enumerated "
                       "(thorough: also all pairs restricted to the Loop/IfBlock/Schedule/Call nodes); non-trivial = at least 3 successful mutations "
                       "and at least one refusal or negative index; distinct by canonical JSON of (pool, ops)")
    chk.cov["exhaustive"] = False
    chk.assumptions += [
        "Node._update_node is the base no-op for every node kind used (only ACCDataDirective overrides it, and is excluded)",
        "Call argument names are drawn from a 4-word vocabulary (a, b, foo, Foo); names are valid Fortran names; "
        "Call.__eq__/copy (which also reconcile _argument_names) are not part of the histories",
        "operations mention allocated nodes only (ids < number of nodes); under that hypothesis the bounded ancestor "
        "walk of the model is proved equal to the unbounded Python loop (C14_ancestor_fuel_adequate)",
        "half of the ChildrenList method calls go through the handle `lst = node.children` taken when the pool was "
        "built and never re-taken (also after `children =` assignments); the model runs them as HOp.via on hstep",
        "_validate_child depends only on the position and the class of the child, and is constant for positions >= "
        f"{c14_kinds.NPOS - 1} (probed up to {c14_kinds.NPOS + c14_kinds.PROBE_EXTRA - 1} by the translator)",
    ]
    chk.lean(gen=gen)
    _, _, notes = c14_kinds.lean_text()
    if notes:
        chk.correspondence_broken("translator assumption broken: " + "; ".join(notes[:3]), notes[:10], None, None)
    kid = kind_ids()
    n_hist = 20000 if chk.tier == "thorough" else 1000
    records = []      # (spec, ops, trace)
    failure = None
    stats = {"ops": {}, "outcomes": {}, "negative_index": 0, "malformed_histories": 0, "max_children": 0}

    def note(ops, trace):
        for op, (out, snap, _nm) in zip(ops, trace):
            stats["ops"][op[0]] = stats["ops"].get(op[0], 0) + 1
            if op[0].startswith("h:"):
                op = [op[0][2:]] + list(op[1:])
            stats["outcomes"][out] = stats["outcomes"].get(out, 0) + 1
            if any(isinstance(a, int) and a < 0 for a in op[2:3]) and op[0] in ("insert", "setitem", "delitem", "pop"):
                stats["negative_index"] += 1
            if op[0] == "addchild" and len(op) == 4 and op[3] < 0:
                stats["negative_index"] += 1
            stats["max_children"] = max(stats["max_children"], max(len(r[2]) for r in snap))

    reported = [0]

    def flush():
        """(b) correspondence with the model for the histories recorded so far"""
        if not records:
            return
        lines = [model_line(spec, ops, kid) for spec, ops, _ in records]
        outs = driver("C14", lines)
        for (spec, ops, trace), mo in zip(records, outs):
            model = parse_model(mo)
            agreed = len(model) == len(trace) and all(m[0] == t[0] and m[1] == t[1] and m[2] == t[2] for m, t in zip(model, trace))
            nsucc = sum(1 for t in trace if t[0] == "ok")
            nontriv = nsucc >= 3 and (any(t[0] != "ok" for t in trace) or
                                      any(isinstance(a, int) and a < 0 for op in ops for a in op[2:4] if not isinstance(a, list)))
            chk.case({"pool": spec, "ops": ops}, nontrivial=nontriv, agreed=agreed)
            if not agreed and reported[0] < 3:
                reported[0] += 1
                k = next((i for i, (m, t) in enumerate(zip(model, trace)) if m[0] != t[0] or m[1] != t[1] or m[2] != t[2]), min(len(model), len(trace)))
                chk.correspondence_broken(
                    f"real ChildrenList/Node code differs from C14.step at step {k} ({ops[k] if k < len(ops) else '?'})",
                    {"pool": spec, "ops": ops[:k + 1]},
                    model[k] if k < len(model) else None, list(trace[k]) if k < len(trace) else None)
        records.clear()

    def report(spec, ops, fail):
        sops, sfail = shrink(spec, ops)
        if sfail:
            ops, fail = sops, sfail
        chk.violation({"kind": "failing-input", "pool": spec, "ops": ops, "step": fail["step"],
                       "observed": fail["observed"], "expected": fail["expected"],
                       "tree_before_step": fail["before"], "tree_after_step": fail["after"],
                       "pool_classes": [type(n).__name__ for n in build_pool(spec)]})

    # corpus first (the probed defect classes and stored past failures): one report per failing case
    for spec, ops in ([] if os.environ.get("C14_NO_CORPUS") else corpus_cases()):
        trace, fail = run_history(spec, ops)
        records.append((spec, ops[:len(trace)], trace))
        note(ops, trace)
        if fail:
            report(spec, ops[:len(trace)], fail)
    n_exh = 0
    for spec, ops in exhaustive_histories(depth2=(chk.tier == "thorough")):
        if len(chk.violations) >= 3:
            break
        trace, fail = run_history(spec, ops)
        records.append((spec, ops[:len(trace)], trace))
        note(ops[-1:], trace[-1:])
        n_exh += 1
        if fail:
            report(spec, ops[:len(trace)], fail)
        if len(records) >= 20000:
            flush()
    stats["exhaustive_histories"] = n_exh
    for j in range(n_hist):
        if failure is not None or len(chk.violations) >= 3:
            break
        if len(records) >= 20000:
            flush()
        malformed = chk.rng.random() < 0.1
        stats["malformed_histories"] += malformed
        spec, ops, trace, fail = random_history(chk.rng, malformed)
        records.append((spec, ops, trace))
        note(ops, trace)
        if fail:
            failure = (spec, ops, fail)

    # (c) the property itself on the real code
    if failure is not None:
        report(*failure)

    flush()
    chk.cov["distribution"] = stats
    chk.cov["observations"] = observations()
    # (d) known findings: none are listed for C14 (all probed defects are repaired by the fix patch)
    for e in common.known_findings("C14"):
        fails, reproduced = stale_witness(e.get("witness", {}), kid)
        if fails and reproduced:
            chk.known(e["what"])
        elif fails:
            chk.correspondence_broken("the handle model (C14.hstep) does not reproduce the known finding " + e["id"],
                                      e.get("witness"), None, None)


def observations():
    """Behaviours of `replace_with` on Call children that break no C14 clause (the tree stays
    well-formed, refusals are atomic) but replace a different child / refuse a legitimate edit.
    Probed on the real code on every run and reported in the evidence only."""
    out = []
    spec = [["Call", None], ["Reference", None], ["Literal", None], ["Literal", None], ["Reference", None]]
    nodes = build_pool(spec)
    for op in (["append", 0, 1], ["appendnamed", 0, 2, -1], ["appendnamed", 0, 3, 2]):
        apply_real(nodes, op)
    r = apply_real(nodes, ["replace", 1, 4, 1])
    kids = snapshot(nodes)[0][2]
    out.append({"what": "call.children[0].replace_with(x) with a named LAST argument replaces the last argument, not "
                        "the routine reference (argument_names[position - 1] is argument_names[-1])",
                "input": "Call r(1, foo=1); routine_ref.replace_with(x)", "outcome": r, "children_after": kids,
                "occurs": kids == [1, 2, 4], "wf": wf_reason(nodes) is None,
                "model": "C14.cstep reproduces it (example in Props/C14.lean); no C14 clause broken"})
    nodes = build_pool(spec)
    for op in (["append", 0, 1], ["appendnamed", 0, 2, -1], ["appendnamed", 0, 3, 3]):
        apply_real(nodes, op)
    before = snapshot(nodes)
    r = apply_real(nodes, ["replace", 3, 4, 1])
    out.append({"what": "replace_with on an argument whose name is not all lower case raises ValueError "
                        "(replace_named_arg compares name.lower() with the un-lowered name)",
                "input": "Call r(1, Foo=1); arg.replace_with(x)", "outcome": r,
                "occurs": r == "ValueError", "tree_unchanged": snapshot(nodes) == before,
                "model": "C14.cstep reproduces it (example in Props/C14.lean); atomic, no C14 clause broken"})
    return out


def stale_witness(w, kid=None, verbose=False):
    """`lst = p.children; p.children = xs; lst.append(x)` after the witness' ops.
    -> (property fails on the real code, the handle model gives the same heap)"""
    nodes = build_pool(w["pool"])
    for op in w["ops"]:
        apply_real(nodes, op)
    st = w["stale"]
    start = snapshot(nodes)
    lst = nodes[st["p"]].children
    o1 = apply_real(nodes, ["setchildren", st["p"], st["xs"]])
    try:
        lst.append(nodes[st["x"]])
        o2 = "ok"
    except Exception as e:  # noqa
        o2 = type(e).__name__
    why = wf_reason(nodes)
    after = snapshot(nodes)
    if verbose:
        print("pool:", [f"{i}:{type(n).__name__}" for i, n in enumerate(nodes)])
        print(f"lst = n{st['p']}.children; n{st['p']}.children = {st['xs']} -> {o1}; lst.append(n{st['x']}) -> {o2}")
        print("tree after:", after)
        print("property:", why or "holds")
    reproduced = None
    if kid is not None:
        recs = [[kid[type(n).__name__], r[0], r[1], r[2]] for n, r in zip(nodes, start)]
        out = parse_sx(driver("C14", [sx(["stale", recs, st["p"], st["xs"], ["append", st["x"]]])])[0])
        mheap = [[r[0], r[1], list(r[2])] for r in out[2]]
        reproduced = (out[0] == o1 and out[1] == (o2 if o2 != "GenerationError" else "GenerationError") and mheap == after)
    return bool(why), reproduced


def replay(payload):
    if "stale" in payload:
        fails, _ = stale_witness(payload, None, verbose=True)
        return 1 if fails else 0
    if "pool" not in payload:
        # no input on which the property itself fails was found: re-run the disagreeing history on the
        # real code and compare its last step with the model's recorded answer
        rc = 0
        for b in payload.get("broken", []):
            if b.get("kind") != "correspondence" or not isinstance(b.get("case"), dict):
                print("broken obligation:", json.dumps(b)[:1500])
                rc = 1
                continue
            spec, ops = b["case"]["pool"], b["case"]["ops"]
            trace, fail = run_history(spec, ops)
            real = [trace[-1][0], trace[-1][1], trace[-1][2]] if len(trace) == len(ops) else None
            model = b.get("model")
            if model and model[1] is not None:
                model = [model[0], [[r[0], r[1], list(r[2])] for r in model[1]],
                         [[list(e) for e in nm] for nm in model[2]] if len(model) > 2 else None]
                if model[2] is None:
                    real = real and real[:2] + [None]
            print("pool:", [f"{i}:{type(n).__name__}" for i, n in enumerate(build_pool(spec))])
            print("ops:", ops)
            print("model (C14.step) last step:", model)
            print("real code        last step:", real)
            if fail:
                print("property failure:", fail["observed"])
            if real != model or fail:
                rc = 1
        return rc
    spec, ops = payload["pool"], payload["ops"]
    nodes = build_pool(spec)
    print("pool:", [f"{i}:{type(n).__name__}" for i, n in enumerate(nodes)])
    trace, fail = run_history(spec, ops)
    for op, t in zip(ops, trace):
        print(" ", op, "->", t[0])
    if fail:
        print("step", fail["step"], fail["op"])
        print("observed:", fail["observed"])
        print("expected:", fail["expected"])
        print("tree before:", fail["before"])
        print("tree after: ", fail["after"])
        return 1
    print("property holds on this history")
    return 0
