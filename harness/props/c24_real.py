"""C24 — running the real PSyclone `generate` on an algorithm file and reading BOTH generated layers back.

Nothing here looks at PSyclone's internal Invoke/Argument objects: the rewritten algorithm call, the PSy-layer
`subroutine` statement, its assignments and its kernel calls / built-in loops are parsed from the generated
Fortran text with fparser2.
"""
import os
import re
import shutil
import tempfile

import common
from props import c24_gen as G

_STATE = {}


def setup():
    """kernel directory with only the palette kernels (the bundled directory has duplicates in sub-directories),
    PSyclone configured for LFRic, kernel-metadata parsing memoised (pure input handling, ~0.4 s per kernel call)."""
    if _STATE:
        return _STATE
    from psyclone.configuration import Config
    Config.get().api = "dynamo0.3"
    src = os.path.join(common.REPO, "src", "psyclone", "tests", "test_files", "dynamo0p3")
    kdir = tempfile.mkdtemp(prefix="c24k_")
    for f, _, _ in G.KERNELS:
        p = os.path.join(src, f)
        if not os.path.exists(p):
            raise common.Infra("bundled test kernel missing: " + p)
        shutil.copy(p, os.path.join(kdir, f))
    from psyclone.parse import kernel as pk
    for cls in (pk.KernelTypeFactory, pk.BuiltInKernelTypeFactory):
        orig = cls.create

        def cached(self, *a, _orig=orig, _memo={}, **kw):
            key = (self._type, a[-1] if a and isinstance(a[-1], str) else None, kw.get("name"), len(a))
            if key not in _memo:
                _memo[key] = _orig(self, *a, **kw)
            return _memo[key]
        cls.create = cached
    from fparser.two.parser import ParserFactory
    _STATE.update(kdir=kdir, parser=ParserFactory().create(std="f2008"), sigs={}, layouts={})
    return _STATE


def cleanup():
    if _STATE.get("kdir"):
        shutil.rmtree(_STATE["kdir"], ignore_errors=True)
    _STATE.clear()


# ---------------------------------------------------------------- kernel signatures (from the real metadata)
def signature(kname, builtin):
    """list of (role, kind) in the order the arguments are written in the invoke"""
    st = setup()
    key = (kname, builtin)
    if key in st["sigs"]:
        return st["sigs"][key]
    sig = []
    if builtin:
        from psyclone.domain.lfric.lfric_builtins import BUILTIN_MAP
        for m in BUILTIN_MAP[kname].metadata().meta_args:
            cls = type(m).__name__
            if cls == "ScalarArgMetadata":
                sig.append(("data", "rscalar" if m.datatype == "gh_real" else "iscalar"))
            elif cls == "FieldArgMetadata":
                sig.append(("data", "field"))
            else:
                raise common.Infra(f"unexpected built-in metadata {cls}")
    else:
        from psyclone.parse.kernel import get_kernel_ast, KernelTypeFactory
        from psyclone.domain.lfric import LFRicConstants
        mod = [m for _, m, t in G.KERNELS if t == kname][0]
        ast = get_kernel_ast(mod, os.path.join(st["kdir"], "x.f90"), [st["kdir"]], False)
        kt = KernelTypeFactory(api="dynamo0.3").create(ast, name=kname)
        fss = []
        for d in kt.arg_descriptors:
            for att in ("function_space", "function_space_to", "function_space_from"):
                try:
                    fs = getattr(d, att, None)
                except Exception:      # noqa: descriptors raise for attributes that do not apply
                    fs = None
                if isinstance(fs, str) and fs and fs not in fss:
                    fss.append(fs.lower())
        st.setdefault("spaces", {})[kname] = fss
        for d in kt.arg_descriptors:
            if d.argument_type == "gh_scalar":
                sig.append(("data", "rscalar" if d.data_type == "gh_real" else "iscalar"))
            elif d.argument_type == "gh_field":
                sig.append(("data", "vec" if d.vector_size > 1 else "field"))
                if d.stencil:
                    sig.append(("extent", "extent"))
                    if d.stencil["type"] == "xory1d":
                        sig.append(("direction", "direction"))
            elif d.argument_type == "gh_operator":
                sig.append(("data", "op"))
            else:
                raise common.Infra(f"palette kernel with unsupported argument type {d.argument_type}")
        for s in kt.eval_shapes:
            if s in LFRicConstants().VALID_QUADRATURE_SHAPES:
                sig.append(("qr", "qr"))
    st["sigs"][key] = sig
    return sig


def spaces(kname):
    """function-space names (as in the metadata) of the field / operator arguments of a palette kernel"""
    signature(kname, False)
    return setup()["spaces"].get(kname, [])


# ---------------------------------------------------------------- run + read back
def run_generate(text, dm, testing=False):
    """returns ("ok", alg_text, psy_text) or ("error", ExceptionClassName, message).
    testing=True selects the PSyIR-based algorithm rewriting (generator.LFRIC_TESTING, not the default path)."""
    st = setup()
    from psyclone import generator
    generator.LFRIC_TESTING = bool(testing)
    fn = os.path.join(st["kdir"], "alg_c24.f90")
    with open(fn, "w") as f:
        f.write(text)
    try:
        alg, psy = generator.generate(fn, api="dynamo0.3", kernel_paths=[st["kdir"]], distributed_memory=dm)
        return "ok", str(alg), str(psy)
    except Exception as e:      # noqa: every refusal / crash is classified by the caller
        return "error", type(e).__name__, str(e)[:300]
    finally:
        generator.LFRIC_TESTING = False
        os.unlink(fn)


def _parse(text):
    from fparser.common.readfortran import FortranStringReader
    rd = FortranStringReader(text, ignore_comments=True)
    return setup()["parser"](rd)


def _args_of_call(call):
    a = call.items[1]
    if a is None:
        return []
    from fparser.two import Fortran2003 as F
    if isinstance(a, F.Actual_Arg_Spec_List):
        return [G.norm(x.tostr()) for x in a.items]
    return [G.norm(a.tostr())]


def read_alg(alg_text):
    """[(call name, [normalised actual texts])] for every `call invoke_*` in the generated algorithm layer, in order;
    also the number of surviving `call invoke(` statements"""
    from fparser.two import Fortran2003 as F
    from fparser.two.utils import walk
    tree = _parse(alg_text)
    out, left = [], 0
    for c in walk(tree, F.Call_Stmt):
        name = G.norm(c.items[0].tostr())
        if name == "invoke":
            left += 1
        elif name.startswith("invoke_"):
            out.append((name, _args_of_call(c)))
    uses = [G.norm(u.tostr()) for u in walk(tree, F.Use_Stmt)]
    return out, left, uses


IDENT = re.compile(r"(?<![%\w.])([a-z_]\w*)(?![\w]*['\"])")


def idents(text):
    """identifiers of an expression text that are symbols (not component names after `%`, not kind suffixes)"""
    text = re.sub(r"(?<![\w.])\d+(\.\d*)?([ed][+-]?\d+)?(_\w+)?", "0", text)   # numeric literals incl. kind suffix
    text = re.sub(r"\.\w+\.", " ", text)                # .eq. etc
    return [m.group(1) for m in IDENT.finditer(text)]


class Routine:
    def __init__(self, name, dummies):
        self.name, self.dummies = name, dummies
        self.defs = {}          # symbol -> set of symbols its value is computed from
        self.assigned = set()   # symbols on the left of an assignment outside the kernel loops
        self.declared = {}      # symbol -> number of declarations
        self.loops = []         # per kernel loop: ("call", name, [actual texts]) | ("assign", lhs, rhs)

    def trace(self, sym, seen=None):
        """set of dummies the value of `sym` is derived from (through the routine's assignments)"""
        seen = seen if seen is not None else set()
        if sym in seen:
            return set()
        seen.add(sym)
        if sym in self.dummies:
            return {sym}
        out = set()
        for s in self.defs.get(sym, ()):
            out |= self.trace(s, seen)
        return out

    def trace_text(self, text):
        out = set()
        for s in idents(text):
            out |= self.trace(s)
        return out


def read_psy(psy_text):
    """{routine name: Routine} for every subroutine of the generated PSy module, in order"""
    from fparser.two import Fortran2003 as F
    from fparser.two.utils import walk
    tree = _parse(psy_text)
    routines = []
    for sub in walk(tree, F.Subroutine_Subprogram):
        stmt = sub.content[0]
        name = G.norm(stmt.items[1].tostr())
        dl = stmt.items[2]
        dummies = [] if dl is None else ([G.norm(x.tostr()) for x in dl.items]
                                         if isinstance(dl, F.Dummy_Arg_List) else [G.norm(dl.tostr())])
        r = Routine(name, dummies)
        for decl in walk(sub, F.Type_Declaration_Stmt):
            for ent in walk(decl, F.Entity_Decl):
                n = G.norm(ent.items[0].tostr())
                r.declared[n] = r.declared.get(n, 0) + 1

        def visit(node, in_loop):
            for ch in getattr(node, "content", None) or getattr(node, "children", None) or []:
                if isinstance(ch, F.Block_Nonlabel_Do_Construct):
                    if not in_loop:
                        calls = walk(ch, F.Call_Stmt)
                        asg = walk(ch, F.Assignment_Stmt)
                        if calls:
                            c = calls[0]
                            r.loops.append(("call", G.norm(c.items[0].tostr()), _args_of_call(c)))
                        elif asg:
                            # the loop variable (df, or df_1 when an argument is called df) is written `$`
                            m = re.match(r"do([a-z_]\w*)=", G.norm(ch.content[0].tostr()))
                            lv = m.group(1) if m else "df"
                            sides = [re.sub(r"(?<![%\w.])" + lv + r"(?!\w)", "$", G.norm(asg[0].items[k].tostr()))
                                     for k in (0, 2)]
                            r.loops.append(("assign", sides[0], sides[1]))
                    continue
                if isinstance(ch, (F.Assignment_Stmt, F.Pointer_Assignment_Stmt)):
                    lhs = G.norm(ch.items[0].tostr())
                    rhs = G.norm(ch.items[2].tostr())
                    base = re.match(r"[a-z_]\w*", lhs).group(0)
                    r.assigned.add(base)
                    r.defs.setdefault(base, set()).update(idents(rhs))
                    continue
                if isinstance(ch, (F.Subroutine_Stmt, F.Specification_Part, F.End_Subroutine_Stmt)):
                    continue
                if hasattr(ch, "content") or isinstance(ch, (F.If_Construct,)):
                    visit(ch, in_loop)
        visit(sub, False)
        routines.append(r)
    return routines
