"""C21 — LFRic kernel calls match the kernel interface for all metadata.

Per case (a metadata spec): the REAL kernel-stub generator and the REAL PSy-layer generator are run on
synthesised kernel metadata + algorithm file; the stub's dummy list and the call's actual list are
parsed into per-position (type, kind, rank[, intent]) and compared position by position (= the
property, on the real code).  Both are also compared with the Lean model (`walk` + the two
expansions + the translator-generated signature table) through the driver, and the stub with the
formalised documentation rules (`docOrder`)."""
import glob
import json
import os
import shutil
import subprocess
import tempfile

import common
from common import driver, sx
from props import c21_gen as G, c21_real as R, c21_atoms as A

PROP = "C21"
REFUSALS = ("ParseError", "GenerationError", "NotImplementedError", "FieldNotFoundError")
MAX_REPORTS = 4     # failing inputs written as replay files per run (all are counted)


def gen():
    call, stub, ok = A.observe(R.run_real)
    return {"PsyVerif/Gen/ArgOrder.lean": A.lean_table(call, stub, ok)}


# ---------------------------------------------------------------------------------------------
def parse_model(line):
    out = {}
    for part in line.split(";"):
        key, rest = part.split("=", 1)
        refusal, atoms = rest.split("|", 1)
        out[key] = (refusal, [tuple(a.split(":")) for a in atoms.split(",") if a])
    return out


def real_rows(res, md):
    """Real results in the model's vocabulary: [(atom, ty, kind, rank[, intent])] as strings."""
    call = stub = None
    if res["call"] is not None:
        call = [(A.classify_call(t, md), ty, kind, str(rank)) for (t, ty, kind, rank) in res["call"]]
    if res["stub"] is not None:
        stub = [(A.classify_stub(n, md), ty, kind, str(rank), intent) for (n, ty, kind, rank, intent) in res["stub"]]
    return call, stub


def _lma_first_only(md):
    ops = [i for i, a in enumerate(md["args"]) if a["k"] == "op"]
    return ops == [0]


DOC_CLASSES = {
    "C21-doc-xory1d-direction-order":
        lambda md, sec: any(a["k"] == "field" and a["st"] == "xory1d" for a in md["args"]),
    "C21-doc-diff-basis-first":
        lambda md, sec: any(f.get("diff_first") and f["basis"] and f["diff"] for f in md["funcs"]),
    "C21-doc-cma-assembly-ncell3d":
        lambda md, sec: sec == "cmaAssembly" and not _lma_first_only(md),
    "C21-doc-cma-apply-indirection-order":
        lambda md, sec: sec == "cmaApply" and any(a["k"] == "cma" and a["to"] != a["from"] for a in md["args"]),
    "C21-doc-domain-whole-dofmap":
        lambda md, sec: sec == "domain",
}


def acc_property(md, res):
    """OpenACC variant on the real code (kernels operating on cell columns): the array behind every
    array actual of the kernel call must be named in KernCallAccArgList's list."""
    if res["call"] is None or res.get("acc") is None or md["operates_on"] != "cell_column":
        return None
    # (the inherited mesh_properties() puts the *section* 'adjacent_face(:,cell)' into the list: compare base names)
    names = {x.lower().split("(")[0] for x in res["acc"]}
    for (txt, ty, kind, rank) in res["call"]:
        t = txt.lower()
        if "%" in t or ty in ("expression",):
            continue
        base = t.split("(")[0]
        if (rank >= 1 or "(" in t) and base not in names:
            return (f"OpenACC data list (KernCallAccArgList) does not name the array '{base}' that the kernel "
                    f"call passes as '{txt}'")
    return None


def property_on_real(md, res):
    """None, or the description of the failure of the property on the real code."""
    if res["stub"] is not None and res["call"] is None and md["operates_on"] != "dof":
        err = res["call_err"] or ""
        if not err.startswith(REFUSALS):
            return ("a stub is generated but PSy-layer generation for the same metadata crashes: " + err[:160])
    if res["stub"] is not None and res.get("stub_problems"):
        return "the generated stub is not well formed: " + "; ".join(res["stub_problems"])
    why = acc_property(md, res)
    if why:
        return why
    if res["stub"] is None or res["call"] is None:
        return None
    return R.compare(res["stub"], res["call"])


def check_case(chk, md, res, model, stream, stats):
    """Returns True when a failing input for the property was reported."""
    why = property_on_real(md, res)
    call, stub = real_rows(res, md)
    nontrivial = res["call"] is not None and len(md["args"]) >= 2
    agreed = True
    if why:
        stats["violations"] += 1
        if stats["violations"] <= MAX_REPORTS:
            chk.violation({"kind": "failing-input", "metadata": md, "observed": why,
                           "expected": "stub dummy list and PSy-layer actual list agree in count, type, kind, rank",
                           "stub": res["stub"], "call": res["call"]})
        return True
    if md["mesh"] and any(a["k"] == "cma" for a in md["args"]):
        # a CMA kernel with meta_mesh makes BOTH real generators raise InternalError ("unsupported mesh
        # property NCELL_2D"): no argument list exists on either side, nothing to compare (outside Valid)
        stats["cma_with_mesh_property_skipped"] += 1
        chk.case({"md": md, "stream": stream}, nontrivial=False, agreed=True)
        return False
    if md["operates_on"] == "dof":
        # user-supplied DoF kernels: the pinned PSyclone has no code generation for them (outside Valid)
        stats["dof_kernel_skipped"] += 1
        chk.case({"md": md, "stream": stream}, nontrivial=False, agreed=True)
        return False
    if model is not None:
        m = parse_model(model)
        # refusals
        parse_refused = bool(res["call_err"]) and res["call_err"].startswith(("ParseError", "NotImplementedError"))
        if parse_refused:
            stats["refused_by_metadata_parser"] += 1
        else:
            if (res["call"] is None) != bool(m["call"][0]):
                agreed = False
                chk.correspondence_broken("PSy-layer side: refusal differs", md, m["call"][0], res["call_err"])
            elif call is not None and [tuple(x) for x in call] != [tuple(x) for x in m["call"][1]]:
                agreed = False
                chk.correspondence_broken("call argument list differs from callArgs", md, m["call"][1], call)
            if (res["stub"] is None) != bool(m["stub"][0]):
                agreed = False
                chk.correspondence_broken("stub side: refusal differs", md, m["stub"][0], res["stub_err"])
            elif stub is not None and [tuple(x) for x in stub] != [tuple(x) for x in m["stub"][1]]:
                agreed = False
                chk.correspondence_broken("stub argument list differs from stubArgs", md, m["stub"][1], stub)
            if res["call"] is not None and bool(m["acc"][0]) != (res.get("acc") is None):
                agreed = False
                chk.correspondence_broken("KernCallAccArgList: refusal differs", md, m["acc"][0], res.get("acc_err"))
            elif res.get("acc") is not None:
                stats["acc_lists_compared"] += 1
                real_acc = [A.classify_call(x, md) for x in res["acc"]]
                model_acc = [x[0] for x in m["acc"][1]]
                if real_acc != model_acc:
                    agreed = False
                    chk.correspondence_broken("KernCallAccArgList list differs from accArgs", md, model_acc, real_acc)
            # documented order (general-purpose kernels): BOTH the real stub and the real call vs docOrder
            if m["doc"][0] != "out-of-scope":
                sec = m["doc"][0]
                stats["doc_section:" + sec] += 1
                doc_atoms = [x[0] for x in m["doc"][1]]
                for side, rows, mrows in (("stub", stub, m["stub"][1]), ("call", call, m["call"][1])):
                    if rows is None:
                        continue
                    stats["doc_checked_" + side] += 1
                    real_atoms = [x[0] for x in rows]
                    model_atoms = [x[0] for x in mrows]
                    if real_atoms != doc_atoms:
                        cls = [k for k, f in DOC_CLASSES.items() if f(md, sec)]
                        if cls and real_atoms == model_atoms:
                            stats["doc_known:" + cls[0]] += 1
                        else:
                            stats["violations"] += 1
                            if stats["violations"] <= MAX_REPORTS:
                                chk.violation({"kind": "failing-input", "clause": "documented order", "side": side,
                                               "metadata": md, "observed": real_atoms, "expected": doc_atoms})
                            return True
    chk.case({"md": md, "stream": stream}, nontrivial=nontrivial, agreed=agreed)
    return False


# ---------------------------------------------------------------------------------------------
def corpus():
    out = []
    for p in sorted(glob.glob(os.path.join(common.ROOT, "corpus", PROP, "*.json"))):
        out.append(json.load(open(p))["metadata"])
    return out


def run(chk):
    from collections import Counter
    stats = Counter()
    chk.cov["rule"] = ("kernel metadata specs: corpus, then the systematic family mesh property x reference-element property "
                       "subsets (43 kernels), the CMA family (to/from pairs incl. every pair of space names where one is a substring of "
                       "the other, both directions, x assembly/apply/matrix-matrix), the confusable-names family and the evaluator family "
                       "(evaluator kernels x every update access inc/readinc/write/readwrite of one or two updated fields/vectors/operators, "
                       "default and explicit gh_evaluator_targets), then seeded random mostly-valid metadata (general-purpose "
                       "kernels with fields/vectors/operators/scalars/stencils/basis x shapes/reference-element/"
                       "mesh properties, CMA assembly/apply/matrix-matrix, inter-grid, domain, boundary-condition "
                       "kernels) plus a malformed stream; non-trivial = PSy layer generated and >= 2 metadata "
                       "arguments; distinct by canonical JSON")
    chk.assumptions += [
        "algorithm-layer arguments have the default precisions the stub generator assumes (field_type=r_def, "
        "operator_type=r_def, columnwise_operator_type=r_solver, r_def/i_def/l_def scalars)",
        "operator_proxy%ncell_3d is integer(i_def) (LFRic infrastructure; compiled in the thorough tier)",
        "intents are those of the stub, compared with the documented access->intent rule",
        "docOrder/docOrderAll are a hand formalisation of the user guide's argument rules for general-purpose, CMA "
        "(assembly/apply/matrix-matrix), inter-grid and domain kernels (reading choices in Model/ArgOrderDoc.lean); "
        "out of scope: DoF kernels (documented as not implemented), the two boundary-condition kernels, CMA/inter-grid/"
        "domain kernels with basis/reference-element/mesh metadata (their sections are silent)",
        "stencil extents in metadata are never set (PSyclone raises NotImplementedError for them)",
        "user-supplied DoF kernels are outside Valid: the pinned PSyclone cannot generate code for them",
        "CMA kernels with meta_mesh are not compared: both real generators crash on them (InternalError, "
        "unsupported mesh property NCELL_2D)"]
    chk.cov["trusted_base"] = [
        "Lean 4.33.0 kernel", "axioms propext/Classical.choice/Quot.sound only (audited)",
        "translator harness/props/c21_atoms.py (probe kernels -> Gen/ArgOrder.lean), name-based classification of "
        "arguments into atoms", "fparser2 parse of the generated stub / PSy layer (harness/props/c21_real.py)"]
    lean_ok = chk.lean(gen=gen)
    ncases = 300 if chk.tier == "thorough" else 45
    nbad = 60 if chk.tier == "thorough" else 8
    cases = [("corpus", md) for md in corpus()]
    cases += [("systematic", md) for md in G.systematic_family()]
    cases += [("systematic-cma", md) for md in G.cma_family()]
    cases += [("systematic-names", md) for md in G.confusable_family()]
    cases += [("systematic-evaluator", md) for md in G.evaluator_family()]
    cases += [("valid", G.gen_valid(chk.rng)) for _ in range(ncases)]
    cases += [("malformed", G.gen_malformed(chk.rng)) for _ in range(nbad)]
    results = [R.run_real(md) for _, md in cases]
    try:
        model = driver(PROP, [sx(A.encode(md)) for _, md in cases])
    except common.Infra:
        if lean_ok:
            raise
        model = [None] * len(cases)    # proof obligation already recorded as broken; search on the real code
    found = False
    for (stream, md), res, mo in zip(cases, results, model):
        stats["stream:" + stream] += 1
        stats["kernel:" + md["name"].rstrip("0123456789")] += 1
        stats["stub:" + ("yes" if res["stub"] is not None else "no")] += 1
        stats["call:" + ("yes" if res["call"] is not None else "no")] += 1
        if check_case(chk, md, res, mo, stream, stats):
            found = True
    if chk.tier == "thorough" and not found:
        compile_tier(chk, [md for s, md in cases if s != "malformed"][:40], stats)
    chk.cov["robustness_observations"] = robustness_observations()
    # known findings
    for e in common.known_findings(PROP):
        if replay_finding(e):
            chk.known(e["what"])
    chk.cov["distribution"] = dict(stats)


# ---------------------------------------------------------------------------------------------
def robustness_observations():
    """Metadata the parser accepts but for which NO argument list is produced (generator crashes).
    Not C21 violations (there is nothing to compare); replayed on every run and recorded in the evidence."""
    def fld(fs, acc):
        return {"k": "field", "dt": "real", "vec": 1, "acc": acc, "fs": fs, "st": "none", "mesh": "none"}
    dof = G.blank("kf")
    dof["operates_on"] = "dof"
    dof["args"] = [fld("w3", "readwrite")]
    cma = G.blank("kc")
    cma["args"] = [{"k": "cma", "acc": "write", "to": "w0", "from": "w1"},
                   {"k": "op", "acc": "read", "to": "w0", "from": "w1"}]
    cma["mesh"] = ["adjacent_face"]
    out = []
    dom = G.blank("kd")
    dom["operates_on"] = "domain"
    dom["args"] = [fld("w3", "readwrite")]
    res = R.run_real(dom)
    if res.get("acc") is not None and res["call"] is not None:
        passed = [t for (t, ty, kind, rank) in res["call"] if t.lower().startswith("map_")]
        out.append({"id": "acc-domain-dofmap-not-in-data-list",
                    "what": "KernCallAccArgList.fs_compulsory_field returns early unless the kernel operates on cell "
                            "columns: for a domain kernel the whole dofmap (and undf) passed by the call is not named in the "
                            "OpenACC data list (Lean: C21_acc_domain_counterexample); outside the C21 statement",
                    "metadata": dom, "call_passes": passed, "acc_list": res["acc"],
                    "still_reproduces": bool(passed) and not any(p.lower() in [a.lower() for a in res["acc"]]
                                                                 for p in passed)})
    ig = G.blank("ki")
    ig["args"] = [dict(fld("w1", "inc"), mesh="coarse"), dict(fld("w2", "read"), mesh="fine"),
                  dict(fld("w1", "read"), mesh="coarse")]
    res = R.run_real(ig)
    out.append({"id": "acc-intergrid-two-coarse-arguments",
                "what": "KernCallAccArgList.cell_map raises InternalError 'should have only one coarse mesh' when two "
                        "ARGUMENTS are on the coarse mesh (allowed by the metadata rules); the ordinary call is generated",
                "metadata": ig, "call": "generated" if res["call"] is not None else res["call_err"],
                "acc": res.get("acc") or res.get("acc_err"),
                "still_reproduces": res["call"] is not None and res.get("acc") is None})
    for ident, what, md in (
            ("user-dof-kernel", "user-supplied kernel with operates_on=dof: metadata accepted, stub generator refuses "
             "(GenerationError: supports only cell_column), PSy-layer generation crashes while lowering the loop; the user "
             "guide states that DoF kernels are not yet implemented (issue #1351), so this is documented behaviour", dof),
            ("cma-kernel-with-meta-mesh", "CMA kernel with meta_mesh=adjacent_face: metadata accepted (the user guide does "
             "not forbid it), but LFRicMeshProperties adds NCELL_2D for CMA kernels and kern_args() raises InternalError "
             "'unsupported mesh property NCELL_2D' in BOTH the stub generator and the PSy-layer generator", cma)):
        res = R.run_real(md)
        out.append({"id": ident, "what": what, "metadata": md,
                    "stub": "generated" if res["stub"] is not None else (res["stub_err"] or "")[:200],
                    "call": "generated" if res["call"] is not None else (res["call_err"] or "")[:200],
                    "still_reproduces": res["stub"] is None and res["call"] is None})
    return out


def replay_finding(e):
    """Doc findings: the real stub's argument order differs from the documented order on the witness."""
    md = e["witness"]["metadata"]
    res = R.run_real(md)
    call, stub = real_rows(res, md)
    rows = stub if stub is not None else call
    if rows is None:
        return False
    if "documented_type" in e["witness"]:
        # documented type of an argument class vs the type the real stub declares
        atom, ty = e["witness"]["documented_type"]
        return any(r[0].startswith(atom) and r[1] != ty for r in rows)
    real_atoms = [x[0] for x in rows]
    return real_atoms != e["witness"]["documented_order"]


def replay(payload):
    md = payload["metadata"]
    res = R.run_real(md)
    if payload.get("clause") == "documented order":
        call, stub = real_rows(res, md)
        rows = call if payload.get("side") == "call" else stub
        real_atoms = [x[0] for x in rows] if rows else None
        print("metadata:", json.dumps(md))
        print("real", payload.get("side", "stub"), "order:", real_atoms)
        print("documented order:", payload["expected"])
        return 1 if real_atoms != payload["expected"] else 0
    why = property_on_real(md, res)
    print("metadata:", json.dumps(md))
    print("stub :", res["stub"] if res["stub"] is not None else res["stub_err"])
    print("call :", res["call"] if res["call"] is not None else res["call_err"])
    print("property:", why or "holds")
    return 1 if why else 0


# ---------------------------------------------------------------------------------------------
def compile_tier(chk, mds, stats):
    """Thorough tier: compile generated stub + PSy layer together with gfortran against the bundled
    LFRic infrastructure (explicit interface => gfortran checks type/kind/rank of every actual)."""
    infra_src = os.path.join(common.REPO, "src/psyclone/tests/test_files/dynamo0p3/infrastructure")
    work = tempfile.mkdtemp(prefix="c21-gf-", dir=os.environ.get("TMPDIR"))
    try:
        p = subprocess.run(["make", "-j8", "-f", os.path.join(infra_src, "Makefile"), "standalone",
                            "F90FLAGS=-O0"], cwd=work, stdout=subprocess.PIPE, stderr=subprocess.STDOUT,
                           text=True, timeout=900)
        if p.returncode != 0:
            raise common.Infra("cannot build the LFRic infrastructure stubs: " + p.stdout[-500:])
        incs = []
        for d in sorted({os.path.dirname(m) for m in glob.glob(os.path.join(work, "**", "*.mod"), recursive=True)}):
            incs += ["-I", d]
        for md in mds:
            res = R.run_real(md)
            if res["stub_text"] is None or res["psy_text"] is None:
                continue
            d = tempfile.mkdtemp(dir=work)
            open(os.path.join(d, "stub.f90"), "w").write(res["stub_text"])
            open(os.path.join(d, "psy.f90"), "w").write(res["psy_text"])
            p = subprocess.run(["gfortran", "-c", "-ffree-line-length-none", "-J", d] + incs + ["stub.f90", "psy.f90"],
                               cwd=d, stdout=subprocess.PIPE, stderr=subprocess.STDOUT, text=True, timeout=300)
            stats["gfortran_compiled"] += 1
            if p.returncode != 0:
                stats["gfortran_rejected"] += 1
                chk.violation({"kind": "failing-input", "metadata": md, "clause": "gfortran",
                               "observed": p.stdout[-1500:],
                               "expected": "PSy layer compiles against the generated stub"})
                return
    finally:
        shutil.rmtree(work, ignore_errors=True)
